//! Simulated one-directional lossy link (DESIGN 2.4). Time is counted in ticks.

use crate::rng::Rng;

#[derive(Clone, Copy, Debug, PartialEq, Eq)]
pub enum Profile {
    Clean,
    Light,
    Heavy,
    DupHeavy,
    ReorderHeavy,
    Blackout,
    Chaos,
    /// first transmission of every keyed item is lost, retransmissions get through
    LoseFirst,
    /// hold everything for `hold` ticks, then release the burst newest-first dropping every 2nd
    HoldReverse,
}

pub const ALL_RANDOM_PROFILES: &[Profile] = &[
    Profile::Clean,
    Profile::Light,
    Profile::Heavy,
    Profile::DupHeavy,
    Profile::ReorderHeavy,
    Profile::Blackout,
    Profile::Chaos,
    Profile::LoseFirst,
    Profile::HoldReverse,
];

#[derive(Clone, Debug)]
pub struct LinkCfg {
    pub profile: Profile,
    pub loss_pct: u64,
    pub dup_pct: u64,
    pub max_copies: u32,
    pub max_delay: u64,
    pub delay_pct: u64,
    pub blackout_on: u64,
    pub blackout_off: u64,
    pub hold: u64,
}

impl LinkCfg {
    pub fn clean() -> Self {
        LinkCfg {
            profile: Profile::Clean,
            loss_pct: 0,
            dup_pct: 0,
            max_copies: 1,
            max_delay: 0,
            delay_pct: 0,
            blackout_on: 0,
            blackout_off: 0,
            hold: 0,
        }
    }

    pub fn from_profile(p: Profile, r: &mut Rng) -> Self {
        let mut c = LinkCfg::clean();
        c.profile = p;
        match p {
            Profile::Clean => {}
            Profile::Light => {
                c.loss_pct = r.range(1, 10);
                c.dup_pct = r.range(0, 5);
                c.max_copies = 2;
                c.max_delay = r.range(0, 3);
                c.delay_pct = 20;
            }
            Profile::Heavy => {
                c.loss_pct = r.range(50, 90);
                c.dup_pct = r.range(0, 10);
                c.max_copies = 2;
                c.max_delay = r.range(0, 5);
                c.delay_pct = 30;
            }
            Profile::DupHeavy => {
                c.loss_pct = r.range(0, 20);
                c.dup_pct = r.range(40, 100);
                c.max_copies = 4;
                c.max_delay = r.range(1, 20);
                c.delay_pct = 60;
            }
            Profile::ReorderHeavy => {
                c.loss_pct = r.range(0, 15);
                c.dup_pct = r.range(0, 20);
                c.max_copies = 3;
                c.max_delay = r.range(5, 40);
                c.delay_pct = 80;
            }
            Profile::Blackout => {
                c.loss_pct = r.range(0, 10);
                c.blackout_on = r.range(3, 40);
                c.blackout_off = r.range(3, 40);
                c.max_delay = r.range(0, 3);
                c.delay_pct = 20;
            }
            Profile::Chaos => {
                c.loss_pct = r.range(10, 60);
                c.dup_pct = r.range(10, 60);
                c.max_copies = 4;
                c.max_delay = r.range(1, 40);
                c.delay_pct = r.range(20, 90);
            }
            Profile::LoseFirst => {
                c.dup_pct = r.range(0, 30);
                c.max_copies = 2;
                c.max_delay = r.range(0, 4);
                c.delay_pct = 30;
            }
            Profile::HoldReverse => {
                c.hold = r.range(3, 30);
                c.dup_pct = r.range(0, 20);
                c.max_copies = 2;
            }
        }
        c
    }
}

#[derive(Clone, Debug)]
pub struct InFlight {
    pub at: u64,
    pub uid: u64,
    pub copy: u32,
    pub bytes: Vec<u8>,
}

#[derive(Clone, Debug, Default)]
pub struct LinkStats {
    pub sent: u64,
    pub dropped: u64,
    pub duplicated: u64,
    pub delayed: u64,
    pub delivered: u64,
    pub reordered: u64,
}

#[derive(Debug)]
pub struct Link {
    pub cfg: LinkCfg,
    pub q: Vec<InFlight>,
    pub next_uid: u64,
    pub stats: LinkStats,
    seen_keys: std::collections::HashSet<u64>,
    held: Vec<InFlight>,
    hold_start: Option<u64>,
    last_delivered_uid: Option<u64>,
    /// once true, behaves as a clean link (faults stopped); already queued datagrams still arrive
    pub healed: bool,
}

impl Link {
    pub fn new(cfg: LinkCfg) -> Self {
        Link {
            cfg,
            q: Vec::new(),
            next_uid: 0,
            stats: LinkStats::default(),
            seen_keys: Default::default(),
            held: Vec::new(),
            hold_start: None,
            last_delivered_uid: None,
            healed: false,
        }
    }

    pub fn heal(&mut self, now: u64) {
        self.healed = true;
        // release anything still held by a scripted schedule
        let mut held = std::mem::take(&mut self.held);
        for mut h in held.drain(..) {
            h.at = now;
            self.q.push(h);
        }
    }

    /// Hands a datagram to the link at tick `now`. `key` identifies the logical item carried
    /// (used by the LoseFirst script). Returns (uid, number of copies that will be delivered).
    pub fn send(&mut self, now: u64, bytes: &[u8], key: Option<u64>, r: &mut Rng) -> (u64, u32) {
        let uid = self.next_uid;
        self.next_uid += 1;
        self.stats.sent += 1;
        if self.healed {
            self.q.push(InFlight {
                at: now,
                uid,
                copy: 0,
                bytes: bytes.to_vec(),
            });
            return (uid, 1);
        }
        let c = &self.cfg;
        let mut drop = r.chance(c.loss_pct, 100);
        if c.blackout_on + c.blackout_off > 0 {
            let phase = now % (c.blackout_on + c.blackout_off);
            if phase >= c.blackout_on {
                drop = true;
            }
        }
        if c.profile == Profile::LoseFirst {
            if let Some(k) = key {
                if self.seen_keys.insert(k) {
                    drop = true;
                }
            }
        }
        if drop {
            self.stats.dropped += 1;
            return (uid, 0);
        }
        let mut copies = 1;
        if c.max_copies > 1 && r.chance(c.dup_pct, 100) {
            copies = r.range(2, c.max_copies as u64) as u32;
            self.stats.duplicated += 1;
        }
        for copy in 0..copies {
            let mut delay = 0;
            if c.max_delay > 0 && r.chance(c.delay_pct, 100) {
                delay = r.range(1, c.max_delay);
                self.stats.delayed += 1;
            }
            if copy > 0 && c.max_delay > 0 {
                // late duplicates are the interesting ones
                delay += r.range(0, c.max_delay * 2);
            }
            let f = InFlight {
                at: now + delay,
                uid,
                copy,
                bytes: bytes.to_vec(),
            };
            if c.profile == Profile::HoldReverse {
                if self.hold_start.is_none() {
                    self.hold_start = Some(now);
                }
                self.held.push(f);
            } else {
                self.q.push(f);
            }
        }
        (uid, copies)
    }

    /// Datagrams to deliver at tick `now`, in delivery order.
    pub fn due(&mut self, now: u64, r: &mut Rng) -> Vec<InFlight> {
        if self.cfg.profile == Profile::HoldReverse && !self.healed {
            if let Some(s) = self.hold_start {
                if now >= s + self.cfg.hold {
                    // release newest-first, dropping every second one
                    let mut held = std::mem::take(&mut self.held);
                    held.reverse();
                    for (i, mut h) in held.into_iter().enumerate() {
                        if i % 2 == 1 {
                            self.stats.dropped += 1;
                            continue;
                        }
                        h.at = now;
                        self.q.push(h);
                    }
                    self.hold_start = None;
                    let mut out: Vec<InFlight> = Vec::new();
                    let mut i = 0;
                    while i < self.q.len() {
                        if self.q[i].at <= now {
                            out.push(self.q.remove(i));
                        } else {
                            i += 1;
                        }
                    }
                    self.account(&out);
                    return out; // keep descending order
                }
            }
        }
        let mut out: Vec<InFlight> = Vec::new();
        let mut i = 0;
        while i < self.q.len() {
            if self.q[i].at <= now {
                out.push(self.q.swap_remove(i));
            } else {
                i += 1;
            }
        }
        out.sort_by_key(|f| (f.at, f.uid, f.copy));
        let shuffle = !self.healed
            && matches!(
                self.cfg.profile,
                Profile::ReorderHeavy | Profile::Chaos | Profile::DupHeavy | Profile::Light | Profile::Heavy
            )
            && r.chance(1, 2);
        if shuffle {
            r.shuffle(&mut out);
        }
        self.account(&out);
        out
    }

    fn account(&mut self, out: &[InFlight]) {
        for f in out {
            self.stats.delivered += 1;
            if let Some(last) = self.last_delivered_uid {
                if f.uid < last {
                    self.stats.reordered += 1;
                }
            }
            self.last_delivered_uid = Some(self.last_delivered_uid.map_or(f.uid, |l| l.max(f.uid)));
        }
    }

    pub fn in_flight(&self) -> usize {
        self.q.len() + self.held.len()
    }
}
