//! Deterministic PRNG (xoshiro256** seeded through SplitMix64). No external crate so that the
//! streams are identical on every engine (stable, nightly+ASan, Miri).

#[derive(Clone, Debug)]
pub struct Rng {
    s: [u64; 4],
}

pub fn splitmix(x: &mut u64) -> u64 {
    *x = x.wrapping_add(0x9E37_79B9_7F4A_7C15);
    let mut z = *x;
    z = (z ^ (z >> 30)).wrapping_mul(0xBF58_476D_1CE4_E5B9);
    z = (z ^ (z >> 27)).wrapping_mul(0x94D0_49BB_1331_11EB);
    z ^ (z >> 31)
}

/// Mixes a list of words into one seed (order sensitive).
pub fn mix(words: &[u64]) -> u64 {
    let mut h: u64 = 0x243F_6A88_85A3_08D3;
    for &w in words {
        let mut x = h ^ w;
        h = splitmix(&mut x).rotate_left(17) ^ w.wrapping_mul(0x9E37_79B9_7F4A_7C15);
    }
    let mut x = h;
    splitmix(&mut x)
}

pub fn hash_str(s: &str) -> u64 {
    fnv1a(s.as_bytes())
}

pub fn fnv1a(b: &[u8]) -> u64 {
    let mut h: u64 = 0xcbf2_9ce4_8422_2325;
    for &x in b {
        h ^= x as u64;
        h = h.wrapping_mul(0x0000_0100_0000_01B3);
    }
    h
}

/// Incremental FNV-1a hasher used for event-log fingerprints.
#[derive(Clone, Debug)]
pub struct Fnv(pub u64);
impl Default for Fnv {
    fn default() -> Self {
        Fnv(0xcbf2_9ce4_8422_2325)
    }
}
impl Fnv {
    pub fn new() -> Self {
        Self::default()
    }
    pub fn u64(&mut self, v: u64) {
        for b in v.to_le_bytes() {
            self.0 ^= b as u64;
            self.0 = self.0.wrapping_mul(0x0000_0100_0000_01B3);
        }
    }
    pub fn bytes(&mut self, b: &[u8]) {
        for &x in b {
            self.0 ^= x as u64;
            self.0 = self.0.wrapping_mul(0x0000_0100_0000_01B3);
        }
    }
    pub fn finish(&self) -> u64 {
        self.0
    }
}

impl Rng {
    pub fn new(seed: u64) -> Self {
        let mut x = seed;
        let s = [splitmix(&mut x), splitmix(&mut x), splitmix(&mut x), splitmix(&mut x)];
        Rng { s }
    }

    pub fn next_u64(&mut self) -> u64 {
        let result = self.s[1].wrapping_mul(5).rotate_left(7).wrapping_mul(9);
        let t = self.s[1] << 17;
        self.s[2] ^= self.s[0];
        self.s[3] ^= self.s[1];
        self.s[1] ^= self.s[2];
        self.s[0] ^= self.s[3];
        self.s[2] ^= t;
        self.s[3] = self.s[3].rotate_left(45);
        result
    }

    /// Uniform in 0..n (n > 0).
    pub fn below(&mut self, n: u64) -> u64 {
        debug_assert!(n > 0);
        // multiply-shift; bias is irrelevant for our purposes
        ((self.next_u64() as u128 * n as u128) >> 64) as u64
    }

    pub fn usize_below(&mut self, n: usize) -> usize {
        self.below(n as u64) as usize
    }

    /// Uniform in lo..=hi.
    pub fn range(&mut self, lo: u64, hi: u64) -> u64 {
        debug_assert!(lo <= hi);
        if lo == 0 && hi == u64::MAX {
            return self.next_u64();
        }
        lo + self.below(hi - lo + 1)
    }

    pub fn urange(&mut self, lo: usize, hi: usize) -> usize {
        self.range(lo as u64, hi as u64) as usize
    }

    /// True with probability num/den.
    pub fn chance(&mut self, num: u64, den: u64) -> bool {
        self.below(den) < num
    }

    pub fn pick<'a, T>(&mut self, xs: &'a [T]) -> &'a T {
        &xs[self.usize_below(xs.len())]
    }

    pub fn pick_copy<T: Copy>(&mut self, xs: &[T]) -> T {
        xs[self.usize_below(xs.len())]
    }

    pub fn shuffle<T>(&mut self, xs: &mut [T]) {
        for i in (1..xs.len()).rev() {
            let j = self.usize_below(i + 1);
            xs.swap(i, j);
        }
    }

    pub fn fill(&mut self, buf: &mut [u8]) {
        let mut i = 0;
        while i < buf.len() {
            let v = self.next_u64().to_le_bytes();
            let n = (buf.len() - i).min(8);
            buf[i..i + n].copy_from_slice(&v[..n]);
            i += n;
        }
    }

    pub fn bytes(&mut self, n: usize) -> Vec<u8> {
        let mut v = vec![0u8; n];
        self.fill(&mut v);
        v
    }

    /// Geometric-ish: number of successes before a failure with p = num/den, capped.
    pub fn geometric(&mut self, num: u64, den: u64, cap: u64) -> u64 {
        let mut k = 0;
        while k < cap && self.chance(num, den) {
            k += 1;
        }
        k
    }

    /// A u64 drawn from "interesting" magnitudes around varint / byte-width boundaries.
    pub fn boundary_u64(&mut self) -> u64 {
        const B: &[u64] = &[
            0,
            1,
            2,
            62,
            63,
            64,
            65,
            255,
            256,
            257,
            16382,
            16383,
            16384,
            16385,
            65535,
            65536,
            (1 << 30) - 1,
            1 << 30,
            (1 << 30) + 1,
            (1 << 32) - 1,
            1 << 32,
            (1 << 56) - 1,
            1 << 56,
            (1 << 62) - 2,
            (1 << 62) - 1,
            1 << 62,
            u64::MAX - 257,
            u64::MAX - 256,
            u64::MAX - 255,
            u64::MAX - 1,
            u64::MAX,
        ];
        match self.below(4) {
            0 => self.below(300),
            1 => self.next_u64() >> self.below(64),
            _ => self.pick_copy(B),
        }
    }

    /// Boundary value that fits an octets varint (<= 2^62-1).
    pub fn boundary_varint(&mut self) -> u64 {
        loop {
            let v = self.boundary_u64();
            if v < (1 << 62) {
                return v;
            }
        }
    }
}

pub fn hex(b: &[u8]) -> String {
    let mut s = String::with_capacity(b.len() * 2);
    for x in b {
        s.push_str(&format!("{:02x}", x));
    }
    s
}

pub fn unhex(s: &str) -> Vec<u8> {
    let b = s.as_bytes();
    let mut out = Vec::with_capacity(b.len() / 2);
    let v = |c: u8| -> u8 {
        match c {
            b'0'..=b'9' => c - b'0',
            b'a'..=b'f' => c - b'a' + 10,
            b'A'..=b'F' => c - b'A' + 10,
            _ => 0,
        }
    };
    let mut i = 0;
    while i + 1 < b.len() {
        out.push(v(b[i]) << 4 | v(b[i + 1]));
        i += 2;
    }
    out
}
