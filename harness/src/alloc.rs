//! Counting global allocator (DESIGN 2.3): live bytes, peak, largest single request.
//! The binary installs it; monitors read the counters at quiescent points.

use std::alloc::{GlobalAlloc, Layout, System};
use std::sync::atomic::{AtomicUsize, Ordering};

pub static LIVE: AtomicUsize = AtomicUsize::new(0);
pub static PEAK: AtomicUsize = AtomicUsize::new(0);
pub static LARGEST: AtomicUsize = AtomicUsize::new(0);
pub static INSTALLED: AtomicUsize = AtomicUsize::new(0);

pub struct Counting;

unsafe impl GlobalAlloc for Counting {
    unsafe fn alloc(&self, layout: Layout) -> *mut u8 {
        let p = System.alloc(layout);
        if !p.is_null() {
            let n = layout.size();
            let live = LIVE.fetch_add(n, Ordering::Relaxed) + n;
            PEAK.fetch_max(live, Ordering::Relaxed);
            LARGEST.fetch_max(n, Ordering::Relaxed);
        }
        p
    }
    unsafe fn dealloc(&self, ptr: *mut u8, layout: Layout) {
        System.dealloc(ptr, layout);
        LIVE.fetch_sub(layout.size(), Ordering::Relaxed);
    }
    unsafe fn alloc_zeroed(&self, layout: Layout) -> *mut u8 {
        let p = System.alloc_zeroed(layout);
        if !p.is_null() {
            let n = layout.size();
            let live = LIVE.fetch_add(n, Ordering::Relaxed) + n;
            PEAK.fetch_max(live, Ordering::Relaxed);
            LARGEST.fetch_max(n, Ordering::Relaxed);
        }
        p
    }
    unsafe fn realloc(&self, ptr: *mut u8, layout: Layout, new_size: usize) -> *mut u8 {
        let p = System.realloc(ptr, layout, new_size);
        if !p.is_null() {
            let old = layout.size();
            if new_size >= old {
                let live = LIVE.fetch_add(new_size - old, Ordering::Relaxed) + (new_size - old);
                PEAK.fetch_max(live, Ordering::Relaxed);
            } else {
                LIVE.fetch_sub(old - new_size, Ordering::Relaxed);
            }
            LARGEST.fetch_max(new_size, Ordering::Relaxed);
        }
        p
    }
}

pub fn live() -> usize {
    LIVE.load(Ordering::Relaxed)
}
pub fn installed() -> bool {
    INSTALLED.load(Ordering::Relaxed) == 1
}
/// Resets the per-interval maxima and returns (peak, largest) seen since the last reset.
pub fn take_maxima() -> (usize, usize) {
    let p = PEAK.swap(LIVE.load(Ordering::Relaxed), Ordering::Relaxed);
    let l = LARGEST.swap(0, Ordering::Relaxed);
    (p, l)
}
