//! Self-describing unique payloads (DESIGN 2.5).
//!
//! Layout for len >= 24: magic(2) conn(1) dir(1) ch(1) flags(1) idx(8 LE) len(4 LE) tag(6) then a
//! keyed PRNG stream of (conn,dir,ch,idx,len,tag). Shorter messages are pure keyed stream bytes
//! (they are matched by content / position).

use crate::rng::{mix, Rng};

pub const HDR: usize = 24;
pub const MAGIC: [u8; 2] = [0xA7, 0x5E];

#[derive(Clone, Copy, Debug, PartialEq, Eq, Hash)]
pub struct Ident {
    pub conn: u8,
    pub dir: u8,
    pub ch: u8,
    pub flags: u8,
    pub idx: u64,
    pub len: u32,
    pub tag: u64, // 48 bits used
}

fn stream_seed(id: &Ident) -> u64 {
    mix(&[
        id.conn as u64,
        id.dir as u64,
        id.ch as u64,
        id.flags as u64,
        id.idx,
        id.len as u64,
        id.tag & 0xFFFF_FFFF_FFFF,
    ])
}

pub fn make(conn: u8, dir: u8, ch: u8, flags: u8, idx: u64, len: usize, tag: u64) -> Vec<u8> {
    let id = Ident {
        conn,
        dir,
        ch,
        flags,
        idx,
        len: len as u32,
        tag: tag & 0xFFFF_FFFF_FFFF,
    };
    let mut v = vec![0u8; len];
    let mut r = Rng::new(stream_seed(&id));
    if len >= HDR {
        v[0..2].copy_from_slice(&MAGIC);
        v[2] = conn;
        v[3] = dir;
        v[4] = ch;
        v[5] = flags;
        v[6..14].copy_from_slice(&idx.to_le_bytes());
        v[14..18].copy_from_slice(&(len as u32).to_le_bytes());
        v[18..24].copy_from_slice(&id.tag.to_le_bytes()[..6]);
        r.fill(&mut v[HDR..]);
    } else {
        r.fill(&mut v);
    }
    v
}

/// Parses the header of a payload that is long enough to carry one.
pub fn parse(b: &[u8]) -> Option<Ident> {
    if b.len() < HDR || b[0..2] != MAGIC {
        return None;
    }
    let mut tag = [0u8; 8];
    tag[..6].copy_from_slice(&b[18..24]);
    Some(Ident {
        conn: b[2],
        dir: b[3],
        ch: b[4],
        flags: b[5],
        idx: u64::from_le_bytes(b[6..14].try_into().unwrap()),
        len: u32::from_le_bytes(b[14..18].try_into().unwrap()),
        tag: u64::from_le_bytes(tag),
    })
}

/// True iff `b` is exactly the payload its own header describes.
pub fn self_consistent(b: &[u8]) -> bool {
    match parse(b) {
        None => false,
        Some(id) => id.len as usize == b.len() && make(id.conn, id.dir, id.ch, id.flags, id.idx, b.len(), id.tag) == b,
    }
}

/// Boundary-weighted message length distribution (DESIGN 2.5). `max` caps the result.
pub fn pick_len(r: &mut Rng, max: usize, allow_large: bool) -> usize {
    const S: usize = 1200;
    let v = match r.below(100) {
        0..=7 => r.urange(0, 2),
        8..=19 => r.urange(3, 70),
        20..=34 => r.urange(71, 600),
        35..=44 => r.urange(601, 1188),
        45..=59 => r.urange(1189, 1201),
        60..=64 => r.urange(2399, 2401),
        65..=79 => {
            let k = r.urange(1, 8);
            (k * S + r.urange(0, 2)).saturating_sub(1)
        }
        80..=89 => r.urange(1202, 6000),
        90..=95 => {
            let k = r.urange(9, 30);
            (k * S + r.urange(0, 2)).saturating_sub(1)
        }
        _ => {
            if allow_large {
                r.urange(40_000, 300_000)
            } else {
                r.urange(6000, 20_000)
            }
        }
    };
    v.min(max)
}

pub fn size_class(len: usize) -> &'static str {
    match len {
        0 => "len0",
        1..=23 => "len1-23",
        24..=1188 => "len24-1188",
        1189..=1199 => "len1189-1199",
        1200 => "len1200",
        1201 => "len1201",
        1202..=2398 => "len1202-2398",
        2399..=2401 => "len2399-2401",
        _ => {
            if len % 1200 == 0 {
                "len_k1200"
            } else if len % 1200 == 1 {
                "len_k1200+1"
            } else if len % 1200 == 1199 {
                "len_k1200-1"
            } else if len >= 40_000 {
                "len_large"
            } else {
                "len_multi"
            }
        }
    }
}
