//! Channel oracles shared by several properties (C01, C02, C03, C11, C13, C20).
//! They consume only boundary events (Submit / SendCall / Arrive / Recv / DrainEnd / Deadline).

use crate::outcome::{Ctx, Outcome};
use crate::payload;
use crate::rsim::{Ev, Kind, Monitor, Sim};
use renet::verif::Packet;
use serde_json::json;
use std::collections::{BTreeMap, BTreeSet, HashMap};

type Key = (usize, u8, u8);

fn kind_of(sim: &Sim, dir: u8, ch: u8) -> Option<Kind> {
    sim.cfg.chan(dir, ch).map(|c| c.kind)
}

// ------------------------------------------------------------------------------------------
// C13 (always on): every produced packet is <= 1300 bytes and serialization never fails.
// ------------------------------------------------------------------------------------------
pub struct SizeMonitor {
    pub prop: &'static str,
}

impl Monitor for SizeMonitor {
    fn name(&self) -> &'static str {
        "size"
    }
    fn on(&mut self, ev: &Ev, sim: &Sim, ctx: &Ctx, out: &mut Outcome) {
        if ctx.prop != self.prop {
            // the size monitor only *decides* C13; elsewhere it just counts
            if let Ev::SendCall { pkts, .. } = ev {
                for p in pkts.iter() {
                    out.max("packet_len", p.len() as u64);
                }
            }
            return;
        }
        match ev {
            Ev::SendCall { conn, dir, pkts, .. } => {
                for p in pkts.iter() {
                    out.max("packet_len", p.len() as u64);
                    out.count("packets_measured");
                    if p.len() > 1300 {
                        let r = sim.replay_value(&ctx.prop, &ctx.engine, "packet longer than 1300", json!({"len": p.len(), "conn": conn, "dir": dir}));
                        out.violation(ctx, "C13/renet-packet>1300", "packet <= 1300 bytes", format!("packet of {} bytes", p.len()), r);
                    }
                }
                let side_reason = sim.sender(*conn, *dir).and_then(|e| e.disconnect_reason());
                if let Some(renet::DisconnectReason::PacketSerialization(e)) = side_reason {
                    let r = sim.replay_value(&ctx.prop, &ctx.engine, "serialization failed", json!({"err": format!("{:?}", e)}));
                    out.violation(
                        ctx,
                        &format!("C13/serialization-failed/{:?}", e),
                        "serialization never fails",
                        format!("sender disconnected with PacketSerialization({:?})", e),
                        r,
                    );
                }
            }
            _ => {}
        }
    }
}

// ------------------------------------------------------------------------------------------
// C01: ReliableOrdered prefix oracle + bounded delivery.
// ------------------------------------------------------------------------------------------
#[derive(Default)]
pub struct OrderedChan {
    pub subs: Vec<Vec<u8>>,
    pub cursor: usize,
    pub bad: bool,
}

pub struct OrderedOracle {
    pub prop: &'static str,
    pub chans: BTreeMap<Key, OrderedChan>,
    pub check_liveness: bool,
    /// connections excluded from the liveness clause by the workload (e.g. hostile peers)
    pub exempt: BTreeSet<usize>,
}

impl OrderedOracle {
    pub fn new(prop: &'static str, check_liveness: bool) -> Self {
        OrderedOracle {
            prop,
            chans: BTreeMap::new(),
            check_liveness,
            exempt: BTreeSet::new(),
        }
    }

    pub fn all_delivered(&self) -> bool {
        self.chans.values().all(|c| c.cursor == c.subs.len())
    }

    pub fn backlog_bytes(&self, conn: usize, dir: u8) -> usize {
        self.chans
            .iter()
            .filter(|((c, d, _), _)| *c == conn && *d == dir)
            .map(|(_, ch)| ch.subs[ch.cursor.min(ch.subs.len())..].iter().map(|m| m.len() + 2400).sum::<usize>())
            .sum()
    }
}

impl Monitor for OrderedOracle {
    fn name(&self) -> &'static str {
        "ordered"
    }
    fn on(&mut self, ev: &Ev, sim: &Sim, ctx: &Ctx, out: &mut Outcome) {
        match ev {
            Ev::Submit {
                conn,
                dir,
                ch,
                bytes,
                accepted,
            } => {
                if kind_of(sim, *dir, *ch) == Some(Kind::ReliableOrdered) && *accepted {
                    self.chans.entry((*conn, *dir, *ch)).or_default().subs.push(bytes.to_vec());
                    out.count(payload::size_class(bytes.len()));
                }
            }
            Ev::Recv { conn, dir, ch, bytes } => {
                if kind_of(sim, *dir, *ch) != Some(Kind::ReliableOrdered) || self.exempt.contains(conn) {
                    return;
                }
                let c = self.chans.entry((*conn, *dir, *ch)).or_default();
                if c.bad {
                    return;
                }
                out.count("ordered_recv");
                let expected = c.subs.get(c.cursor);
                if expected.map(|e| e.as_slice()) != Some(*bytes) {
                    c.bad = true;
                    // classify
                    let class = if let Some(pos) = c.subs.iter().position(|s| s.as_slice() == *bytes) {
                        if pos < c.cursor {
                            "duplicate"
                        } else {
                            "gap-or-reorder"
                        }
                    } else if c.cursor >= c.subs.len() {
                        "fabricated-beyond-end"
                    } else {
                        "corrupted-or-fabricated"
                    };
                    let pos = c.cursor;
                    let r = sim.replay_value(
                        &ctx.prop,
                        &ctx.engine,
                        "received sequence is not a prefix of the submitted sequence",
                        json!({"conn": conn, "dir": dir, "ch": ch, "position": pos, "class": class, "got_len": bytes.len(),
                               "expected_len": expected.map(|e| e.len())}),
                    );
                    out.violation(
                        ctx,
                        &format!("{}/ordered-prefix/{}", self.prop, class),
                        "prefix at every moment",
                        format!("conn {} dir {} ch {}: message #{} obtained is not submission #{} ({})", conn, dir, ch, pos, pos, class),
                        r,
                    );
                } else {
                    c.cursor += 1;
                }
            }
            Ev::Deadline { .. } => {
                if !self.check_liveness {
                    return;
                }
                for ((conn, dir, ch), c) in self.chans.iter() {
                    if c.bad || self.exempt.contains(conn) {
                        continue;
                    }
                    if sim.any_disconnected(*conn) {
                        out.count("liveness_excluded_disconnected");
                        continue;
                    }
                    out.count("liveness_checked");
                    if c.cursor != c.subs.len() {
                        let r = sim.replay_value(
                            &ctx.prop,
                            &ctx.engine,
                            "bounded delivery after the network delivers again",
                            json!({"conn": conn, "dir": dir, "ch": ch, "obtained": c.cursor, "submitted": c.subs.len()}),
                        );
                        out.violation(
                            ctx,
                            &format!("{}/ordered-liveness", self.prop),
                            "every submitted message obtained within the bound",
                            format!("conn {} dir {} ch {}: {} of {} obtained at the deadline", conn, dir, ch, c.cursor, c.subs.len()),
                            r,
                        );
                    }
                }
            }
            _ => {}
        }
    }
}

// ------------------------------------------------------------------------------------------
// C02: ReliableUnordered oracle: at most once, intact, nothing fabricated, as soon as complete,
// bounded delivery.
// ------------------------------------------------------------------------------------------
#[derive(Default)]
pub struct UnorderedChan {
    pub subs: Vec<Vec<u8>>,
    pub obtained: Vec<bool>,
    pub n_obtained: usize,
    /// content -> indexes, for messages too short to carry a header
    pub short: HashMap<Vec<u8>, Vec<usize>>,
    /// wire message id -> submission index (learned from the sender's own packets by content)
    pub id_map: HashMap<u64, usize>,
    /// per submission index: set of slice indexes (or {0} for a small message) that reached the
    /// connected receiver
    pub have: HashMap<usize, BTreeSet<usize>>,
    pub due: BTreeSet<usize>,
    pub max_obtained_idx: Option<usize>,
    /// all submissions below this index have been obtained
    pub first_unobtained: usize,
    /// submission indexes that already have a wire id
    pub mapped_idx: std::collections::HashSet<usize>,
    pub bad: bool,
}

impl UnorderedChan {
    fn older_missing(&mut self, i: usize) -> bool {
        while self.first_unobtained < self.obtained.len() && self.obtained[self.first_unobtained] {
            self.first_unobtained += 1;
        }
        self.first_unobtained < i
    }
}

pub struct UnorderedOracle {
    /// false: bookkeeping and coverage counters only, never reports
    pub decide: bool,
    pub prop: &'static str,
    pub chans: BTreeMap<Key, UnorderedChan>,
    pub check_liveness: bool,
    pub check_promptness: bool,
    pub exempt: BTreeSet<usize>,
}

impl UnorderedOracle {
    pub fn new(prop: &'static str, check_liveness: bool, check_promptness: bool) -> Self {
        UnorderedOracle {
            decide: true,
            prop,
            chans: BTreeMap::new(),
            check_liveness,
            check_promptness,
            exempt: BTreeSet::new(),
        }
    }

    pub fn all_delivered(&self) -> bool {
        self.chans.values().all(|c| c.n_obtained == c.subs.len())
    }

    pub fn backlog_bytes(&self, conn: usize, dir: u8) -> usize {
        self.chans
            .iter()
            .filter(|((c, d, _), _)| *c == conn && *d == dir)
            .map(|(_, ch)| {
                ch.subs
                    .iter()
                    .zip(ch.obtained.iter())
                    .filter(|(_, o)| !**o)
                    .map(|(m, _)| m.len() + 2400)
                    .sum::<usize>()
            })
            .sum()
    }

    fn identify(c: &UnorderedChan, bytes: &[u8]) -> Option<usize> {
        if let Some(id) = payload::parse(bytes) {
            let i = id.idx as usize;
            if c.subs.get(i).map(|s| s.as_slice()) == Some(bytes) {
                return Some(i);
            }
            return None;
        }
        // short message (identity is ambiguous among equal contents): prefer a submission the
        // harness knows to be complete at the receiver, then any not yet obtained, else any equal
        let v = c.short.get(bytes)?;
        v.iter()
            .copied()
            .find(|i| !c.obtained[*i] && c.due.contains(i))
            .or_else(|| v.iter().copied().find(|i| !c.obtained[*i]))
            .or_else(|| v.first().copied())
    }

    fn learn_and_mark(c: &mut UnorderedChan, p: &Packet, ch: u8, mark: bool, out: &mut Outcome) {
        match p {
            Packet::SmallReliable { channel_id, messages, .. } if *channel_id == ch => {
                for (id, m) in messages {
                    let idx = match c.id_map.get(id) {
                        Some(i) => Some(*i),
                        None => {
                            let found = if let Some(pid) = payload::parse(m) {
                                let i = pid.idx as usize;
                                if c.subs.get(i).map(|s| s.as_slice()) == Some(&m[..]) {
                                    Some(i)
                                } else {
                                    None
                                }
                            } else {
                                // short: lowest index with this content that is not mapped yet
                                c.short.get(&m[..]).and_then(|v| v.iter().copied().find(|i| !c.mapped_idx.contains(i)))
                            };
                            if let Some(i) = found {
                                if !mark {
                                    c.id_map.insert(*id, i);
                                    c.mapped_idx.insert(i);
                                }
                            }
                            found
                        }
                    };
                    if let (true, Some(i)) = (mark, idx) {
                        if c.subs[i].as_slice() == &m[..] {
                            if c.obtained[i] {
                                out.count("dup_after_consume");
                                if c.older_missing(i) {
                                    out.count("late_dup_with_older_missing");
                                }
                            }
                            c.have.entry(i).or_default().insert(0);
                            if !c.obtained[i] {
                                c.due.insert(i);
                            }
                        }
                    }
                }
            }
            Packet::ReliableSlice { channel_id, slice, .. } if *channel_id == ch => {
                let idx = match c.id_map.get(&slice.message_id) {
                    Some(i) => Some(*i),
                    None => {
                        if slice.slice_index == 0 {
                            if let Some(pid) = payload::parse(&slice.payload) {
                                let i = pid.idx as usize;
                                let ok = c.subs.get(i).map_or(false, |s| s.len() > 1200 && s[..slice.payload.len().min(s.len())] == slice.payload[..]);
                                if ok && !mark {
                                    c.id_map.insert(slice.message_id, i);
                                }
                                if ok {
                                    Some(i)
                                } else {
                                    None
                                }
                            } else {
                                None
                            }
                        } else {
                            None
                        }
                    }
                };
                if let (true, Some(i)) = (mark, idx) {
                    let s = &c.subs[i];
                    let n = s.len().div_ceil(1200);
                    let k = slice.slice_index;
                    let ok = slice.num_slices == n && k < n && {
                        let start = k * 1200;
                        let end = ((k + 1) * 1200).min(s.len());
                        s[start..end] == slice.payload[..]
                    };
                    if ok {
                        if c.obtained[i] {
                            out.count("dup_after_consume");
                            out.count("late_slice_after_delivery");
                            if c.older_missing(i) {
                                out.count("late_slice_with_older_missing");
                            }
                        }
                        let h = c.have.entry(i).or_default();
                        h.insert(k);
                        if h.len() == n && !c.obtained[i] {
                            c.due.insert(i);
                            out.count("sliced_completed_on_wire");
                        }
                    }
                }
            }
            _ => {}
        }
    }
}

impl Monitor for UnorderedOracle {
    fn name(&self) -> &'static str {
        "unordered"
    }
    fn on(&mut self, ev: &Ev, sim: &Sim, ctx: &Ctx, out: &mut Outcome) {
        match ev {
            Ev::Submit {
                conn,
                dir,
                ch,
                bytes,
                accepted,
            } => {
                if kind_of(sim, *dir, *ch) == Some(Kind::ReliableUnordered) && *accepted {
                    let c = self.chans.entry((*conn, *dir, *ch)).or_default();
                    let i = c.subs.len();
                    c.subs.push(bytes.to_vec());
                    c.obtained.push(false);
                    if payload::parse(bytes).is_none() {
                        c.short.entry(bytes.to_vec()).or_default().push(i);
                    }
                    out.count(payload::size_class(bytes.len()));
                }
            }
            Ev::SendCall { conn, dir, decoded, .. } => {
                // learn wire id -> submission from the sender's own (uncorrupted) packets
                for p in decoded.iter().flatten() {
                    let ch = match p {
                        Packet::SmallReliable { channel_id, .. } | Packet::ReliableSlice { channel_id, .. } => *channel_id,
                        _ => continue,
                    };
                    if kind_of(sim, *dir, ch) != Some(Kind::ReliableUnordered) {
                        continue;
                    }
                    if let Some(c) = self.chans.get_mut(&(*conn, *dir, ch)) {
                        Self::learn_and_mark(c, p, ch, false, out);
                    }
                }
            }
            Ev::Arrive {
                conn,
                dir,
                decoded,
                receiver_disconnected,
                ..
            } => {
                if *receiver_disconnected {
                    return;
                }
                let Some(p) = decoded else { return };
                let ch = match p {
                    Packet::SmallReliable { channel_id, .. } | Packet::ReliableSlice { channel_id, .. } => *channel_id,
                    _ => return,
                };
                if kind_of(sim, *dir, ch) != Some(Kind::ReliableUnordered) {
                    return;
                }
                if let Some(c) = self.chans.get_mut(&(*conn, *dir, ch)) {
                    Self::learn_and_mark(c, p, ch, true, out);
                }
            }
            Ev::Recv { conn, dir, ch, bytes } => {
                if kind_of(sim, *dir, *ch) != Some(Kind::ReliableUnordered) {
                    return;
                }
                let c = self.chans.entry((*conn, *dir, *ch)).or_default();
                if c.bad {
                    return;
                }
                out.count("unordered_recv");
                match Self::identify(c, bytes) {
                    Some(i) if !c.obtained[i] => {
                        c.obtained[i] = true;
                        c.n_obtained += 1;
                        c.due.remove(&i);
                        if let Some(m) = c.max_obtained_idx {
                            if i < m {
                                out.count("obtained_out_of_submission_order");
                            }
                        }
                        c.max_obtained_idx = Some(c.max_obtained_idx.map_or(i, |m| m.max(i)));
                    }
                    other => {
                        c.bad = true;
                        if !self.decide {
                            return;
                        }
                        let class = if other.is_some() { "duplicate" } else { "fabricated-or-corrupted" };
                        let r = sim.replay_value(
                            &ctx.prop,
                            &ctx.engine,
                            "each submitted message obtained at most once, nothing else obtained",
                            json!({"conn": conn, "dir": dir, "ch": ch, "class": class, "len": bytes.len(), "index": other}),
                        );
                        out.violation(
                            ctx,
                            &format!("{}/unordered/{}", self.prop, class),
                            "at most once / nothing fabricated",
                            format!("conn {} dir {} ch {}: obtained message is {} (len {})", conn, dir, ch, class, bytes.len()),
                            r,
                        );
                    }
                }
            }
            Ev::DrainEnd { conn, dir, ch } => {
                if !self.decide || !self.check_promptness || kind_of(sim, *dir, *ch) != Some(Kind::ReliableUnordered) {
                    return;
                }
                if sim.receiver(*conn, *dir).map_or(true, |e| e.is_disconnected()) {
                    return;
                }
                let Some(c) = self.chans.get_mut(&(*conn, *dir, *ch)) else { return };
                if c.bad {
                    return;
                }
                out.count("promptness_checked");
                if let Some(&i) = c.due.iter().next() {
                    c.bad = true;
                    let r = sim.replay_value(
                        &ctx.prop,
                        &ctx.engine,
                        "handed over as soon as complete",
                        json!({"conn": conn, "dir": dir, "ch": ch, "index": i, "len": c.subs[i].len()}),
                    );
                    out.violation(
                        ctx,
                        &format!("{}/unordered/not-prompt", self.prop),
                        "a complete message is returned by the next drain",
                        format!("conn {} dir {} ch {}: submission #{} was completely delivered to the receiver but a full drain did not return it", conn, dir, ch, i),
                        r,
                    );
                }
            }
            Ev::Deadline { .. } => {
                if !self.check_liveness || !self.decide {
                    return;
                }
                for ((conn, dir, ch), c) in self.chans.iter() {
                    if c.bad || self.exempt.contains(conn) {
                        continue;
                    }
                    if sim.any_disconnected(*conn) {
                        out.count("liveness_excluded_disconnected");
                        continue;
                    }
                    out.count("liveness_checked");
                    if c.n_obtained != c.subs.len() {
                        let r = sim.replay_value(
                            &ctx.prop,
                            &ctx.engine,
                            "bounded delivery after the network delivers again",
                            json!({"conn": conn, "dir": dir, "ch": ch, "obtained": c.n_obtained, "submitted": c.subs.len()}),
                        );
                        out.violation(
                            ctx,
                            &format!("{}/unordered-liveness", self.prop),
                            "every submitted message obtained within the bound",
                            format!("conn {} dir {} ch {}: {} of {} obtained at the deadline", conn, dir, ch, c.n_obtained, c.subs.len()),
                            r,
                        );
                    }
                }
            }
            _ => {}
        }
    }
}

// ------------------------------------------------------------------------------------------
// C03: integrity on every channel kind + unreliable delivery-count bound.
// ------------------------------------------------------------------------------------------
#[derive(Default)]
pub struct IntegrityChan {
    pub subs: Vec<Vec<u8>>,
    pub short: HashMap<Vec<u8>, Vec<usize>>,
    // unreliable bookkeeping
    /// submission index -> packets (uids) that carry it (all must arrive for the message to exist)
    pub carriers: HashMap<usize, Vec<u64>>,
    /// uid -> number of copies that reached a connected receiver
    pub arrived: HashMap<u64, u32>,
    /// sliced wire id -> submission index
    pub slice_id_map: HashMap<u64, usize>,
    pub recv_count: HashMap<usize, u32>,
    /// small unreliable messages not yet seen on the wire (FIFO by submission order)
    pub next_small_scan: usize,
    pub dropped_by_sender: BTreeSet<usize>,
    pub seen_on_wire: BTreeSet<usize>,
}

pub struct IntegrityOracle {
    pub prop: &'static str,
    pub chans: BTreeMap<Key, IntegrityChan>,
    /// assert that on clean links every fully delivered unreliable message is obtained
    pub weak_completeness: bool,
}

impl IntegrityOracle {
    pub fn new(prop: &'static str) -> Self {
        IntegrityOracle {
            prop,
            chans: BTreeMap::new(),
            weak_completeness: false,
        }
    }
}

impl Monitor for IntegrityOracle {
    fn name(&self) -> &'static str {
        "integrity"
    }
    fn on(&mut self, ev: &Ev, sim: &Sim, ctx: &Ctx, out: &mut Outcome) {
        match ev {
            Ev::Submit {
                conn,
                dir,
                ch,
                bytes,
                accepted,
            } => {
                if !*accepted {
                    return;
                }
                let c = self.chans.entry((*conn, *dir, *ch)).or_default();
                let i = c.subs.len();
                c.subs.push(bytes.to_vec());
                if payload::parse(bytes).is_none() {
                    c.short.entry(bytes.to_vec()).or_default().push(i);
                }
                if ctx.prop == self.prop {
                    out.count(payload::size_class(bytes.len()));
                }
            }
            Ev::SendCall {
                conn, dir, decoded, uids, ..
            } => {
                // attribute unreliable messages to the packets that carry them
                for (p, uid) in decoded.iter().zip(uids.iter()) {
                    let Some(p) = p else { continue };
                    match p {
                        Packet::SmallUnreliable { channel_id, messages, .. } => {
                            if kind_of(sim, *dir, *channel_id) != Some(Kind::Unreliable) {
                                continue;
                            }
                            let Some(c) = self.chans.get_mut(&(*conn, *dir, *channel_id)) else { continue };
                            for m in messages {
                                let idx = if let Some(pid) = payload::parse(m) {
                                    let i = pid.idx as usize;
                                    if c.subs.get(i).map(|s| s.as_slice()) == Some(&m[..]) {
                                        Some(i)
                                    } else {
                                        None
                                    }
                                } else {
                                    c.short
                                        .get(&m[..])
                                        .and_then(|v| v.iter().copied().find(|i| !c.seen_on_wire.contains(i)))
                                };
                                if let Some(i) = idx {
                                    c.seen_on_wire.insert(i);
                                    c.carriers.entry(i).or_default().push(*uid);
                                }
                            }
                        }
                        Packet::UnreliableSlice { channel_id, slice, .. } => {
                            if kind_of(sim, *dir, *channel_id) != Some(Kind::Unreliable) {
                                continue;
                            }
                            let Some(c) = self.chans.get_mut(&(*conn, *dir, *channel_id)) else { continue };
                            let idx = match c.slice_id_map.get(&slice.message_id) {
                                Some(i) => Some(*i),
                                None => {
                                    if slice.slice_index == 0 {
                                        payload::parse(&slice.payload).map(|pid| pid.idx as usize).filter(|i| {
                                            c.subs.get(*i).map_or(false, |s| s.len() > 1200 && s[..1200] == slice.payload[..])
                                        })
                                    } else {
                                        None
                                    }
                                }
                            };
                            if let Some(i) = idx {
                                c.slice_id_map.insert(slice.message_id, i);
                                c.seen_on_wire.insert(i);
                                c.carriers.entry(i).or_default().push(*uid);
                            }
                        }
                        _ => {}
                    }
                }
            }
            Ev::Arrive {
                conn,
                dir,
                uid,
                decoded,
                receiver_disconnected,
                ..
            } => {
                if *receiver_disconnected {
                    return;
                }
                let Some(p) = decoded else { return };
                let ch = match p {
                    Packet::SmallUnreliable { channel_id, .. } | Packet::UnreliableSlice { channel_id, .. } => *channel_id,
                    _ => return,
                };
                if let Some(c) = self.chans.get_mut(&(*conn, *dir, ch)) {
                    *c.arrived.entry(*uid).or_insert(0) += 1;
                }
            }
            Ev::Recv { conn, dir, ch, bytes } => {
                let kind = kind_of(sim, *dir, *ch);
                let c = self.chans.entry((*conn, *dir, *ch)).or_default();
                if ctx.prop == self.prop {
                    out.count("integrity_recv");
                }
                // identify
                let idx: Option<usize> = if let Some(pid) = payload::parse(bytes) {
                    let i = pid.idx as usize;
                    if pid.conn as usize != (*conn & 0xFF) && pid.conn != 0xFF {
                        None
                    } else if pid.dir != *dir || pid.ch != *ch {
                        None
                    } else if c.subs.get(i).map(|s| s.as_slice()) == Some(*bytes) {
                        Some(i)
                    } else {
                        None
                    }
                } else {
                    c.short.get(*bytes).and_then(|v| {
                        // prefer one that may still legitimately be delivered
                        v.iter()
                            .copied()
                            .find(|i| {
                                let cnt = c.recv_count.get(i).copied().unwrap_or(0);
                                match kind {
                                    Some(Kind::Unreliable) => {
                                        let bound = c
                                            .carriers
                                            .get(i)
                                            .map_or(0, |us| us.iter().map(|u| c.arrived.get(u).copied().unwrap_or(0)).min().unwrap_or(0));
                                        cnt < bound
                                    }
                                    _ => cnt == 0,
                                }
                            })
                            .or_else(|| v.first().copied())
                    })
                };
                let Some(i) = idx else {
                    // classify for the report
                    let class = match payload::parse(bytes) {
                        Some(pid) if pid.dir != *dir || pid.ch != *ch || (pid.conn as usize != (*conn & 0xFF) && pid.conn != 0xFF) => "cross-delivered",
                        Some(_) if !payload::self_consistent(bytes) => "corrupted-or-stitched",
                        Some(_) => "not-submitted-here",
                        None => "fabricated-short",
                    };
                    let r = sim.replay_value(
                        &ctx.prop,
                        &ctx.engine,
                        "obtained message is byte-identical to a submission on the same channel and connection",
                        json!({"conn": conn, "dir": dir, "ch": ch, "class": class, "len": bytes.len(), "head": crate::rng::hex(&bytes[..bytes.len().min(32)])}),
                    );
                    out.violation(
                        ctx,
                        &format!("{}/integrity/{}", self.prop, class),
                        "byte-identical to a submission on channel c of that connection",
                        format!("conn {} dir {} ch {}: obtained {}-byte message is {}", conn, dir, ch, bytes.len(), class),
                        r,
                    );
                    return;
                };
                let cnt = c.recv_count.entry(i).or_insert(0);
                *cnt += 1;
                if kind == Some(Kind::Unreliable) {
                    let bound = c
                        .carriers
                        .get(&i)
                        .map_or(0, |us| us.iter().map(|u| c.arrived.get(u).copied().unwrap_or(0)).min().unwrap_or(0));
                    if ctx.prop == self.prop {
                        out.count("unreliable_recv");
                        if *cnt >= 2 {
                            out.count("unreliable_delivered_twice_legitimately");
                        }
                    }
                    if *cnt > bound {
                        let n = *cnt;
                        let r = sim.replay_value(
                            &ctx.prop,
                            &ctx.engine,
                            "unreliable message obtained at most as often as each carrying packet was delivered",
                            json!({"conn": conn, "dir": dir, "ch": ch, "index": i, "obtained": n, "bound": bound, "len": bytes.len()}),
                        );
                        out.violation(
                            ctx,
                            &format!("{}/unreliable/over-delivered", self.prop),
                            "obtained at most min(copies delivered of each carrying packet) times",
                            format!("conn {} dir {} ch {}: submission #{} obtained {} times, bound {}", conn, dir, ch, i, n, bound),
                            r,
                        );
                    }
                }
            }
            _ => {}
        }
    }

    fn finish(&mut self, _sim: &Sim, ctx: &Ctx, out: &mut Outcome) {
        if ctx.prop != self.prop {
            return;
        }
        // observation counters for the unreliable clauses
        for ((_, dir, ch), c) in self.chans.iter() {
            let _ = (dir, ch);
            for (i, us) in c.carriers.iter() {
                if us.len() >= 2 {
                    let arr: Vec<u32> = us.iter().map(|u| c.arrived.get(u).copied().unwrap_or(0)).collect();
                    let mn = arr.iter().copied().min().unwrap_or(0);
                    let mx = arr.iter().copied().max().unwrap_or(0);
                    if mn == 0 && mx > 0 {
                        out.count("unreliable_sliced_lost_because_a_slice_was_lost");
                        if c.recv_count.get(i).copied().unwrap_or(0) == 0 {
                            out.count("unreliable_sliced_partial_never_obtained");
                        }
                    }
                    if mn >= 2 {
                        out.count("unreliable_sliced_all_packets_duplicated");
                    }
                }
            }
        }
    }
}
