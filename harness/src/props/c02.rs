//! C02 ReliableUnordered: at most once, intact, nothing fabricated, handed over as soon as
//! complete, bounded delivery.

use crate::link::ALL_RANDOM_PROFILES;
use crate::oracles::{SizeMonitor, UnorderedOracle};
use crate::outcome::{Ctx, Outcome, PropInfo};
use crate::rng::Rng;
use crate::rsim::{CfgGen, DrainMode, Kind, Monitor};
use crate::traffic::{self, CoverageMonitor, Plan};

pub static INFO: PropInfo = PropInfo {
    id: "C02",
    level: "exploration",
    rule: "one evaluation = one simulated session as in C01 with traffic on ReliableUnordered channels and application drains placed after every arrival / every tick / every n ticks / at random. Oracle: every obtained message must identify (payload header or content) one not-yet-obtained submission of that channel; the harness decodes every datagram delivered to a connected receiver with the crate's decoder, and a message all of whose packets arrived must be returned by the next full drain; full delivery at the deadline. Non-trivial = faults occurred AND a retransmission happened AND everything was obtained; distinct = distinct event-log fingerprints. A session that the library itself ends (any DisconnectReason) although every submission stayed within the channel budgets strands its outstanding messages and is reported as C02/unordered-liveness/session-ended/<reason> (C02 promises delivery without a proviso; on the unchanged tree no such run occurs).",
    assumptions: &[
        "bounded liveness only (same deadline formula as C01)",
        "wire message ids are mapped to submissions by content (learned from the sender's own packets), never assumed",
        "submissions respect can_send_message and the receive budget window",
    ],
    gates: &[
        ("unordered_recv", 200),
        ("retransmissions", 20),
        ("dup_after_consume", 5),
        ("late_slice_after_delivery", 1),
        ("obtained_out_of_submission_order", 5),
        ("promptness_checked", 100),
        ("liveness_checked", 20),
        ("runs_full_delivery_under_faults", 10),
    ],
    engines_quick: &["e1"],
    engines_thorough: &["e1"],
    run,
};

pub fn run(ctx: &Ctx, out: &mut Outcome) {
    super::run_loop(ctx, out, 4000, 400_000, 2, one_run);
}

pub fn one_run(ctx: &Ctx, out: &mut Outcome, run_seed: u64) {
    let mut r = Rng::new(run_seed);
    let gen = CfgGen {
        max_clients: 2,
        small_budgets: r.chance(1, 2),
        min_bytes_per_tick: 2500,
        profiles: ALL_RANDOM_PROFILES.to_vec(),
    };
    let mut cfg = gen.gen(&mut r);
    if r.chance(1, 2) {
        cfg.drain = DrainMode::AfterEveryArrival;
    }
    let flood = r.chance(1, 10);
    if flood {
        crate::props::c01::flood_cfg(&mut cfg, &mut r);
        out.count("flood_runs");
    }
    let kinds = match r.below(3) {
        0 => vec![Kind::ReliableUnordered],
        1 => vec![Kind::ReliableOrdered, Kind::ReliableUnordered],
        _ => vec![Kind::ReliableOrdered, Kind::ReliableUnordered, Kind::Unreliable],
    };
    let plan = Plan {
        fault_ticks: if flood { r.range(15, 50) } else { r.range(5, if ctx.thorough() { 200 } else { 80 }) },
        rate_x100: *r.pick(&[30u64, 100, 250, 600]),
        max_msgs: if flood { r.range(2500, 12_000) } else { r.range(20, 400) },
        kinds,
        allow_large: r.chance(1, 6),
        tail_ticks: r.range(0, 60),
        liveness: true,
        flood,
        max_len: 400_000,
        overload: false,
    };
    let mut mons: Vec<Box<dyn Monitor>> = vec![
        Box::new(UnorderedOracle::new("C02", true, true)),
        Box::new(CoverageMonitor::new()),
        Box::new(SizeMonitor { prop: "C13" }),
    ];
    let profile_names: Vec<String> = cfg.link_up.iter().chain(cfg.link_down.iter()).map(|l| format!("profile.{:?}", l.profile)).collect();
    let (s, sim) = traffic::run(ctx, out, cfg, &plan, run_seed, &mut mons);
    for p in profile_names {
        out.count(&p);
    }
    // C02 promises delivery without a proviso: an honest session whose submissions stay within the channel budgets
    // (the driver's window) has no reason to end, so a disconnect decided by the library strands its messages
    if s.any_disconnected {
        for conn in 0..sim.cfg.n_clients {
            for side in [crate::rsim::Side::Client, crate::rsim::Side::Server] {
                if let Some(reason) = sim.reason(conn, side) {
                    let class = format!("{:?}", reason).split(|c: char| !c.is_alphanumeric()).next().unwrap_or("?").to_string();
                    let rv = sim.replay_value(&ctx.prop, &ctx.engine, "every submitted message is obtained within a bounded number of ticks", serde_json::json!({"conn": conn, "side": format!("{:?}", side), "reason": format!("{:?}", reason)}));
                    out.violation(
                        ctx,
                        &format!("C02/unordered-liveness/session-ended/{class}"),
                        "once the network delivers again every submitted message is obtained within a bounded number of ticks",
                        format!("conn {} {:?} disconnected itself with {:?} although every submission was within the channel budgets; the messages still outstanding are never obtained", conn, side, reason),
                        rv,
                    );
                }
            }
        }
    }
    let faults = s.dropped + s.duplicated + s.reordered > 0;
    let nontrivial = faults && s.retransmissions > 0 && s.all_obtained && !s.any_disconnected;
    if nontrivial {
        out.count("runs_full_delivery_under_faults");
    }
    out.eval(s.fingerprint, nontrivial);
    if out.samples.len() < out.max_samples && nontrivial {
        out.sample(traffic::sample_value(&sim, &s));
    }
}
