//! C04 Netcode payloads: only authentic ones surface, each at most once; a genuine, first-time,
//! in-window packet on a connected session does surface (DESIGN section 4 / appendix B).
//!
//! Signature classes:
//!   C04/surfaced/not-genuine        payload surfaced for a datagram that is not byte-identical to a
//!                                   genuine datagram of that session and direction
//!   C04/surfaced/replay             a genuine datagram surfaced a second time
//!   C04/surfaced/wrong-bytes        surfaced payload differs from the plaintext the peer submitted
//!   C04/surfaced/not-a-payload      a genuine keep-alive / disconnect datagram surfaced as payload
//!   C04/surfaced/wrong-client-id    server attributed the payload to another client id
//!   C04/not-surfaced/in-window      genuine, first presentation, connected, seq + 256 > highest
//!                                   accepted, yet nothing surfaced
//!   C04/not-surfaced/in-window/seq-near-u64-max   same, with seq or highest >= 2^64-256
//!   C04/panic/<class>               the call panicked (belongs to C07; kept apart from the above)

use super::netproto_util::{report_panic, rkey, sealed, short_hex, Hist};
use crate::nsim::{addr4, handshake, mint, prefix_type, wire_sequence, Cli, OPacket, SResult, Srv};
use crate::outcome::{Ctx, Outcome, PropInfo};
use crate::rng::{Fnv, Rng};
use crate::watchdog::guarded;
use serde_json::json;
use std::collections::{HashMap, HashSet};
use std::net::SocketAddr;
use std::time::Duration;

pub static INFO: PropInfo = PropInfo {
    id: "C04",
    level: "fault_enumeration",
    rule: "Two parts. (1) ENUMERATED COMPLETELY (exhaustive=true refers to this sub-space only): every history of 4 presentations over the sequence offsets {0,1,255,256,257,511,512} relative to a base (7^4 = 2401 ordered histories, a repeated offset is a replay of the identical datagram), for both directions (server receiving / client receiving) and two bases (1000 and 2^32-300), each on a freshly connected session with datagrams sealed by the crate's own encoder under the session key; one evaluation = one history. (2) SAMPLED: one evaluation = one live two-session run with 60..500 (thorough: ..3000) genuine payload / keep-alive datagrams per run in both directions (produced by generate_payload_packet / update, or sealed at chosen sequence numbers up to 2^64-1), presented in a seeded permutation with bounded or unbounded displacement, interleaved with replays at distances {1,2,255,256,257,512,random}, single-bit flips, truncations, extensions, rewritten sequence bytes (also of datagrams not yet presented), datagrams of session A on session B's address / client, an unknown address, the reverse direction, the same plaintext sealed under the other session's key or another protocol id, and a final genuine disconnect followed by more replays. The oracle is the ledger + 256-entry reference window of DESIGN appendix B, stepped on every genuine replay-protected datagram (keep-alive, payload, disconnect share one window). Non-trivial = the execution contained at least one rejected replay or one fresh datagram behind the highest accepted sequence (sampled runs: both, plus at least one hostile presentation); distinct = distinct fingerprints of (direction, sequence, kind of presentation, surfaced?) histories. Genuine datagrams are tracked by identity (ledger id), not by sequence number: two different datagrams from the library's own generators that announce one sequence number are both genuine and each must surface on its first arrival. In the FAIL-OVER runs every payload of the first server is presented to the still-responding client twice: the second copy of one datagram never surfaces, whatever the first did. One run in 25 is a FAIL-OVER run: a token lists two servers sharing the private key; the first accepts the client, its keep-alive is lost, 1-300 payloads it streams reach the still-responding client, then it falls silent; the client moves to the second server, and every payload that server generates (delivered once, in order, unmodified, while the client reports connected) must surface byte-identical. Peer addresses include IPv6 link-local sources with a scope id or a flow label and IPv4-mapped sources (a session is found again by exactly the address its datagrams come from). A quarter of the sessions of the sampled runs are established right after an abandoned attempt from the same address (another token presented, its client gave up with one to three sealed Disconnect datagrams): the session that follows has its own replay window. Among the hostile presentations is a stale ConnectionDenied of the session's own token (sealed under the server-to-client key with a server-global sequence from 2^63 up, not replay-protected) handed to the connected client: nothing surfaces and the replay window stays where it is. After a genuine disconnect, in half of the runs late duplicates of the client's own connection response(s) are presented (no new request, so no half-open session exists for them) before the replays of the finished session's datagrams: none of those may surface again.",
    assumptions: &[
        "AEAD unforgeability is assumed (no attempt to forge a tag)",
        "datagrams sealed with the crate's encoder under the session key at a chosen sequence number count as generated by the session peer (the only way to reach sequence numbers >= 2^32)",
        "sequence 2^64-1 is an ordinary sequence number for the oracle (the replay window stores Option<u64> slots since fix 30fd18b); generate_payload_packet itself cannot reach it, such datagrams are sealed with the crate's encoder",
        "a fresh datagram 256 or more behind the highest accepted sequence may be refused or surfaced (the statement demands neither)",
    ],
    gates: &[
        ("boundary.fresh_h_minus_255", 50),
        ("boundary.fresh_h_minus_256", 50),
        ("boundary.replay_of_h", 50),
        ("boundary.fresh_h_plus_256", 50),
        ("boundary.replay_after_slot_overwritten", 50),
        ("replays_rejected", 500),
        ("late_in_window_accepted", 500),
        ("hostile.bitflip", 50),
        ("hostile.cross_session", 20),
        ("hostile.foreign_key", 20),
        ("hostile.foreign_protocol", 20),
        ("seq_ge_2pow32_surfaced", 20),
        ("near_u64_max_presented", 1),
        ("enum_histories", 9604),
        ("failover.payloads_of_second_server_judged", 200),
    ],
    engines_quick: &["e1", "e2"],
    engines_thorough: &["e1", "e2"],
    run,
};

const OFFS: [u64; 7] = [0, 1, 255, 256, 257, 511, 512];
const ENUM_BASES: [u64; 2] = [1000, (1u64 << 32) - 300];
const HIST_LEN: u32 = 4;
const K_KEEP: u8 = 4;
const K_PAY: u8 = 5;
const K_DISC: u8 = 6;

#[derive(Clone, Copy, PartialEq, Eq, Debug)]
enum Dir {
    Up,
    Down,
}

struct Entry {
    seq: u64,
    kind: u8,
    plain: Vec<u8>,
    presented: bool,
    surfaced: bool,
    /// produced by the library's own generators (update / generate_payload_packet / disconnect), not sealed by the harness
    lib: bool,
}

#[derive(Default)]
struct Ledger {
    /// entries by ledger id (one per distinct genuine datagram; two datagrams may announce one sequence number)
    e: HashMap<u64, Entry>,
    by_bytes: HashMap<Vec<u8>, u64>,
    by_seq: HashMap<u64, u64>,
    next_id: u64,
    /// reference window: highest accepted sequence and the accepted set
    h: Option<u64>,
    acc: HashSet<u64>,
}

impl Ledger {
    /// Registers a genuine datagram; returns its ledger id. A datagram sealed by the harness whose sequence number is
    /// already taken is not registered (None), nor is a byte-identical repetition. Two DIFFERENT datagrams from the
    /// library's own generators that announce one sequence number are both genuine and both registered: each must
    /// surface the first time it arrives.
    fn add(&mut self, bytes: &[u8], kind: u8, plain: Vec<u8>, lib: bool) -> Option<u64> {
        let seq = wire_sequence(bytes)?;
        if self.by_bytes.contains_key(bytes) {
            return None;
        }
        if let Some(first) = self.by_seq.get(&seq) {
            if !(lib && self.e[first].lib) {
                return None;
            }
        }
        let id = self.next_id;
        self.next_id += 1;
        self.e.insert(
            id,
            Entry {
                seq,
                kind,
                plain,
                presented: false,
                surfaced: false,
                lib,
            },
        );
        self.by_bytes.insert(bytes.to_vec(), id);
        self.by_seq.entry(seq).or_insert(id);
        Some(id)
    }
    fn seq_of(&self, id: u64) -> u64 {
        self.e[&id].seq
    }
    fn accept(&mut self, seq: u64) {
        self.acc.insert(seq);
        self.h = Some(self.h.map_or(seq, |h| h.max(seq)));
    }
}

struct Sess {
    cli: Cli,
    id: u64,
    addr: SocketAddr,
    c2s: [u8; 32],
    s2c: [u8; 32],
    up: Ledger,
    down: Ledger,
    /// the connection responses this client sent during its handshake (replayed after the session has ended)
    responses: Vec<Vec<u8>>,
}

struct World {
    srv: Srv,
    sess: Vec<Sess>,
    protocol: u64,
    hist: Hist,
    fp: Fnv,
    run_seed: u64,
    mode: &'static str,
    replays_rejected: u64,
    late_accepted: u64,
    hostile: u64,
    /// sessions established right after an abandoned attempt (other token, sealed Disconnect) from the same address
    abandoned_preludes: u64,
}

fn unknown_addr() -> SocketAddr {
    addr4(99, 99, 999)
}

fn build(r: &mut Rng, nsess: usize, timeout: i32, run_seed: u64, mode: &'static str) -> Result<World, String> {
    let protocol = r.next_u64();
    let key = rkey(r);
    let saddr = addr4(0, 0, 5000);
    let now = Duration::from_millis(1_000_000 + r.below(1000));
    let mut srv = Srv::new(now, nsess + 1, protocol, vec![saddr], key, true);
    let mut sess = Vec::new();
    let mut abandoned = 0u64;
    for i in 0..nsess {
        let id = 100 + i as u64 * 7 + r.below(5);
        // one session in three uses a token from the library's own generator (its keys, its nonce)
        let lib = if r.chance(1, 3) { crate::nsim::mint_lib(srv.now.as_secs(), protocol, 600, id, timeout, &[saddr], None, &key) } else { None };
        let m = match lib {
            Some(m) => m,
            None => mint(r, srv.now.as_secs(), protocol, 600, id, timeout, &[saddr], None, &key),
        };
        // the peer address is whatever the socket reported: also an IPv6 link-local source with a scope id or a flow
        // label, or an IPv4-mapped one - sessions are found again by exactly that address
        let addr = match r.below(8) {
            0 => {
                let ip = std::net::Ipv6Addr::new(0xfe80, 0, 0, 0, 0, 0, 7, 1 + i as u16);
                let flow = if r.chance(1, 3) { r.range(1, 1 << 20) as u32 } else { 0 };
                let scope = if flow == 0 || r.chance(1, 2) { r.range(1, 9) as u32 } else { 0 };
                SocketAddr::V6(std::net::SocketAddrV6::new(ip, 4000 + i as u16, flow, scope))
            }
            1 => SocketAddr::new(std::net::IpAddr::V6(std::net::Ipv4Addr::new(10, 1, i as u8, 1).to_ipv6_mapped()), 4000 + i as u16),
            _ => addr4(1, i as u8, 4000 + i as u16),
        };
        let (c2s, s2c) = (m.private.client_to_server_key, m.private.server_to_client_key);
        // in a quarter of the "run" sessions another attempt was abandoned at this address just before: another token
        // was presented (half-open session) and its client gave up with a sealed Disconnect. The session that
        // follows has its own keys and its own replay window
        if mode == "run" && r.chance(1, 4) {
            let m0 = mint(r, srv.now.as_secs(), protocol, 600, 900 + i as u64, timeout, &[saddr], None, &key);
            let req = super::netproto_util::request_bytes(&m0.token);
            if srv.process(addr, &req).outgoing().is_some() {
                let k = r.range(1, 3);
                for _ in 0..k {
                    let seq = if r.chance(1, 4) { 256 + r.below(300) } else { r.below(8) };
                    let d = sealed(&OPacket::Disconnect, protocol, seq, &m0.private.client_to_server_key);
                    let _ = srv.process(addr, &d);
                }
                abandoned += 1;
            }
        }
        let mut cli = Cli::new(srv.now, m, addr)?;
        let wire = handshake(&mut srv, &mut cli, Duration::from_millis(20), 50)?;
        let mut s = Sess {
            cli,
            id,
            addr,
            c2s,
            s2c,
            up: Ledger::default(),
            down: Ledger::default(),
            responses: wire.iter().filter(|(from_client, b)| *from_client && prefix_type(b[0]) == 3).map(|(_, b)| b.clone()).collect(),
        };
        // datagrams exchanged during the handshake that went through the replay windows
        for (from_client, b) in wire.iter() {
            let ty = prefix_type(b[0]);
            if (K_KEEP..=K_DISC).contains(&ty) {
                let led = if *from_client { &mut s.up } else { &mut s.down };
                if let Some(id) = led.add(b, ty, Vec::new(), true) {
                    led.e.get_mut(&id).unwrap().presented = true;
                    let seq = led.seq_of(id);
                    led.accept(seq);
                }
            }
        }
        sess.push(s);
    }
    Ok(World {
        srv,
        sess,
        protocol,
        hist: Hist::default(),
        fp: Fnv::new(),
        run_seed,
        mode,
        replays_rejected: 0,
        late_accepted: 0,
        hostile: 0,
        abandoned_preludes: abandoned,
    })
}

fn near_max(v: u64) -> bool {
    v >= u64::MAX - 255
}

/// Presents one datagram and applies the oracle. Returns false when the run must stop.
fn present(w: &mut World, ctx: &Ctx, out: &mut Outcome, dir: Dir, target: Option<usize>, bytes: &[u8], tag: &'static str) -> bool {
    let from = target.map(|t| w.sess[t].addr).unwrap_or_else(unknown_addr);
    let mut connected = false;
    let mut g: Option<u64> = None;
    let (mut first, mut in_window, mut kind, mut href) = (false, false, 0u8, None);
    if let Some(t) = target {
        let s = &w.sess[t];
        connected = w.srv.s.is_client_connected(s.id) && s.cli.c.is_connected();
        let led = if dir == Dir::Up { &s.up } else { &s.down };
        g = led.by_bytes.get(bytes).copied();
        if let Some(id) = g {
            let e = &led.e[&id];
            let seq = e.seq;
            if e.lib && led.by_seq.get(&seq) != Some(&id) {
                out.count("presented_second_library_datagram_of_one_sequence");
            }
            first = !e.presented;
            kind = e.kind;
            href = led.h;
            in_window = led.h.is_none_or(|h| seq as u128 + 256 > h as u128);
            if connected {
                if let Some(h) = led.h {
                    if first {
                        if seq <= h {
                            match h - seq {
                                255 => out.count("boundary.fresh_h_minus_255"),
                                256 => out.count("boundary.fresh_h_minus_256"),
                                257 => out.count("boundary.fresh_h_minus_257"),
                                d if d > 0 && d % 256 == 0 => out.count("boundary.fresh_multiple_of_256_behind"),
                                _ => {}
                            }
                        } else {
                            match seq - h {
                                255 => out.count("boundary.fresh_h_plus_255"),
                                256 => out.count("boundary.fresh_h_plus_256"),
                                257 => out.count("boundary.fresh_h_plus_257"),
                                d if d % 256 == 0 => out.count("boundary.fresh_multiple_of_256_ahead"),
                                _ => {}
                            }
                        }
                    } else if seq == h {
                        out.count("boundary.replay_of_h");
                    } else if seq < h {
                        match h - seq {
                            255 => out.count("boundary.replay_at_h_minus_255"),
                            d if d >= 256 => out.count("boundary.replay_after_slot_overwritten"),
                            _ => {}
                        }
                    }
                }
                if near_max(seq) {
                    out.count("near_u64_max_presented");
                }
            }
        }
    }

    let mut surfaced: Option<(Option<u64>, Vec<u8>)> = None;
    let mut disconnected = false;
    match dir {
        Dir::Up => match guarded("NetcodeServer::process_packet", bytes, || w.srv.process(from, bytes)) {
            Err(c) => {
                report_panic(ctx, out, "C04", "NetcodeServer::process_packet", bytes, &c, w.run_seed, w.mode, &w.hist);
                return false;
            }
            Ok(SResult::Payload { client_id, bytes: p }) => surfaced = Some((Some(client_id), p)),
            Ok(SResult::Disconnected { .. }) => disconnected = true,
            Ok(_) => {}
        },
        Dir::Down => {
            let Some(t) = target else { return true };
            match guarded("NetcodeClient::process_packet", bytes, || w.sess[t].cli.process(bytes)) {
                Err(c) => {
                    report_panic(ctx, out, "C04", "NetcodeClient::process_packet", bytes, &c, w.run_seed, w.mode, &w.hist);
                    return false;
                }
                Ok(Some(p)) => surfaced = Some((None, p)),
                Ok(None) => {}
            }
        }
    }
    out.count("presentations");
    w.fp.u64(dir as u64 + 2 * target.map_or(9, |t| t as u64));
    let gseq: Option<u64> = match (target, g) {
        (Some(t), Some(id)) => Some(if dir == Dir::Up { w.sess[t].up.seq_of(id) } else { w.sess[t].down.seq_of(id) }),
        _ => None,
    };
    w.fp.u64(gseq.unwrap_or(u64::MAX ^ 0x55));
    w.fp.bytes(tag.as_bytes());
    w.fp.u64(surfaced.is_some() as u64);
    w.hist.push(format!(
        "{:?} {} target={:?} genuine_seq={:?} first={} connected={} h={:?} len={} -> {}",
        dir,
        tag,
        target,
        gseq,
        first,
        connected,
        href,
        bytes.len(),
        if surfaced.is_some() {
            "SURFACED"
        } else if disconnected {
            "disconnected"
        } else {
            "-"
        }
    ));

    let mut bad: Option<(String, &'static str, String)> = None;
    if let Some((cid, p)) = &surfaced {
        out.count("surfaced");
        match (target, g) {
            (Some(t), Some(id)) => {
                let s = &w.sess[t];
                let e = if dir == Dir::Up { &s.up.e[&id] } else { &s.down.e[&id] };
                let seq = e.seq;
                if e.surfaced {
                    bad = Some((
                        "C04/surfaced/replay".into(),
                        "each generated packet surfaces at most once",
                        format!("genuine datagram seq {} of session {} ({:?}) surfaced a second time (presentation: {})", seq, t, dir, tag),
                    ));
                } else if e.kind != K_PAY {
                    bad = Some((
                        "C04/surfaced/not-a-payload".into(),
                        "a payload surfaces only if the peer passed it to generate_payload_packet",
                        format!("genuine datagram seq {} of packet type {} surfaced as a payload", seq, e.kind),
                    ));
                } else if *p != e.plain {
                    bad = Some((
                        "C04/surfaced/wrong-bytes".into(),
                        "the surfaced payload is byte-identical to the one generated",
                        format!("seq {}: surfaced {} but generated {}", seq, short_hex(p), short_hex(&e.plain)),
                    ));
                } else if let Some(c) = cid {
                    if *c != s.id {
                        bad = Some((
                            "C04/surfaced/wrong-client-id".into(),
                            "the server attributes a payload to the session peer's client id",
                            format!("payload of session id {} attributed to client id {}", s.id, c),
                        ));
                    }
                }
            }
            _ => {
                bad = Some((
                    "C04/surfaced/not-genuine".into(),
                    "a payload surfaces only for a datagram byte-identical to a genuine one of that session and direction",
                    format!("presentation '{}' ({:?}, target {:?}) surfaced payload {}", tag, dir, target, short_hex(p)),
                ));
            }
        }
    }
    // completeness + lock-step reference window
    if let (Some(t), Some(id)) = (target, g) {
        let led = if dir == Dir::Up { &mut w.sess[t].up } else { &mut w.sess[t].down };
        let seq = led.seq_of(id);
        let demanded = first && connected && in_window;
        if demanded && kind == K_PAY && surfaced.is_none() && bad.is_none() {
            let near = near_max(seq) || led.h.is_some_and(near_max);
            bad = Some((
                if near {
                    "C04/not-surfaced/in-window/seq-near-u64-max".into()
                } else {
                    "C04/not-surfaced/in-window".into()
                },
                "a genuine packet surfaces the first time it arrives on a connected session if it is less than 256 behind the highest accepted",
                format!("genuine payload seq {} ({:?}, session {}), first presentation, highest accepted {:?}: not surfaced", seq, dir, t, led.h),
            ));
        }
        if surfaced.is_some() {
            if first && led.h.is_some_and(|h| seq < h) && in_window {
                out.count("late_in_window_accepted");
                w.late_accepted += 1;
            }
            if first && !in_window {
                out.count("too_old_but_surfaced");
            }
            if seq >= 1 << 32 {
                out.count("seq_ge_2pow32_surfaced");
            }
            led.e.get_mut(&id).unwrap().surfaced = true;
            led.accept(seq);
        } else if demanded {
            // keep-alive / disconnect: the reference accepts it (every u64, 2^64-1 included, is a sequence)
            led.accept(seq);
        }
        if !first && surfaced.is_none() && kind == K_PAY {
            out.count("replays_rejected");
            w.replays_rejected += 1;
        }
        if first && !in_window && surfaced.is_none() {
            out.count("fresh_too_old_refused");
        }
        led.e.get_mut(&id).unwrap().presented = true;
    }
    if let Some((sig, clause, detail)) = bad {
        let (h_up, h_down) = target.map(|t| (w.sess[t].up.h, w.sess[t].down.h)).unwrap_or((None, None));
        out.violation(
            ctx,
            &sig,
            clause,
            detail,
            json!({
                "property": "C04", "engine": ctx.engine, "run_seed": format!("{:#x}", w.run_seed), "mode": w.mode,
                "direction": format!("{:?}", dir), "presentation": tag, "datagram_hex": crate::rng::hex(bytes),
                "reference_highest_up": h_up, "reference_highest_down": h_down, "history": w.hist.json(),
            }),
        );
        return false;
    }
    true
}

// ------------------------------------------------------------------------------------------
// part 1: complete enumeration of window-boundary histories

fn enum_total() -> u64 {
    (OFFS.len() as u64).pow(HIST_LEN) * 2 * ENUM_BASES.len() as u64
}

fn enum_case(ctx: &Ctx, out: &mut Outcome, idx: u64) {
    let per = (OFFS.len() as u64).pow(HIST_LEN);
    let mut code = idx % per;
    let dir = if (idx / per) % 2 == 0 { Dir::Up } else { Dir::Down };
    let base = ENUM_BASES[((idx / per / 2) % ENUM_BASES.len() as u64) as usize];
    let mut r = Rng::new(crate::rng::mix(&[0xC04E, idx]));
    let mut w = match build(&mut r, 1, 15, idx, "enum") {
        Ok(w) => w,
        Err(e) => {
            out.inconclusive(&format!("C04 enum setup: {e}"));
            return;
        }
    };
    let mut offs = Vec::new();
    for _ in 0..HIST_LEN {
        offs.push(OFFS[(code % OFFS.len() as u64) as usize]);
        code /= OFFS.len() as u64;
    }
    let mut made: HashMap<u64, Vec<u8>> = HashMap::new();
    let mut nontrivial = false;
    let mut maxo = None;
    for (i, o) in offs.iter().enumerate() {
        if offs[..i].contains(o) || maxo.is_some_and(|m| *o < m) {
            nontrivial = true;
        }
        maxo = Some(maxo.map_or(*o, |m: u64| m.max(*o)));
        let seq = base + o;
        let d = made.entry(seq).or_insert_with(|| {
            let plain = r.bytes(1 + (seq % 40) as usize);
            let key = if dir == Dir::Up { w.sess[0].c2s } else { w.sess[0].s2c };
            let b = sealed(&OPacket::Payload(plain.clone()), w.protocol, seq, &key);
            let led = if dir == Dir::Up { &mut w.sess[0].up } else { &mut w.sess[0].down };
            led.add(&b, K_PAY, plain, false);
            b
        });
        let d = d.clone();
        if !present(&mut w, ctx, out, dir, Some(0), &d, "enum") {
            break;
        }
    }
    out.count("enum_histories");
    out.eval(w.fp.finish() ^ crate::rng::mix(&[idx]), nontrivial);
}

// ------------------------------------------------------------------------------------------
// part 2: sampled live runs

#[derive(Clone)]
struct Item {
    dir: Dir,
    sess: usize,
    bytes: Vec<u8>,
    kind: u8,
    plain: Vec<u8>,
    seq: u64,
}

#[derive(Clone, Copy, PartialEq, Eq, Debug)]
enum Mode {
    Natural,
    Crafted(u64),
    NearMax,
}

fn payload_len(r: &mut Rng) -> usize {
    match r.below(10) {
        0 => 0,
        1 => 1,
        2 => 1300,
        3 => r.urange(1190, 1300),
        _ => r.urange(2, 120),
    }
}

pub fn run(ctx: &Ctx, out: &mut Outcome) {
    if let Some(s) = ctx.replay_seed {
        if ctx.replay_mode.as_deref() == Some("enum") {
            enum_case(ctx, out, s);
        } else {
            one_run(ctx, out, s);
        }
        return;
    }
    let mut complete = true;
    for idx in 0..enum_total() {
        if idx % ctx.nshards as u64 != ctx.shard as u64 {
            continue;
        }
        if ctx.over_budget() || out.should_stop() {
            complete = false;
            break;
        }
        enum_case(ctx, out, idx);
    }
    out.exhaustive = Some(complete);
    super::run_loop(ctx, out, 8000, 150_000, 4, one_run);
}

/// A token lists two servers that share the private key (the usual matchmaker setup). Server A accepts the client,
/// its keep-alive is lost, the payloads its application streams do reach the client (which is still answering the
/// challenge and ignores them), then A falls silent (a crash). The client moves on to server B and connects there:
/// B's session is a new session, so every payload B generates - delivered once, in order, unmodified - must surface.
fn failover_run(ctx: &Ctx, out: &mut Outcome, run_seed: u64, r: &mut Rng) {
    let key = rkey(r);
    let protocol = r.next_u64();
    let now = Duration::from_millis(2_000_000 + r.below(1000));
    let (a1, a2) = (addr4(0, 1, 5001), addr4(0, 2, 5002));
    let mut s1 = Srv::new(now, 2, protocol, vec![a1], key, true);
    let mut s2 = Srv::new(now, 2, protocol, vec![a2], key, true);
    let timeout = *r.pick(&[1i32, 1, 2]);
    let cid = 4242 + r.below(100);
    let m = mint(r, now.as_secs(), protocol, 120, cid, timeout, &[a1, a2], None, &key);
    let caddr = addr4(3, 3, 33_000);
    let mut cli = match Cli::new(now, m, caddr) {
        Ok(c) => c,
        Err(e) => return out.inconclusive(&format!("C04 failover setup: {e}")),
    };
    let dt = Duration::from_millis(*r.pick(&[10u64, 50, 100]));
    let k_from_a = *r.pick(&[1u64, 3, 20, 60, 300]);
    let want_from_b = 40u64;
    let mut hist = Hist::default();
    let (mut sent_a, mut judged_b, mut surfaced_b) = (0u64, 0u64, 0u64);
    let mut a_dead = false;
    let mut fp = Fnv::new();
    fp.u64(k_from_a);
    let max_ticks = ((timeout as u64 * 1000 + 6000) / dt.as_millis() as u64) * 2;
    for tick in 0..max_ticks {
        s1.update(dt);
        s2.update(dt);
        if let Some((b, to)) = cli.update(dt) {
            if to == a1 && !a_dead {
                match s1.process(caddr, &b) {
                    SResult::Send { bytes, .. } => {
                        let _ = cli.process(&bytes); // the challenge
                    }
                    SResult::Connected { .. } => hist.push(format!("tick {tick}: server A accepted the client; its keep-alive is lost")),
                    _ => {}
                }
            } else if to == a2 {
                if let Some((_, bytes)) = s2.process(caddr, &b).outgoing() {
                    let _ = cli.process(bytes);
                }
            }
        }
        // server A's application streams; its keep-alives never arrive
        if !a_dead && s1.s.is_client_connected(cid) {
            let _ = s1.update_client(cid);
            if let Ok((_, b)) = s1.payload_for(cid, b"state from A") {
                // the transport hands a datagram to the client only if it comes from the address the client is
                // currently talking to (NetcodeClientTransport::update): after the fail-over A's datagrams are gone
                if cli.c.server_addr() != a1 {
                    a_dead = true;
                    continue;
                }
                sent_a += 1;
                let first = cli.process(&b);
                if first.is_some() && !cli.c.is_connected() {
                    hist.push(format!("tick {tick}: payload of A surfaced although the client is not connected"));
                }
                // the network duplicates it: whatever the first copy did (ignored by a client that is still answering the
                // challenge, or surfaced), the second copy of one datagram never surfaces
                out.count("failover.duplicates_of_first_server_payloads_presented");
                if let Some(p2) = cli.process(&b) {
                    hist.push(format!("tick {tick}: the duplicate of A's payload seq {:?} surfaced ({} bytes; first copy surfaced: {})", wire_sequence(&b), p2.len(), first.is_some()));
                    out.violation(
                        ctx,
                        "C04/surfaced/replay/during-handshake",
                        "each genuine payload surfaces at most once",
                        format!("a payload of the server that had accepted the client (its keep-alive lost, the client still answering the challenge) was presented twice: the second copy surfaced (the first copy {})", if first.is_some() { "surfaced too" } else { "did not" }),
                        json!({"property": "C04", "engine": ctx.engine, "run_seed": format!("{:#x}", run_seed), "mode": "failover", "timeout_s": timeout, "dt_ms": dt.as_millis() as u64, "history": hist.json()}),
                    );
                    return;
                }
            }
            if sent_a >= k_from_a {
                a_dead = true;
                hist.push(format!("tick {tick}: server A falls silent after {} payloads reached the client", sent_a));
            }
        }
        // server B: keep-alives and a streaming application, everything delivered once, in order
        if s2.s.is_client_connected(cid) {
            if let SResult::Send { bytes, .. } = s2.update_client(cid) {
                let _ = cli.process(&bytes);
            }
            let plain = r.bytes(1 + (tick % 30) as usize);
            if let Ok((_, b)) = s2.payload_for(cid, &plain) {
                let connected_before = cli.c.is_connected();
                let got = cli.process(&b);
                if connected_before {
                    judged_b += 1;
                    out.count("failover.payloads_of_second_server_judged");
                    out.eval(crate::rng::mix(&[0xF0, run_seed, judged_b]), true);
                    match got {
                        Some(p) if p == plain => surfaced_b += 1,
                        other => {
                            let seq = wire_sequence(&b);
                            hist.push(format!("tick {tick}: payload seq {:?} of server B -> {:?}", seq, other.as_ref().map(|p| p.len())));
                            out.violation(
                                ctx,
                                "C04/not-surfaced/in-window/after-failover",
                                "a genuine packet surfaces the first time it arrives on a connected session if it is less than 256 behind the highest accepted",
                                format!("client connected to the second server of its token; that server's payload with sequence {:?} arrived for the first time, in order, unmodified, and was {} ({} payloads of the first server, which had accepted the client and then fell silent, had reached the client during the handshake)", seq, if other.is_some() { "surfaced with other bytes" } else { "not surfaced" }, sent_a),
                                json!({"property": "C04", "engine": ctx.engine, "run_seed": format!("{:#x}", run_seed), "mode": "failover", "timeout_s": timeout, "dt_ms": dt.as_millis() as u64, "payloads_from_first_server": sent_a, "history": hist.json()}),
                            );
                            return;
                        }
                    }
                }
            }
        }
        if judged_b >= want_from_b || cli.c.is_disconnected() {
            break;
        }
    }
    fp.u64(judged_b);
    fp.u64(surfaced_b);
    if judged_b > 0 {
        out.count("failover.runs_reaching_second_server");
    } else {
        out.count("failover.runs_void");
    }
    out.eval(fp.finish() ^ run_seed, judged_b > 0);
}

pub fn one_run(ctx: &Ctx, out: &mut Outcome, run_seed: u64) {
    let mut r = Rng::new(run_seed);
    if ctx.replay_mode.as_deref() == Some("failover") || (ctx.replay_mode.is_none() && r.below(25) == 0) {
        return failover_run(ctx, out, run_seed, &mut r);
    }
    let timeout = *r.pick(&[-1, 15, 30]);
    let mut w = match build(&mut r, 2, timeout, run_seed, "run") {
        Ok(w) => w,
        Err(e) => {
            out.inconclusive(&format!("C04 setup: {e}"));
            return;
        }
    };
    if w.abandoned_preludes > 0 {
        out.add("sessions_after_an_abandoned_attempt_from_the_same_address", w.abandoned_preludes);
    }
    const BASES: [u64; 9] = [
        300,
        65_000,
        (1 << 24) - 400,
        (1 << 32) - 400,
        1 << 32,
        (1 << 40) + 7,
        (1 << 56) - 300,
        1 << 63,
        u64::MAX - 5000,
    ];
    let pick_mode = |r: &mut Rng| match r.below(8) {
        0..=2 => Mode::Natural,
        3 => Mode::NearMax,
        _ => Mode::Crafted(*r.pick(&BASES)),
    };
    let modes = [pick_mode(&mut r), pick_mode(&mut r)]; // [up, down]
    let mut next = [0u64; 2];
    for (i, m) in modes.iter().enumerate() {
        next[i] = match m {
            Mode::Natural => 0,
            Mode::Crafted(b) => *b,
            Mode::NearMax => u64::MAX - 700,
        };
    }
    let mut exhausted = [false; 2];
    let n = r.range(60, if ctx.thorough() { 3000 } else { 500 });
    let dt = Duration::from_millis(260);
    let mut ticks = 0;
    let mut pool: Vec<Item> = Vec::new();
    for _ in 0..n {
        let t = if r.chance(3, 4) { 0 } else { 1 };
        let op = r.below(20);
        if op < 2 {
            if ticks >= 24 {
                continue;
            }
            ticks += 1;
            w.srv.update(dt);
            for si in 0..w.sess.len() {
                if let Some((b, _)) = w.sess[si].cli.update(dt) {
                    let ty = prefix_type(b[0]);
                    if (K_KEEP..=K_DISC).contains(&ty) {
                        if let Some(id) = w.sess[si].up.add(&b, ty, Vec::new(), true) {
                            let seq = w.sess[si].up.seq_of(id);
                            pool.push(Item { dir: Dir::Up, sess: si, bytes: b, kind: ty, plain: Vec::new(), seq });
                        }
                    }
                }
                let id = w.sess[si].id;
                if let SResult::Send { bytes: b, .. } = w.srv.update_client(id) {
                    let ty = prefix_type(b[0]);
                    if let Some(id) = w.sess[si].down.add(&b, ty, Vec::new(), true) {
                        let seq = w.sess[si].down.seq_of(id);
                        pool.push(Item { dir: Dir::Down, sess: si, bytes: b, kind: ty, plain: Vec::new(), seq });
                    }
                }
            }
            continue;
        }
        let dir = if op % 2 == 0 { Dir::Up } else { Dir::Down };
        let di = dir as usize;
        let plen = payload_len(&mut r);
        let plain = r.bytes(plen);
        // session 1 always uses the library's own generators; session 0 follows the drawn mode
        let mode = if t == 0 { modes[di] } else { Mode::Natural };
        let (bytes, kind) = match mode {
            Mode::Natural => {
                let res = match dir {
                    Dir::Up => w.sess[t].cli.payload(&plain).map(|x| x.1),
                    Dir::Down => {
                        let id = w.sess[t].id;
                        w.srv.payload_for(id, &plain).map(|x| x.1)
                    }
                };
                match res {
                    Ok(b) => (b, K_PAY),
                    Err(e) => {
                        out.inconclusive(&format!("C04: generate_payload_packet failed on a connected session: {e}"));
                        return;
                    }
                }
            }
            Mode::Crafted(_) | Mode::NearMax => {
                if exhausted[di] {
                    continue;
                }
                let seq = next[di];
                let gap = if mode == Mode::NearMax {
                    r.range(1, 3)
                } else {
                    match r.below(12) {
                        0 => 255,
                        1 => 256,
                        2 => 257,
                        3 => 512,
                        4 => r.range(2, 40),
                        _ => 1,
                    }
                };
                match seq.checked_add(gap) {
                    Some(v) => next[di] = v,
                    None => exhausted[di] = true,
                }
                let key = if dir == Dir::Up { w.sess[t].c2s } else { w.sess[t].s2c };
                if r.chance(1, 12) {
                    (sealed(&OPacket::KeepAlive { client_index: 0, max_clients: 0 }, w.protocol, seq, &key), K_KEEP)
                } else {
                    (sealed(&OPacket::Payload(plain.clone()), w.protocol, seq, &key), K_PAY)
                }
            }
        };
        let plain = if kind == K_PAY { plain } else { Vec::new() };
        let led = if dir == Dir::Up { &mut w.sess[t].up } else { &mut w.sess[t].down };
        if let Some(id) = led.add(&bytes, kind, plain.clone(), mode == Mode::Natural) {
            let seq = led.seq_of(id);
            pool.push(Item { dir, sess: t, bytes, kind, plain, seq });
        }
    }
    // the last few sequence numbers below 2^64 in NearMax mode (scripted tail)
    for (di, m) in modes.iter().enumerate() {
        if *m == Mode::NearMax {
            let dir = if di == 0 { Dir::Up } else { Dir::Down };
            let key = if di == 0 { w.sess[0].c2s } else { w.sess[0].s2c };
            for seq in [u64::MAX - 257, u64::MAX - 256, u64::MAX - 255, u64::MAX - 254, u64::MAX - 2, u64::MAX - 1, u64::MAX] {
                let plain = r.bytes(9);
                let b = sealed(&OPacket::Payload(plain.clone()), w.protocol, seq, &key);
                let led = if di == 0 { &mut w.sess[0].up } else { &mut w.sess[0].down };
                if led.add(&b, K_PAY, plain.clone(), false).is_some() {
                    pool.push(Item { dir, sess: 0, bytes: b, kind: K_PAY, plain, seq });
                }
            }
        }
    }

    // presentation order: bounded or unbounded displacement
    let disp = *r.pick(&[0u64, 3, 40, 255, 300, 2000, 1_000_000]);
    let mut order: Vec<(u64, usize)> = (0..pool.len()).map(|i| (i as u64 + r.below(disp + 1), i)).collect();
    order.sort();
    let mut presented: Vec<usize> = Vec::new();
    let mut alive = true;
    'outer: for (pos, (_, i)) in order.iter().enumerate() {
        let it = pool[*i].clone();
        let nh = if r.chance(1, 3) { r.range(1, 3) } else { 0 };
        for _ in 0..nh {
            w.hostile += 1;
            let other = 1 - it.sess.min(1);
            let keep = match r.below(12) {
                11 => {
                    // a stale ConnectionDenied of this very session's token: sealed by the server under the
                    // server-to-client key with its global sequence (2^63 up), not replay-protected, delivered to the
                    // connected client long after the handshake. Nothing surfaces and the window stays where it is
                    let b = sealed(&OPacket::Denied, w.protocol, (1u64 << 63) + r.below(5000), &w.sess[it.sess].s2c);
                    out.count("hostile.stale_denied");
                    present(&mut w, ctx, out, Dir::Down, Some(it.sess), &b, "stale-denied")
                }
                0 | 1 => {
                    // replay at a chosen distance
                    let d = match r.below(7) {
                        0 => 1,
                        1 => 2,
                        2 => 255,
                        3 => 256,
                        4 => 257,
                        5 => 512,
                        _ => r.range(1, presented.len().max(1) as u64),
                    } as usize;
                    if d <= presented.len() {
                        let p = pool[presented[presented.len() - d]].clone();
                        out.count("hostile.replay");
                        present(&mut w, ctx, out, p.dir, Some(p.sess), &p.bytes, "replay")
                    } else {
                        true
                    }
                }
                2 | 3 => {
                    // single-bit flip of the datagram about to be presented, or of an earlier one
                    let src = if r.chance(2, 3) || presented.is_empty() { it.clone() } else { pool[*r.pick(&presented)].clone() };
                    let mut b = src.bytes.clone();
                    let bit = if r.chance(1, 4) { r.usize_below(8 * 2.min(b.len())) } else { r.usize_below(8 * b.len()) };
                    b[bit / 8] ^= 1 << (bit % 8);
                    out.count("hostile.bitflip");
                    present(&mut w, ctx, out, src.dir, Some(src.sess), &b, "bitflip")
                }
                4 => {
                    let mut b = it.bytes.clone();
                    if r.chance(1, 2) {
                        b.truncate(r.usize_below(b.len()));
                        out.count("hostile.truncated");
                        present(&mut w, ctx, out, it.dir, Some(it.sess), &b, "truncated")
                    } else {
                        let extra = r.urange(1, 8);
                        b.extend(r.bytes(extra));
                        out.count("hostile.extended");
                        present(&mut w, ctx, out, it.dir, Some(it.sess), &b, "extended")
                    }
                }
                5 => {
                    // rewritten sequence bytes (same width): tries to move the window without the key
                    let mut b = it.bytes.clone();
                    let nb = (b[0] >> 4) as usize;
                    if nb >= 1 && nb <= 8 && b.len() > nb {
                        let delta = *r.pick(&[1u64, 255, 256, 1000, 70_000]);
                        let ns = it.seq.wrapping_add(delta).to_le_bytes();
                        b[1..1 + nb].copy_from_slice(&ns[..nb]);
                        out.count("hostile.sequence_rewritten");
                        present(&mut w, ctx, out, it.dir, Some(it.sess), &b, "sequence-rewritten")
                    } else {
                        true
                    }
                }
                6 => {
                    out.count("hostile.cross_session");
                    present(&mut w, ctx, out, it.dir, Some(other), &it.bytes, "cross-session")
                }
                7 => {
                    if it.dir == Dir::Up {
                        out.count("hostile.unknown_address");
                        present(&mut w, ctx, out, Dir::Up, None, &it.bytes, "unknown-address")
                    } else {
                        out.count("hostile.reflected");
                        present(&mut w, ctx, out, Dir::Up, Some(it.sess), &it.bytes, "reflected")
                    }
                }
                8 => {
                    let key = if it.dir == Dir::Up { w.sess[other].c2s } else { w.sess[other].s2c };
                    let p = if it.kind == K_PAY { OPacket::Payload(it.plain.clone()) } else { OPacket::KeepAlive { client_index: 0, max_clients: 0 } };
                    let b = sealed(&p, w.protocol, it.seq, &key);
                    out.count("hostile.foreign_key");
                    present(&mut w, ctx, out, it.dir, Some(it.sess), &b, "foreign-key")
                }
                9 => {
                    let key = if it.dir == Dir::Up { w.sess[it.sess].c2s } else { w.sess[it.sess].s2c };
                    let p = if it.kind == K_PAY { OPacket::Payload(it.plain.clone()) } else { OPacket::KeepAlive { client_index: 0, max_clients: 0 } };
                    // a protocol id differing in one bit of any of its eight bytes (the whole id must be bound), or a random one
                    let proto = if r.chance(3, 4) { w.protocol ^ (1u64 << r.below(64)) } else { r.next_u64() };
                    let b = sealed(&p, proto, it.seq, &key);
                    out.count("hostile.foreign_protocol");
                    if proto != w.protocol && it.kind == K_PAY && b == it.bytes {
                        // The crate's own encoder produced, for ANOTHER protocol id, the very datagram the
                        // peer generated for this one: the protocol id is not (fully) bound, so a payload
                        // generated for another protocol id surfaces here. (Presenting it would look like the
                        // genuine datagram to the ledger, so it is reported at this point.)
                        out.violation(
                            ctx,
                            "C04/surfaced/other-protocol-id",
                            "a payload surfaces only if it was generated for the same protocol id and session keys",
                            format!("a payload sealed for protocol id {:#x} is byte-identical to the one sealed for {:#x} (sequence {})", proto, w.protocol, it.seq),
                            json!({"property": "C04", "engine": ctx.engine, "run_seed": format!("{:#x}", w.run_seed), "mode": w.mode,
                                   "protocol_id": format!("{:#x}", w.protocol), "other_protocol_id": format!("{:#x}", proto), "datagram_hex": crate::rng::hex(&b)}),
                        );
                        false
                    } else {
                        present(&mut w, ctx, out, it.dir, Some(it.sess), &b, "foreign-protocol")
                    }
                }
                _ => {
                    // the opposite direction's key (reflection of plaintext)
                    let key = if it.dir == Dir::Up { w.sess[it.sess].s2c } else { w.sess[it.sess].c2s };
                    let b = sealed(&OPacket::Payload(it.plain.clone()), w.protocol, it.seq, &key);
                    out.count("hostile.wrong_direction_key");
                    present(&mut w, ctx, out, it.dir, Some(it.sess), &b, "wrong-direction-key")
                }
            };
            if !keep {
                alive = false;
                break 'outer;
            }
        }
        if !present(&mut w, ctx, out, it.dir, Some(it.sess), &it.bytes, "genuine") {
            alive = false;
            break;
        }
        presented.push(*i);
        if pos % 64 == 0 && ctx.over_budget() {
            break;
        }
    }
    // genuine disconnect, then more replays and late genuine datagrams: soundness still applies
    if alive && r.chance(1, 3) {
        let t = r.usize_below(2);
        if let Ok((_, b)) = w.sess[t].cli.disconnect() {
            w.sess[t].up.add(&b, K_DISC, Vec::new(), true);
            out.count("genuine_disconnect");
            if present(&mut w, ctx, out, Dir::Up, Some(t), &b, "genuine-disconnect") {
                // the session is over at the server. Late duplicates of the client's connection response(s) - without a
                // new request, so no half-open session exists for them - arrive before the replays: they must not give
                // the finished session's datagrams a second life
                if r.chance(1, 2) && !w.srv.s.is_client_connected(w.sess[t].id) {
                    let from = w.sess[t].addr;
                    for resp in w.sess[t].responses.clone() {
                        out.count("late_response_duplicates_after_session_end");
                        match guarded("NetcodeServer::process_packet", &resp, || w.srv.process(from, &resp)) {
                            Err(c) => {
                                report_panic(ctx, out, "C04", "NetcodeServer::process_packet", &resp, &c, w.run_seed, w.mode, &w.hist);
                                return;
                            }
                            Ok(res) => w.hist.push(format!("Up late-response-duplicate-after-session-end len={} -> {}", resp.len(), res.kind())),
                        }
                    }
                    if w.srv.s.is_client_connected(w.sess[t].id) {
                        out.count("session_reopened_by_a_late_response_duplicate");
                    }
                }
                for _ in 0..20.min(presented.len()) {
                    let p = pool[*r.pick(&presented)].clone();
                    if !present(&mut w, ctx, out, p.dir, Some(p.sess), &p.bytes, "replay-after-disconnect") {
                        break;
                    }
                }
            }
        }
    }
    out.count(&format!("mode.up.{:?}", modes[0]).split('(').next().unwrap().to_string());
    out.count(&format!("mode.down.{:?}", modes[1]).split('(').next().unwrap().to_string());
    let nontrivial = w.replays_rejected > 0 && w.late_accepted > 0 && w.hostile > 0;
    out.eval(w.fp.finish(), nontrivial);
    if nontrivial && out.samples.len() < out.max_samples {
        out.sample(json!({
            "run_seed": format!("{:#x}", run_seed), "modes_up_down": format!("{:?}", modes), "genuine_datagrams": pool.len(),
            "max_displacement": disp, "hostile_presentations": w.hostile, "replays_rejected": w.replays_rejected,
            "late_in_window_accepted": w.late_accepted, "first_operations": w.hist.head.iter().take(12).collect::<Vec<_>>(),
        }));
    }
}
