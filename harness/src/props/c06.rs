//! C06 renet survives hostile packets: the call returns, at worst that one connection drops with
//! a reason, later API calls and the other connections keep working, accounted memory stays in
//! range, no oversized allocation.

use crate::link::{LinkCfg, Profile};
use crate::oracles::{OrderedOracle, SizeMonitor};
use crate::outcome::{Ctx, Outcome, PropInfo};
use crate::payload;
use crate::rng::{hex, Fnv, Rng};
use crate::rsim::{ChanSpec, DrainMode, DtMode, Kind, Monitor, Side, Sim, SimCfg, DOWN, UP};
use crate::watchdog;
use bytes::Bytes;
use renet::verif::{Packet, Slice};
use serde_json::json;
use std::ops::Range;

pub static INFO: PropInfo = PropInfo {
    id: "C06",
    level: "exploration",
    rule: "one evaluation = one hostile datagram handed to process_packet (client role) or process_packet_from (server role) of a connection that is inside a live simulated session (states: fresh, with honest traffic in flight / partially reassembled / buffered because the application does not drain / after drains / after earlier hostile datagrams), next to a second healthy connection on the same server. Generators: replay of captured valid packets; one field of a decoded valid packet replaced by a boundary value and re-encoded with the crate's encoder; packets built from scratch with every field from boundary sets (sequence, channel id incl. wrong kind / unknown, message id, slice index {0,n-1,n,n+1,huge}, slice count {1,2,3,4369,4370,10^6}, payload length {0,1,1199,1200,1201}, 0..700 ack ranges incl. 0..2^62 and ranges over the live sent window); follow-up slices contradicting an earlier one (other count, other length, index >= count); every truncation; 1-3 bit flips; random strings up to 1400 bytes. Oracle per call: no unwind (catch_unwind) and return within 20 s; status either unchanged or Disconnected with a reason; accounted receive memory of every channel (hook) within [0, max]; live-heap peak during the call <= sum of receive budgets + 1 MB (counting allocator); every 8 datagrams a full tick of all API calls on both connections must not panic; at the end the healthy connection must have obtained every message in order (C01 oracle incl. deadline). Half-way through a victim whose application does not drain gets a BUDGET-EDGE sequence: unreliable messages that leave exactly one slice of the unreliable receive budget free, then a one-slice sliced message whose only slice is 1201..1390 bytes long - its reservation fits, what is accounted on completion must not exceed the budget (or the connection drops). Non-trivial = the datagram was decodable by the crate's decoder (it got past the parser) or disconnected the victim; distinct = distinct (class, outcome, first 24 bytes) fingerprints. Slice counts are also drawn from the arithmetic limits of the announced size (usize::MAX/1200 and its neighbours, 2^62-1, 2^61, 2^53, 2^32). A victim that is still connected at the end of the run is left without arrivals for 3.1 s of its clock, drained completely, and must then account nothing on its unreliable channel (a reservation that survives this is budget lost for the rest of the session).",
    assumptions: &["the healthy connection's link is clean so that its deadline is short", "heap bound uses a 1 MB slack for container growth"],
    gates: &[
        ("hostile_calls", 60_000),
        ("hostile_accepted_victim_still_connected", 500),
        ("state_fresh", 50),
        ("state_mid_reassembly", 50),
        ("state_buffered", 50),
        ("role_client", 1000),
        ("role_server", 1000),
        ("healthy_connection_checked", 50),
        ("reason.PacketDeserialization", 100),
        ("reason.ReceivedInvalidChannelId", 10),
        ("reason.ReceiveChannelError", 10),
        ("deser.BufferTooShort", 10),
        ("deser.InvalidNumSlices", 10),
        ("deser.SliceSizeAboveLimit", 5),
        ("deser.EmptySlice", 5),
        ("deser.InvalidAckRange", 5),
        ("deser.InvalidPacketType", 10),
    ],
    engines_quick: &["e1", "e2"],
    engines_thorough: &["e1", "e2", "e3", "e4"],
    run,
};

pub fn run(ctx: &Ctx, out: &mut Outcome) {
    super::run_loop(ctx, out, 40_000, 4_000_000, 6, one_run);
}

const CH_U: u8 = 0;
const CH_RU: u8 = 1;
const CH_RO: u8 = 2;

fn encode(p: &Packet) -> Option<Vec<u8>> {
    let mut buf = vec![0u8; 9000];
    let mut o = octets::OctetsMut::with_slice(&mut buf);
    match p {
        Packet::Ack { ack_ranges, .. } if ack_ranges.is_empty() => return None,
        _ => {}
    }
    match watchdog::catch(|| p.to_bytes(&mut o)) {
        Ok(Ok(n)) => {
            buf.truncate(n);
            Some(buf)
        }
        _ => None,
    }
}

struct Gen {
    recent: Vec<Vec<u8>>,
    /// (reliable?, channel, message id, num_slices) of slices seen / injected
    slices_seen: Vec<(bool, u8, u64, usize)>,
    sent_window: Range<u64>,
    /// a planned sequence of datagrams (delivered before anything else is generated)
    queue: std::collections::VecDeque<(Vec<u8>, &'static str)>,
}

fn pick_channel(r: &mut Rng) -> u8 {
    match r.below(10) {
        0..=2 => CH_U,
        3..=5 => CH_RU,
        6..=8 => CH_RO,
        _ => *r.pick(&[3u8, 7, 200, 255]),
    }
}

fn small_varint(r: &mut Rng) -> u64 {
    match r.below(3) {
        0 => r.below(40),
        _ => r.boundary_varint(),
    }
}

const ARITH_NUM_SLICES: [usize; 10] = [
    usize::MAX / 1200,
    usize::MAX / 1200 - 1,
    usize::MAX / 1200 + 1,
    (usize::MAX / 1200) / 2 + 1,
    (1 << 62) - 1,
    1 << 61,
    1 << 53,
    1 << 32,
    u32::MAX as usize,
    (u32::MAX / 1200) as usize,
];

fn gen_slice(r: &mut Rng, g: &Gen, reliable: bool) -> (Slice, u8) {
    let num_slices = match r.below(8) {
        0 => 1,
        1 => 2,
        2 => 3,
        3 => *r.pick(&[4369usize, 4370, 1_000_000, 999_999, 54, 55]),
        // arithmetic limits of the announced size (num_slices * 1200 and what is added to it): a decoder cap moved
        // to 'whatever does not overflow' must still leave the accounting sums representable
        4 if r.chance(1, 2) => *r.pick(&ARITH_NUM_SLICES),
        _ => r.urange(2, 12),
    };
    let slice_index = match r.below(8) {
        0 => 0,
        1 => num_slices - 1,
        2 => num_slices,
        3 => num_slices + 1,
        4 => *r.pick(&[usize::MAX >> 2, 1 << 32, 65536]),
        _ => r.urange(0, num_slices.min(20)),
    };
    let len = match r.below(6) {
        0 => 1,
        1 => 1199,
        2 | 3 => 1200,
        _ => r.urange(1, 1200),
    };
    let message_id = match r.below(3) {
        0 => r.below(6),
        1 => g.slices_seen.last().map_or(0, |s| s.2),
        _ => small_varint(r),
    };
    let ch = if r.chance(4, 5) {
        if reliable {
            *r.pick(&[CH_RU, CH_RO])
        } else {
            CH_U
        }
    } else {
        pick_channel(r)
    };
    (
        Slice {
            message_id,
            slice_index,
            num_slices,
            payload: Bytes::from(r.bytes(len)),
        },
        ch,
    )
}

fn gen_built(r: &mut Rng, g: &Gen) -> Option<Vec<u8>> {
    let sequence = small_varint(r);
    let p = match r.below(6) {
        0 => {
            let n = r.urange(0, 6);
            let mut left = 1150usize;
            let mut messages = Vec::new();
            for _ in 0..n {
                let len = r.urange(0, left.min(400));
                left -= len;
                messages.push((small_varint(r), Bytes::from(r.bytes(len))));
            }
            Packet::SmallReliable {
                sequence,
                channel_id: pick_channel(r),
                messages,
            }
        }
        1 => {
            let n = r.urange(0, 6);
            let mut left = 1150usize;
            let mut messages = Vec::new();
            for _ in 0..n {
                let len = r.urange(0, left.min(400));
                left -= len;
                messages.push(Bytes::from(r.bytes(len)));
            }
            Packet::SmallUnreliable {
                sequence,
                channel_id: pick_channel(r),
                messages,
            }
        }
        2 => {
            let (slice, ch) = gen_slice(r, g, true);
            Packet::ReliableSlice {
                sequence,
                channel_id: ch,
                slice,
            }
        }
        3 => {
            let (slice, ch) = gen_slice(r, g, false);
            Packet::UnreliableSlice {
                sequence,
                channel_id: ch,
                slice,
            }
        }
        _ => {
            // ack ranges
            let n = *r.pick(&[1usize, 1, 2, 3, 10, 64, 65, 300, 700]);
            let mut ranges: Vec<Range<u64>> = Vec::new();
            match r.below(4) {
                0 => ranges.push(0..(1u64 << 62) - 1),
                1 => ranges.push(g.sent_window.start.saturating_sub(r.below(5))..g.sent_window.end + r.below(5) + 1),
                _ => {
                    let mut x = r.below(1000);
                    for _ in 0..n {
                        let len = 1 + r.below(4);
                        ranges.push(x..x + len);
                        x += len + 1 + r.below(if n > 100 { 3 } else { 1 << 20 });
                    }
                }
            }
            Packet::Ack { sequence, ack_ranges: ranges }
        }
    };
    let mut b = encode(&p)?;
    if b.len() > 1400 {
        b.truncate(1400);
    }
    Some(b)
}

fn gen_field_mut(r: &mut Rng, g: &Gen) -> Option<Vec<u8>> {
    let base = r.pick(&g.recent).clone();
    let p = crate::rsim::decode(&base)?;
    let v = small_varint(r);
    let q = match p {
        Packet::SmallReliable {
            sequence,
            channel_id,
            mut messages,
        } => match r.below(4) {
            0 => Packet::SmallReliable { sequence: v, channel_id, messages },
            1 => Packet::SmallReliable {
                sequence,
                channel_id: pick_channel(r),
                messages,
            },
            2 => {
                if let Some(m) = messages.first_mut() {
                    m.0 = v;
                }
                Packet::SmallReliable { sequence, channel_id, messages }
            }
            _ => {
                if messages.len() > 1 {
                    let a = messages[0].clone();
                    messages.push(a);
                }
                Packet::SmallReliable { sequence, channel_id, messages }
            }
        },
        Packet::SmallUnreliable { sequence, channel_id, messages } => match r.below(2) {
            0 => Packet::SmallUnreliable { sequence: v, channel_id, messages },
            _ => Packet::SmallUnreliable {
                sequence,
                channel_id: pick_channel(r),
                messages,
            },
        },
        Packet::ReliableSlice {
            sequence,
            channel_id,
            mut slice,
        } => {
            match r.below(6) {
                0 => slice.message_id = v,
                1 => slice.slice_index = *r.pick(&[0usize, slice.num_slices - 1, slice.num_slices, slice.num_slices + 1, 1 << 40]),
                2 => slice.num_slices = *r.pick(&[1usize, 2, slice.num_slices + 1, slice.num_slices.saturating_sub(1).max(1), 1_000_000, 4370, usize::MAX / 1200, usize::MAX / 1200 - 1, (1 << 62) - 1, 1 << 32]),
                3 => {
                    let n = *r.pick(&[1usize, 1199, 1200]);
                    slice.payload = Bytes::from(r.bytes(n))
                }
                4 => {
                    return encode(&Packet::ReliableSlice {
                        sequence,
                        channel_id: pick_channel(r),
                        slice,
                    })
                }
                _ => {
                    return encode(&Packet::UnreliableSlice { sequence, channel_id, slice });
                }
            }
            Packet::ReliableSlice { sequence, channel_id, slice }
        }
        Packet::UnreliableSlice {
            sequence,
            channel_id,
            mut slice,
        } => {
            match r.below(5) {
                0 => slice.message_id = v,
                1 => slice.slice_index = *r.pick(&[0usize, slice.num_slices - 1, slice.num_slices, slice.num_slices + 1, 1 << 40]),
                2 => slice.num_slices = *r.pick(&[1usize, 2, slice.num_slices + 1, slice.num_slices.saturating_sub(1).max(1), 1_000_000, 55, usize::MAX / 1200, usize::MAX / 1200 - 1, (1 << 62) - 1, 1 << 32]),
                3 => {
                    let n = *r.pick(&[0usize, 1, 1199, 1200, 1201, 1300]);
                    slice.payload = Bytes::from(r.bytes(n))
                }
                _ => {
                    return encode(&Packet::ReliableSlice { sequence, channel_id, slice });
                }
            }
            Packet::UnreliableSlice { sequence, channel_id, slice }
        }
        Packet::Ack { sequence, mut ack_ranges } => {
            match r.below(3) {
                0 => {
                    if let Some(l) = ack_ranges.last_mut() {
                        l.end = l.end.saturating_add(v).min((1 << 62) - 1).max(l.start + 1);
                    }
                }
                1 => {
                    if let Some(f) = ack_ranges.first_mut() {
                        f.start = 0;
                    }
                }
                _ => {}
            }
            Packet::Ack { sequence: if r.chance(1, 2) { v } else { sequence }, ack_ranges }
        }
    };
    encode(&q)
}

fn gen_contradict(r: &mut Rng, g: &Gen) -> Option<Vec<u8>> {
    let (reliable, ch, id, n) = *r.pick(&g.slices_seen);
    let num_slices = match r.below(4) {
        0 => n + 1,
        1 => n.saturating_sub(1).max(1),
        2 => n,
        _ => *r.pick(&[1usize, 2, 3, 50]),
    };
    let slice_index = match r.below(4) {
        0 => n,
        1 => n.saturating_sub(1),
        2 => num_slices.saturating_sub(1),
        _ => r.urange(0, n + 1),
    };
    let len = *r.pick(&[1usize, 600, 1199, 1200, 1200, 1200]);
    let slice = Slice {
        message_id: id,
        slice_index,
        num_slices,
        payload: Bytes::from(r.bytes(len)),
    };
    let sequence = small_varint(r);
    encode(&if reliable {
        Packet::ReliableSlice { sequence, channel_id: ch, slice }
    } else {
        Packet::UnreliableSlice { sequence, channel_id: ch, slice }
    })
}

fn gen_raw_weird(r: &mut Rng) -> Vec<u8> {
    // byte-level surgery for values the encoder would never write
    let mut o = vec![0u8; 64];
    let n = {
        let mut w = octets::OctetsMut::with_slice(&mut o);
        let t = *r.pick(&[2u8, 3, 2, 3, 4, 5, 9, 255]);
        let _ = w.put_u8(t);
        let _ = w.put_varint(r.below(50));
        if t == 4 {
            // ack: end < size, or absurd remaining count
            let _ = w.put_varint(r.below(10));
            let _ = w.put_varint(r.below(20));
            let _ = w.put_varint(*r.pick(&[0u64, 1, 5, (1 << 62) - 1]));
            let _ = w.put_varint(r.below(10));
            let _ = w.put_varint(r.below(10));
        } else {
            let _ = w.put_u8(*r.pick(&[CH_U, CH_RU, CH_RO]));
            let _ = w.put_varint(r.below(5));
            let _ = w.put_varint(r.below(5));
            let _ = w.put_varint(*r.pick(&[1u64, 2, 1, 3, 0, 1_000_001, (1 << 62) - 1, u64::MAX / 1200, u64::MAX / 1200 - 1, 1 << 32])); // num_slices
            let _ = w.put_varint(*r.pick(&[0u64, 0, 1, 1201, 1201, 5000])); // payload length
        }
        64 - w.cap()
    };
    o.truncate(n);
    let extra = *r.pick(&[0usize, 1, 1201, 1201, 1336]);
    o.extend(r.bytes(extra));
    o.truncate(1400);
    o
}

fn generate(r: &mut Rng, g: &Gen) -> (Vec<u8>, &'static str) {
    for _ in 0..8 {
        let k = r.below(100);
        let (b, class): (Option<Vec<u8>>, &'static str) = match k {
            0..=7 if !g.recent.is_empty() => (Some(r.pick(&g.recent).clone()), "replay-valid"),
            8..=29 if !g.recent.is_empty() => (gen_field_mut(r, g), "field-mutated"),
            30..=59 => (gen_built(r, g), "built"),
            60..=71 if !g.slices_seen.is_empty() => (gen_contradict(r, g), "contradicting-slice"),
            72..=79 => (Some(gen_raw_weird(r)), "raw-weird"),
            80..=87 => {
                let base = if !g.recent.is_empty() && r.chance(1, 2) { Some(r.pick(&g.recent).clone()) } else { gen_built(r, g) };
                (
                    base.map(|mut b| {
                        let n = r.urange(0, b.len());
                        b.truncate(n);
                        b
                    }),
                    "truncated",
                )
            }
            88..=95 => {
                let base = if !g.recent.is_empty() && r.chance(1, 2) { Some(r.pick(&g.recent).clone()) } else { gen_built(r, g) };
                (
                    base.map(|mut b| {
                        if !b.is_empty() {
                            for _ in 0..r.range(1, 3) {
                                let cap = if r.chance(1, 2) { 24 } else { usize::MAX };
                                let i = r.usize_below(b.len().min(cap));
                                b[i] ^= 1 << r.below(8);
                            }
                        }
                        b
                    }),
                    "bit-flipped",
                )
            }
            _ => {
                let n = match r.below(4) {
                    0 => r.urange(0, 8),
                    1 => r.urange(0, 64),
                    _ => r.urange(0, 1400),
                };
                let mut b = r.bytes(n);
                if !b.is_empty() && r.chance(2, 3) {
                    b[0] = r.below(6) as u8;
                }
                (Some(b), "random")
            }
        };
        if let Some(b) = b {
            return (b, class);
        }
    }
    (vec![4], "random")
}

fn status_of(sim: &Sim, conn: usize, side: Side) -> (bool, bool, bool, Option<renet::DisconnectReason>) {
    match sim.endpoint(conn, side) {
        Some(e) => (e.is_connected(), e.is_connecting(), e.is_disconnected(), e.disconnect_reason()),
        None => (false, false, true, None),
    }
}

pub fn one_run(ctx: &Ctx, out: &mut Outcome, run_seed: u64) {
    let mut r = Rng::new(run_seed);
    let mems = [*r.pick(&[16 * 1024usize, 64 * 1024, 5 * 1024 * 1024]), *r.pick(&[16 * 1024usize, 64 * 1024, 5 * 1024 * 1024]), *r.pick(&[64 * 1024usize, 5 * 1024 * 1024])];
    let resend = *r.pick(&[0u64, 100, 300]);
    let chans = vec![
        ChanSpec { id: CH_U, kind: Kind::Unreliable, resend_ms: 0, max_mem: mems[0] },
        ChanSpec { id: CH_RU, kind: Kind::ReliableUnordered, resend_ms: resend, max_mem: mems[1] },
        ChanSpec { id: CH_RO, kind: Kind::ReliableOrdered, resend_ms: resend, max_mem: mems[2] },
    ];
    let budget_sum: usize = mems.iter().sum();
    let victim_profile = *r.pick(&[Profile::Clean, Profile::Heavy, Profile::DupHeavy, Profile::ReorderHeavy]);
    let cfg = SimCfg {
        n_clients: 2,
        up: chans.clone(),
        down: chans.clone(),
        bytes_per_tick: *r.pick(&[2500u64, 60_000]),
        dt: DtMode::Fixed(*r.pick(&[16u64, 100])),
        drain: DrainMode::EveryTick,
        link_up: vec![LinkCfg::from_profile(victim_profile, &mut r), LinkCfg::clean()],
        link_down: vec![LinkCfg::from_profile(victim_profile, &mut r), LinkCfg::clean()],
        shuffle_phases: r.chance(1, 2),
        skip_send_pct: 0,
        library_default: false,
    };
    let mut sim = Sim::new(cfg, run_seed);
    sim.log_on = true;
    let mut mons: Vec<Box<dyn Monitor>> = vec![
        Box::new({
            let mut o = OrderedOracle::new("C06", true);
            o.exempt.insert(0);
            o
        }),
        Box::new(SizeMonitor { prop: "C13" }),
    ];
    let victim = 0usize;
    let healthy = 1usize;
    let role = if r.chance(1, 2) { Side::Client } else { Side::Server };
    let dir_in = if role == Side::Client { DOWN } else { UP }; // direction whose receiver is the victim endpoint
    out.count(if role == Side::Client { "role_client" } else { "role_server" });
    // the victim application may not drain at all (buffered state)
    let victim_drains = !r.chance(1, 3);
    let warm = *r.pick(&[0u64, 0, 1, 3, 10, 30]);
    let tag = r.next_u64();
    let mut g = Gen {
        recent: Vec::new(),
        slices_seen: Vec::new(),
        sent_window: 0..1,
        queue: std::collections::VecDeque::new(),
    };
    let mut fp_run = Fnv::new();
    let mut history: Vec<String> = Vec::new();

    let honest_submit = |sim: &mut Sim, r: &mut Rng, mons: &mut Vec<Box<dyn Monitor>>, out: &mut Outcome, conn: usize| {
        for d in [UP, DOWN] {
            for _ in 0..r.range(0, 2) {
                let ch = *r.pick(&[CH_U, CH_RU, CH_RO]);
                let len = payload::pick_len(r, 6000, false);
                if sim.within_window(conn, d, ch, len) {
                    let idx = sim.next_index(conn, d, ch);
                    let b = payload::make(conn as u8, d, ch, 0, idx, len, tag);
                    sim.submit(conn, d, ch, b, mons, ctx, out);
                }
            }
        }
    };

    // one guarded step of honest activity (captures valid packets addressed to the victim endpoint)
    let step = |sim: &mut Sim, r: &mut Rng, mons: &mut Vec<Box<dyn Monitor>>, out: &mut Outcome, g: &mut Gen, submit: bool| -> Result<(), watchdog::Caught> {
        watchdog::catch(|| {
            if submit {
                honest_submit(sim, r, mons, out, victim);
                honest_submit(sim, r, mons, out, healthy);
            }
            // victim drain mode is emulated by toggling the sim drain mode around the tick
            sim.cfg.drain = if victim_drains { DrainMode::EveryTick } else { DrainMode::Never };
            sim.tick(mons, ctx, out);
            if !victim_drains {
                // the healthy connection always drains
                sim.do_drain(healthy, UP, mons, ctx, out);
                sim.do_drain(healthy, DOWN, mons, ctx, out);
            }
            // capture what is in flight towards the victim endpoint
            for f in sim.links[dir_in as usize][victim].q.iter() {
                if g.recent.len() < 64 {
                    g.recent.push(f.bytes.clone());
                } else {
                    let i = (f.uid as usize) % 64;
                    g.recent[i] = f.bytes.clone();
                }
                if let Some(p) = crate::rsim::decode(&f.bytes) {
                    match p {
                        Packet::ReliableSlice { channel_id, slice, .. } => g.slices_seen.push((true, channel_id, slice.message_id, slice.num_slices)),
                        Packet::UnreliableSlice { channel_id, slice, .. } => g.slices_seen.push((false, channel_id, slice.message_id, slice.num_slices)),
                        _ => {}
                    }
                    if g.slices_seen.len() > 64 {
                        g.slices_seen.drain(0..32);
                    }
                }
            }
        })
    };

    for _ in 0..warm {
        if let Err(c) = step(&mut sim, &mut r, &mut mons, out, &mut g, true) {
            report_later_panic(ctx, out, &sim, &c, run_seed, &history, "honest warm-up tick");
            out.eval(fp_run.finish(), false);
            return;
        }
    }
    let state = if warm == 0 {
        "state_fresh"
    } else if !victim_drains {
        "state_buffered"
    } else {
        "state_after_drains"
    };
    out.count(state);

    let n_inject = r.range(8, 200);
    let survivable = r.chance(3, 5);
    if survivable {
        out.count("runs_survivable_mode");
    }
    let mut injected = 0u64;
    let mut fatal = false;
    for k in 0..n_inject {
        if sim.disconnected(victim, role) {
            break;
        }
        // budget edge (victims whose application does not drain): unreliable messages that leave exactly one slice of the
        // receive budget free, then a one-slice "sliced" message whose only slice is longer than a slice. Its reservation
        // fits; what is accounted when it completes must not exceed the budget (or the connection is dropped)
        if !victim_drains && k == n_inject / 2 && g.queue.is_empty() {
            if let (Some(e), Some(spec)) = (sim.endpoint(victim, role), chans.iter().find(|c| c.id == CH_U)) {
                let held = e.verif_receive_memory(CH_U).unwrap_or(0);
                if spec.max_mem >= held + 1200 && (spec.max_mem - held - 1200) / 1200 <= 80 {
                    let mut filler = spec.max_mem - held - 1200;
                    let mut seq = 40_000u64;
                    while filler > 0 {
                        let n = filler.min(1200);
                        if let Some(b) = encode(&Packet::SmallUnreliable { sequence: seq, channel_id: CH_U, messages: vec![bytes::Bytes::from(vec![0x5Au8; n])] }) {
                            g.queue.push_back((b, "budget-edge-filler"));
                        }
                        seq += 1;
                        filler -= n;
                    }
                    let over = 1200 + r.urange(1, 190);
                    let slice = renet::verif::Slice { message_id: 0xABCDE, slice_index: 0, num_slices: 1, payload: bytes::Bytes::from(vec![0xA5u8; over]) };
                    if let Some(b) = encode(&Packet::UnreliableSlice { sequence: seq, channel_id: CH_U, slice }) {
                        g.queue.push_back((b, "budget-edge-oversized-last-slice"));
                        out.count("budget_edge_sequences_planned");
                    }
                }
            }
        }
        // window of the victim endpoint's own sent packets (for acks over the live window)
        let planned = g.queue.pop_front();
        let from_plan = planned.is_some();
        let (mut bytes, mut class) = planned.unwrap_or_else(|| generate(&mut r, &g));
        let mut decodable = crate::rsim::decode(&bytes);
        if survivable && !from_plan {
            // deep histories: prefer datagrams that get past the parser and address a channel of the
            // right kind, so that the victim stays alive and accumulates hostile state
            for _ in 0..6 {
                let ok = match &decodable {
                    Some(Packet::SmallReliable { channel_id, .. }) | Some(Packet::ReliableSlice { channel_id, .. }) => *channel_id == CH_RU || *channel_id == CH_RO,
                    Some(Packet::SmallUnreliable { channel_id, .. }) | Some(Packet::UnreliableSlice { channel_id, .. }) => *channel_id == CH_U,
                    Some(Packet::Ack { .. }) => true,
                    None => false,
                };
                if ok {
                    break;
                }
                let (b2, c2) = generate(&mut r, &g);
                bytes = b2;
                class = c2;
                decodable = crate::rsim::decode(&bytes);
            }
        }
        if let Some(p) = &decodable {
            match p {
                Packet::ReliableSlice { channel_id, slice, .. } => g.slices_seen.push((true, *channel_id, slice.message_id, slice.num_slices)),
                Packet::UnreliableSlice { channel_id, slice, .. } => g.slices_seen.push((false, *channel_id, slice.message_id, slice.num_slices)),
                _ => {}
            }
        }
        // is the victim mid-reassembly? (some receive memory accounted while nothing is buffered is a proxy)
        if let Some(e) = sim.endpoint(victim, role) {
            let held: usize = [CH_U, CH_RU, CH_RO].iter().map(|c| e.verif_receive_memory(*c).unwrap_or(0)).sum();
            if held > 0 && victim_drains {
                out.count("state_mid_reassembly");
            }
        }
        let before = status_of(&sim, victim, role);
        let live_before = crate::alloc::live();
        crate::alloc::take_maxima();
        let label = if role == Side::Client { "RenetClient::process_packet" } else { "RenetServer::process_packet_from" };
        let id0 = sim.ids[victim];
        let res = {
            let sim_ref = &mut sim;
            watchdog::guarded(label, &bytes, || {
                if role == Side::Client {
                    sim_ref.clients[victim].process_packet(&bytes);
                } else {
                    let _ = sim_ref.server.process_packet_from(&bytes, id0);
                }
            })
        };
        let (peak, largest) = crate::alloc::take_maxima();
        injected += 1;
        out.count("hostile_calls");
        out.count(&format!("class.{}", class));
        if history.len() < 400 {
            history.push(format!("inject#{} {} {}", k, class, hex(&bytes[..bytes.len().min(48)])));
        }
        let replay = |clause: &str, history: &Vec<String>| {
            json!({"property": "C06", "engine": ctx.engine, "run_seed": format!("{:#x}", run_seed), "role": format!("{:?}", role),
                   "violated_clause": clause, "class": class, "datagram_hex": hex(&bytes), "decoded": decodable.as_ref().map(crate::rsim::brief),
                   "state": state, "history_tail": history.iter().rev().take(30).rev().collect::<Vec<_>>()})
        };
        match res {
            Err(c) => {
                out.violation(
                    ctx,
                    &format!("C06/panic/{}", c.class),
                    "the call returns normally",
                    format!("{} panicked on a {} datagram ({}): {} at {}", label, class, decodable.as_ref().map_or("undecodable".into(), crate::rsim::brief), c.msg, c.loc),
                    replay("returns normally", &history),
                );
                fatal = true;
                break;
            }
            Ok(()) => {}
        }
        let after = status_of(&sim, victim, role);
        let mut outcome_tag = 0u64;
        if after != before {
            outcome_tag = 1;
            // only allowed change: -> Disconnected with a reason
            if !(after.2 && after.3.is_some() && !before.2) {
                out.violation(
                    ctx,
                    "C06/status/invalid-transition",
                    "the packet is either processed or the connection becomes disconnected with a reason",
                    format!("status changed from {:?} to {:?}", before, after),
                    replay("status", &history),
                );
            } else if let Some(reason) = after.3 {
                let name = format!("{:?}", reason);
                let short = name.split(|c| c == '(' || c == '{' || c == ' ').next().unwrap_or("?").to_string();
                out.count(&format!("reason.{}", short));
                if let renet::DisconnectReason::PacketDeserialization(e) = reason {
                    out.count(&format!("deser.{:?}", e));
                }
            }
        } else if decodable.is_some() {
            out.count("hostile_accepted_victim_still_connected");
        }
        // accounted memory in range
        if let Some(e) = sim.endpoint(victim, role) {
            for spec in chans.iter() {
                if let Some(m) = e.verif_receive_memory(spec.id) {
                    if m > spec.max_mem {
                        out.violation(
                            ctx,
                            &format!("C06/accounting-out-of-range/{}", spec.kind.short()),
                            "memory accounted to buffered or partially reassembled data stays within the channel budget without wrapping",
                            format!("channel {} accounts {} bytes after a {} datagram (budget {})", spec.id, m, class, spec.max_mem),
                            replay("accounting", &history),
                        );
                        fatal = true;
                    }
                }
            }
        }
        if fatal {
            break;
        }
        // real heap growth caused by this one datagram
        let growth = peak.saturating_sub(live_before);
        out.max("heap_peak_growth_per_datagram", growth as u64);
        out.max("largest_single_allocation", largest as u64);
        if crate::alloc::installed() && growth > budget_sum + (1 << 20) {
            out.violation(
                ctx,
                "C06/heap-growth-above-budgets",
                "memory used for one datagram stays within the configured channel budgets",
                format!("one {} datagram made the live heap peak {} bytes above its level (sum of budgets {})", class, growth, budget_sum),
                replay("heap", &history),
            );
        }
        let mut f = Fnv::new();
        f.bytes(class.as_bytes());
        f.u64(outcome_tag);
        f.bytes(&bytes[..bytes.len().min(24)]);
        f.u64(bytes.len() as u64);
        let fp = f.finish();
        fp_run.u64(fp);
        out.eval(fp, decodable.is_some() || outcome_tag == 1);
        // every few datagrams: all API calls on both connections
        if k % 8 == 7 || r.chance(1, 6) {
            if let Err(c) = step(&mut sim, &mut r, &mut mons, out, &mut g, true) {
                report_later_panic(ctx, out, &sim, &c, run_seed, &history, "tick after hostile datagrams");
                fatal = true;
                break;
            }
            // send-side accounting of the victim still sane
            if let Some(e) = sim.endpoint(victim, role) {
                for spec in chans.iter() {
                    match watchdog::catch(|| e.channel_available_memory(spec.id)) {
                        Ok(a) if a <= spec.max_mem => {}
                        Ok(a) => {
                            out.violation(
                                ctx,
                                &format!("C06/accounting-out-of-range/send-{}", spec.kind.short()),
                                "accounted memory stays within budgets without wrapping",
                                format!("send channel {} offers {} bytes of a {} budget", spec.id, a, spec.max_mem),
                                replay("accounting", &history),
                            );
                            fatal = true;
                        }
                        Err(c) => {
                            report_later_panic(ctx, out, &sim, &c, run_seed, &history, "channel_available_memory");
                            fatal = true;
                        }
                    }
                }
            }
            if fatal {
                break;
            }
        }
    }
    if fatal {
        return;
    }
    out.add("hostile_calls_on_live_victim", injected);
    // later API calls on the victim endpoint (dead or alive) and the healthy connection
    let tail = (|| -> Result<(), watchdog::Caught> {
        for _ in 0..3 {
            step(&mut sim, &mut r, &mut mons, out, &mut g, true)?;
        }
        watchdog::catch(|| {
            sim.cfg.drain = DrainMode::EveryTick;
            sim.heal(&mut mons, ctx, out);
            let bound = crate::traffic::liveness_bound(&sim);
            let mut t = 0;
            while t < bound {
                sim.tick(&mut mons, ctx, out);
                t += 1;
                let done = sim.outstanding_n[healthy][0].iter().all(|x| *x == 0) && sim.outstanding_n[healthy][1].iter().all(|x| *x == 0);
                if done {
                    break;
                }
            }
            sim.deadline(&mut mons, ctx, out);
        })
    })();
    if let Err(c) = tail {
        report_later_panic(ctx, out, &sim, &c, run_seed, &history, "API calls after the hostile phase");
        return;
    }
    out.count("healthy_connection_checked");
    if sim.any_disconnected(healthy) {
        out.violation(
            ctx,
            "C06/healthy-connection-disconnected",
            "the server's other connections keep working",
            format!("the healthy connection got disconnected: client {:?} server {:?}", sim.reason(healthy, Side::Client), sim.reason(healthy, Side::Server)),
            json!({"property": "C06", "engine": ctx.engine, "run_seed": format!("{:#x}", run_seed), "history_tail": history.iter().rev().take(30).rev().collect::<Vec<_>>()}),
        );
    }
    // a client-role victim that a hostile packet dropped stays dropped, with its reason, when its transport goes on
    // calling the per-tick setters (a transport that reports "the link is up" every tick, as the Steam transport does)
    if role == Side::Client && sim.disconnected(victim, role) {
        let before = status_of(&sim, victim, role);
        let poke = watchdog::catch(|| {
            sim.clients[victim].set_connected();
            sim.clients[victim].update(std::time::Duration::from_millis(16));
            let _ = sim.clients[victim].get_packets_to_send();
            sim.clients[victim].set_connecting();
        });
        if let Err(c) = poke {
            report_later_panic(ctx, out, &sim, &c, run_seed, &history, "set_connected / set_connecting on the dropped client");
            return;
        }
        let after = status_of(&sim, victim, role);
        out.count("dropped_client_victim_poked_by_its_transport");
        if after != before {
            out.violation(
                ctx,
                "C06/status/dropped-connection-revived",
                "the packet is either processed or the affected connection becomes disconnected with a reason (and stays so)",
                format!("the client dropped by a hostile packet was {:?}; after its transport called set_connected() / set_connecting() again it is {:?}", before, after),
                json!({"property": "C06", "engine": ctx.engine, "run_seed": format!("{:#x}", run_seed), "role": format!("{:?}", role), "state": state,
                       "history_tail": history.iter().rev().take(30).rev().collect::<Vec<_>>()}),
            );
            return;
        }
    }
    // a victim that is still connected keeps working: whatever the hostile slices left behind on its unreliable channel is
    // an incomplete fragment at most, so after more than 3 s without any arrival and a full drain the channel accounts
    // nothing (a reservation that outlives this is lost budget: honest messages are refused for the rest of the session)
    if !sim.disconnected(victim, role) && !out.should_stop() {
        let id = sim.ids[victim];
        let quiet = watchdog::catch(|| {
            let dt = std::time::Duration::from_millis(3100);
            match role {
                Side::Client => {
                    sim.clients[victim].update(dt);
                    for spec in chans.iter() {
                        while sim.clients[victim].receive_message(spec.id).is_some() {}
                    }
                }
                Side::Server => {
                    sim.server.update(dt);
                    for spec in chans.iter() {
                        while sim.server.receive_message(id, spec.id).is_some() {}
                    }
                }
            }
        });
        if let Err(c) = quiet {
            report_later_panic(ctx, out, &sim, &c, run_seed, &history, "update / receive_message after the hostile phase");
            return;
        }
        if let Some(e) = sim.endpoint(victim, role) {
            if !e.is_disconnected() {
                out.count("victim_quiet_3s_and_drained");
                let held = e.verif_receive_memory(CH_U).unwrap_or(0);
                if held > 0 {
                    out.violation(
                        ctx,
                        "C06/unreliable-receive-budget-lost-after-hostile-slices",
                        "subsequent API calls on that endpoint keep working and the memory accounted to partially reassembled data stays within what is really buffered",
                        format!("the victim stayed connected; 3.1 s after the last arrival and a full drain its unreliable channel still accounts {} bytes", held),
                        json!({"property": "C06", "engine": ctx.engine, "run_seed": format!("{:#x}", run_seed), "role": format!("{:?}", role), "state": state,
                               "history_tail": history.iter().rev().take(30).rev().collect::<Vec<_>>()}),
                    );
                    return;
                }
            }
        }
    }
    if out.samples.len() < out.max_samples {
        out.sample(json!({"run_seed": format!("{:#x}", run_seed), "role": format!("{:?}", role), "state": state, "injected": injected,
                          "victim_end_status": format!("{:?}", status_of(&sim, victim, role)), "first_injections": history.iter().take(6).collect::<Vec<_>>()}));
    }
}

fn report_later_panic(ctx: &Ctx, out: &mut Outcome, _sim: &Sim, c: &watchdog::Caught, run_seed: u64, history: &[String], what: &str) {
    out.violation(
        ctx,
        &format!("C06/panic-later/{}", c.class),
        "subsequent API calls on that endpoint and on the server's other connections keep working",
        format!("{} panicked: {} at {}", what, c.msg, c.loc),
        json!({"property": "C06", "engine": ctx.engine, "run_seed": format!("{:#x}", run_seed), "what": what,
               "history_tail": history.iter().rev().take(30).rev().collect::<Vec<_>>()}),
    );
}
