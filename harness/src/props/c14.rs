//! C14 — the per-tick bandwidth budget is respected, in channel priority order.
//!
//! The monitor looks at every `get_packets_to_send` call (`Ev::SendCall`), decodes the packets
//! with the crate's own decoder, attributes *message payload bytes* (never headers, never ack
//! packets) to channels and evaluates three conditions. With `A = available_bytes_per_tick`,
//! channels `c1..cn` in configuration order and `used[i]` = payload bytes of `ci` in this call:
//!
//!  (1) `Σ used <= A`.
//!  (2) reliable `ci`: every item `m` (a small message, or one slice of a sliced message) that is
//!      **due** (never sent, or last sent >= resend_time ago), **certainly unacknowledged** and
//!      **not in this call's output** satisfies `A − Σ_{j<=i} used[j] < size(m)`, size = message
//!      length for a small message and 1200 for a slice ("what does not fit waits, slice by
//!      slice").
//!  (3) unreliable `ci`: every message queued since the previous call is in the output entirely
//!      or not at all; if absent, `A − Σ_{j<=i} used[j] < len(m)`; a wire message that was not
//!      queued for this call (e.g. one dropped earlier) must not appear.
//!
//! All three are *necessary* consequences of the statement, independent of the iteration order
//! inside a channel:
//!  * The residual in (2)/(3) is what was left **after the channel itself was served**. Whatever
//!    the order in which a channel looks at its own items, the bytes available at the moment an
//!    item was skipped are >= that residual (the budget only shrinks during a call), so "skipped
//!    for lack of budget" implies `residual < size`. This is the weakest necessary condition; a
//!    stronger one (residual at the moment of the skip) would depend on the iteration order.
//!    Bytes used by *later* channels are not subtracted: a higher-priority channel that left an
//!    item waiting although the bytes it left (and later channels consumed) would have carried it
//!    violates "each later channel getting only what earlier ones left".
//!  * "Certainly unacknowledged": small messages — the id is still listed by `verif_unacked`
//!    (exact). Slices — the id is listed **and** no Ack packet delivered to the sender ever
//!    covered a packet that carried this slice (the 3 s sent-packet horizon makes "covered" a
//!    may-be-acknowledged; such slices are skipped, never judged).
//!  * "Due" uses the harness' own record of when the item was last seen on the wire; virtual time
//!    advances identically for the harness and the endpoint.
//!  * size(slice) = 1200 also for a shorter last slice, as the statement's "slice by slice"
//!    granularity (DESIGN C14); a 0-byte message is due and must be sent even with A = 0.
//!
//! Signatures:
//!   C14/over-budget
//!   C14/reliable-due-item-not-sent/{small|slice}
//!   C14/unreliable-partial
//!   C14/unreliable-dropped-although-it-fitted
//!   C14/unreliable-dropped-reappears          (equals a message dropped in an earlier call)
//!   C14/unreliable-not-queued-for-this-call   (any other wire message that was not queued)

use crate::link::{LinkCfg, Profile};
use crate::oracles::SizeMonitor;
use crate::outcome::{Ctx, Outcome, PropInfo};
use crate::payload;
use crate::rng::{fnv1a, Rng};
use crate::rsim::{ChanSpec, DrainMode, DtMode, Ev, Kind, Monitor, Sim, SimCfg, DOWN, UP};
use crate::traffic::CoverageMonitor;
use bytes::Bytes;
use renet::verif::Packet;
use serde_json::json;
use std::collections::{BTreeMap, BTreeSet, HashMap, HashSet};

pub const BUDGETS: [u64; 8] = [0, 1, 100, 1199, 1200, 1201, 2500, 60_000];

pub static INFO: PropInfo = PropInfo {
    id: "C14",
    level: "exploration",
    rule: "one evaluation = one simulated session (1-2 connections, both directions) with available_bytes_per_tick drawn from {0, 1, 100, 1199, 1200, 1201, 2500, 60000}, 1-4 channels per direction of all three kinds in random order (resend 0/10/100/300 ms), message lengths centred on the budget (A-1, A, A+1), on 0/1 and on the slice boundaries (1199..1201, 2399..2401, k*1200-1/0/+1) plus random small and sliced ones, lossy / blackout / lose-first links so that retransmission backlogs compete with fresh messages, sometimes several get_packets_to_send calls per tick, and in half of the sessions 25-50 % of the (endpoint, tick) pairs without any (the next call then follows two or more update() calls). Every call is decoded and judged by the three necessary conditions (sum <= budget; a due, certainly unacknowledged reliable item left out would not have fitted into what its channel left; an unreliable message is whole or absent, absent only if it would not have fitted, never resurrected). One run in 16 is a SLICE-TURNS run: one sliced reliable message of n slices, a budget of 1-4 slices per call, resend times of 0-50 ms and no acknowledgements at all (already-sent slices become due again before the others had their first turn): within ceil(n / slices per call) + 2 calls every slice must have been transmitted at least once. Non-trivial = at least one item waited or was dropped for lack of budget AND at least one retransmission happened AND at least two channels carried payload in the run; distinct = distinct event-log fingerprints.",
    assumptions: &[
        "message payload bytes = lengths of the messages / slice payloads found by the crate's own decoder in the packets of the call (headers and ack packets are not counted, as in the statement)",
        "a slice that any delivered Ack packet may have acknowledged is never judged (the sent-packet table forgets packets after 3 s, so such an ack may or may not have been effective)",
        "the residual compared against is the budget left after the channel itself was served (weakest necessary condition, independent of the order inside a channel)",
        "calls of a sender that is disconnected after the call are not judged (nothing is emitted by design, C12)",
    ],
    gates: &[
        ("calls_judged", 5000),
        ("slice_turn_runs", 20),
        ("budget.0", 200),
        ("budget.1", 200),
        ("budget.100", 200),
        ("budget.1199", 200),
        ("budget.1200", 200),
        ("budget.1201", 200),
        ("budget.2500", 200),
        ("budget.60000", 200),
        ("reliable_small_waits_for_budget", 200),
        ("reliable_slice_waits_for_budget", 200),
        ("reliable_item_not_due", 200),
        ("unreliable_dropped_whole", 200),
        ("unreliable_sent_whole_small", 200),
        ("unreliable_sent_whole_sliced", 50),
        ("later_channel_starved_by_earlier", 100),
        ("later_channel_used_leftover", 100),
        ("call_exactly_exhausted_budget", 20),
        ("sliced_message_spread_over_calls", 50),
        ("retransmissions", 200),
        ("slice_possibly_acked_skipped", 20),
        ("zero_length_sent_with_zero_residual", 5),
    ],
    engines_quick: &["e1"],
    engines_thorough: &["e1"],
    run,
};

pub fn run(ctx: &Ctx, out: &mut Outcome) {
    super::run_loop(ctx, out, 8000, 300_000, 14, one_run);
}

#[derive(Default)]
struct RelCh {
    /// accepted submissions; wire message id = index
    lens: Vec<usize>,
    last_sent: HashMap<(u64, usize), u64>,
    maybe_acked: HashSet<(u64, usize)>,
    /// message id -> call numbers in which one of its slices went out for the first time
    first_sends: HashMap<u64, BTreeSet<u64>>,
    confused: bool,
}

#[derive(Default)]
struct UnrelCh {
    queued: Vec<Vec<u8>>,
    dropped: HashSet<u64>,
}

#[derive(Default)]
struct Shadow {
    rel: BTreeMap<u8, RelCh>,
    unrel: BTreeMap<u8, UnrelCh>,
    /// packet sequence -> (channel, message id, slice index) for reliable slice packets
    carriers: BTreeMap<u64, (u8, u64, usize)>,
    calls: u64,
    carried_payload: BTreeSet<u8>,
}

#[derive(Default)]
pub struct BudgetMonitor {
    sh: BTreeMap<(usize, u8), Shadow>,
}

impl BudgetMonitor {
    pub fn new() -> Self {
        Self::default()
    }

    #[allow(clippy::too_many_arguments)]
    fn check_call(&mut self, conn: usize, dir: u8, now_ms: u64, decoded: &[Option<Packet>], sim: &Sim, ctx: &Ctx, out: &mut Outcome) {
        let sh = self.sh.entry((conn, dir)).or_default();
        sh.calls += 1;
        let call_no = sh.calls;
        let Some(sender) = sim.sender(conn, dir) else { return };
        if sender.is_disconnected() {
            out.count("calls_of_disconnected_sender_skipped");
            for u in sh.unrel.values_mut() {
                u.queued.clear();
            }
            return;
        }
        let a = sim.cfg.bytes_per_tick as i128;
        let chans = sim.cfg.chans(dir);

        // ---- attribution -------------------------------------------------------------------
        let mut used: BTreeMap<u8, u64> = BTreeMap::new();
        let mut rel_out: HashSet<(u8, u64, usize)> = HashSet::new();
        let mut unrel_small: BTreeMap<u8, Vec<&Bytes>> = BTreeMap::new();
        let mut unrel_slices: BTreeMap<(u8, u64), Vec<(usize, usize, &Bytes)>> = BTreeMap::new();
        for p in decoded.iter() {
            let Some(p) = p else {
                out.count("undecodable_own_packet_call_skipped");
                return;
            };
            match p {
                Packet::SmallReliable { channel_id, messages, .. } => {
                    for (id, m) in messages {
                        *used.entry(*channel_id).or_insert(0) += m.len() as u64;
                        rel_out.insert((*channel_id, *id, 0));
                        let rc = sh.rel.entry(*channel_id).or_default();
                        if rc.lens.get(*id as usize).copied() != Some(m.len()) {
                            rc.confused = true;
                        }
                    }
                }
                Packet::ReliableSlice { sequence, channel_id, slice } => {
                    *used.entry(*channel_id).or_insert(0) += slice.payload.len() as u64;
                    rel_out.insert((*channel_id, slice.message_id, slice.slice_index));
                    sh.carriers.insert(*sequence, (*channel_id, slice.message_id, slice.slice_index));
                    let rc = sh.rel.entry(*channel_id).or_default();
                    match rc.lens.get(slice.message_id as usize).copied() {
                        Some(l) if l > 1200 && l.div_ceil(1200) == slice.num_slices && slice.slice_index < slice.num_slices => {}
                        _ => rc.confused = true,
                    }
                }
                Packet::SmallUnreliable { channel_id, messages, .. } => {
                    for m in messages {
                        *used.entry(*channel_id).or_insert(0) += m.len() as u64;
                        unrel_small.entry(*channel_id).or_default().push(m);
                    }
                }
                Packet::UnreliableSlice { channel_id, slice, .. } => {
                    *used.entry(*channel_id).or_insert(0) += slice.payload.len() as u64;
                    unrel_slices.entry((*channel_id, slice.message_id)).or_default().push((slice.slice_index, slice.num_slices, &slice.payload));
                }
                Packet::Ack { .. } => {}
            }
        }
        out.count("calls_judged");
        out.count(&format!("budget.{}", a));
        let total: u64 = used.values().sum();
        for (ch, u) in used.iter() {
            if *u > 0 && sh.carried_payload.insert(*ch) {
                out.count("channels_that_carried_payload");
            }
        }
        let describe_used = |used: &BTreeMap<u8, u64>| -> Vec<String> { chans.iter().map(|c| format!("ch{}({})={}", c.id, c.kind.short(), used.get(&c.id).copied().unwrap_or(0))).collect() };

        // ---- (1) ---------------------------------------------------------------------------
        let mut judge_rest = true;
        if total as i128 > a {
            judge_rest = false;
            let r = sim.replay_value(
                &ctx.prop,
                &ctx.engine,
                "payload bytes of one get_packets_to_send call <= available_bytes_per_tick",
                json!({"conn": conn, "dir": dir, "budget": a as u64, "payload_bytes": total, "per_channel_in_config_order": describe_used(&used)}),
            );
            out.violation(
                ctx,
                "C14/over-budget",
                "sum of message payload bytes of the call <= available_bytes_per_tick",
                format!("conn {} dir {}: one call carried {} payload bytes with a budget of {} ({:?})", conn, dir, total, a, describe_used(&used)),
                r,
            );
        } else if total as i128 == a && a > 0 {
            out.count("call_exactly_exhausted_budget");
        }

        // ---- (2), (3) in configuration order ---------------------------------------------------
        let mut cum: i128 = 0;
        let mut earlier_used: u64 = 0;
        for (pos, spec) in chans.iter().enumerate() {
            let u = used.get(&spec.id).copied().unwrap_or(0);
            cum += u as i128;
            let resid = a - cum;
            let mut waited_here = 0u64;
            if spec.kind.reliable() {
                let rc = sh.rel.entry(spec.id).or_default();
                if judge_rest && !rc.confused {
                    let unacked = sender.verif_unacked(spec.id).unwrap_or_default();
                    for id in unacked {
                        let Some(&len) = rc.lens.get(id as usize) else {
                            rc.confused = true;
                            break;
                        };
                        let sliced = len > 1200;
                        let n = if sliced { len.div_ceil(1200) } else { 1 };
                        for k in 0..n {
                            if rel_out.contains(&(spec.id, id, k)) {
                                continue;
                            }
                            if sliced && rc.maybe_acked.contains(&(id, k)) {
                                out.count("slice_possibly_acked_skipped");
                                continue;
                            }
                            let due = match rc.last_sent.get(&(id, k)) {
                                None => true,
                                Some(t) => now_ms - *t >= spec.resend_ms,
                            };
                            if !due {
                                out.count("reliable_item_not_due");
                                continue;
                            }
                            let size = if sliced { 1200 } else { len };
                            if resid >= size as i128 {
                                let what = if sliced { "slice" } else { "small" };
                                let never = !rc.last_sent.contains_key(&(id, k));
                                let r = sim.replay_value(
                                    &ctx.prop,
                                    &ctx.engine,
                                    "what does not fit waits: a due unacknowledged item is left out only if it does not fit into what its channel left",
                                    json!({"conn": conn, "dir": dir, "channel": spec.id, "position_in_config_order": pos, "message_id": id, "slice": k, "message_len": len,
                                           "size": size, "never_sent": never, "budget": a as u64, "left_after_this_channel": resid as i64,
                                           "per_channel_in_config_order": describe_used(&used), "now_ms": now_ms, "last_sent_ms": rc.last_sent.get(&(id, k))}),
                                );
                                out.violation(
                                    ctx,
                                    &format!("C14/reliable-due-item-not-sent/{}", what),
                                    "a due, unacknowledged item that fits into what its channel left is sent",
                                    format!(
                                        "conn {} dir {} ch {} (position {}): message {} {} (size {}) is due and unacknowledged, was not sent, yet {} bytes of the budget {} were left after this channel ({:?})",
                                        conn,
                                        dir,
                                        spec.id,
                                        pos,
                                        id,
                                        if sliced { format!("slice {}", k) } else { "small".into() },
                                        size,
                                        resid,
                                        a,
                                        describe_used(&used)
                                    ),
                                    r,
                                );
                                rc.confused = true; // one report per channel and run is enough
                            } else {
                                waited_here += 1;
                                if sliced {
                                    out.count("reliable_slice_waits_for_budget");
                                } else {
                                    out.count("reliable_small_waits_for_budget");
                                }
                            }
                        }
                        if rc.confused {
                            break;
                        }
                    }
                } else if rc.confused {
                    out.count("reliable_channel_not_judged_shadow_out_of_step");
                }
            } else {
                let uc = sh.unrel.entry(spec.id).or_default();
                let queued = std::mem::take(&mut uc.queued);
                if judge_rest {
                    let mut matched = vec![false; queued.len()];
                    // wire messages of this channel: small ones and reassembled sliced ones
                    let mut wire: Vec<(Vec<u8>, bool)> = unrel_small.get(&spec.id).map_or(Vec::new(), |v| v.iter().map(|m| (m.to_vec(), false)).collect());
                    for ((ch, mid), parts) in unrel_slices.iter() {
                        if *ch != spec.id {
                            continue;
                        }
                        let num = parts[0].1;
                        let mut idx: Vec<usize> = parts.iter().map(|p| p.0).collect();
                        idx.sort_unstable();
                        let complete = parts.iter().all(|p| p.1 == num) && idx == (0..num).collect::<Vec<_>>();
                        if !complete {
                            let r = sim.replay_value(
                                &ctx.prop,
                                &ctx.engine,
                                "an unreliable message is dropped whole, never sent in part",
                                json!({"conn": conn, "dir": dir, "channel": spec.id, "sliced_message_id": mid, "num_slices": num, "slice_indexes_in_call": idx, "budget": a as u64}),
                            );
                            out.violation(
                                ctx,
                                "C14/unreliable-partial",
                                "an unreliable message is present entirely or absent entirely",
                                format!("conn {} dir {} ch {}: only slices {:?} of {} of unreliable message {} are in the call (budget {})", conn, dir, spec.id, idx, num, mid, a),
                                r,
                            );
                            // consume the queued message it belongs to (first slice identifies it)
                            if let Some(first) = parts.iter().find(|p| p.0 == 0) {
                                if let Some(q) = (0..queued.len()).find(|q| !matched[*q] && queued[*q].len() > 1200 && queued[*q][..first.2.len().min(queued[*q].len())] == first.2[..]) {
                                    matched[q] = true;
                                }
                            }
                            continue;
                        }
                        let mut sorted: Vec<&(usize, usize, &Bytes)> = parts.iter().collect();
                        sorted.sort_by_key(|p| p.0);
                        let mut whole = Vec::new();
                        for p in sorted {
                            whole.extend_from_slice(p.2);
                        }
                        wire.push((whole, true));
                    }
                    for (m, sliced) in wire.iter() {
                        match (0..queued.len()).find(|q| !matched[*q] && queued[*q] == *m) {
                            Some(q) => {
                                matched[q] = true;
                                if *sliced {
                                    out.count("unreliable_sent_whole_sliced");
                                } else {
                                    out.count("unreliable_sent_whole_small");
                                }
                            }
                            None => {
                                let h = fnv1a(m);
                                let (sig, what) = if uc.dropped.contains(&h) {
                                    ("C14/unreliable-dropped-reappears", "equals a message that was dropped in an earlier call")
                                } else {
                                    ("C14/unreliable-not-queued-for-this-call", "was not queued since the previous call")
                                };
                                let r = sim.replay_value(
                                    &ctx.prop,
                                    &ctx.engine,
                                    "an unreliable message that did not fit is dropped, it never appears in a later call",
                                    json!({"conn": conn, "dir": dir, "channel": spec.id, "len": m.len(), "head": crate::rng::hex(&m[..m.len().min(32)]), "queued_lens": queued.iter().map(|q| q.len()).collect::<Vec<_>>()}),
                                );
                                out.violation(ctx, sig, "only messages queued for this call are on the wire of an unreliable channel", format!("conn {} dir {} ch {}: a {}-byte unreliable message on the wire {}", conn, dir, spec.id, m.len(), what), r);
                            }
                        }
                    }
                    for (q, m) in queued.iter().enumerate() {
                        if matched[q] {
                            continue;
                        }
                        uc.dropped.insert(fnv1a(m));
                        if resid >= m.len() as i128 {
                            let r = sim.replay_value(
                                &ctx.prop,
                                &ctx.engine,
                                "an unreliable message is dropped only if it does not fit into what its channel left",
                                json!({"conn": conn, "dir": dir, "channel": spec.id, "position_in_config_order": pos, "len": m.len(), "budget": a as u64,
                                       "left_after_this_channel": resid as i64, "per_channel_in_config_order": describe_used(&used), "queued_lens": queued.iter().map(|q| q.len()).collect::<Vec<_>>()}),
                            );
                            out.violation(
                                ctx,
                                "C14/unreliable-dropped-although-it-fitted",
                                "an unreliable message is dropped only if it does not fit",
                                format!("conn {} dir {} ch {} (position {}): a queued {}-byte unreliable message is absent although {} bytes of the budget {} were left after this channel ({:?})", conn, dir, spec.id, pos, m.len(), resid, a, describe_used(&used)),
                                r,
                            );
                        } else {
                            waited_here += 1;
                            out.count("unreliable_dropped_whole");
                        }
                    }
                }
            }
            if waited_here > 0 && earlier_used > 0 {
                out.count("later_channel_starved_by_earlier");
            }
            if pos > 0 && u > 0 && earlier_used > 0 {
                out.count("later_channel_used_leftover");
            }
            earlier_used += u;
        }

        // ---- shadow update -------------------------------------------------------------------
        for (ch, id, k) in rel_out.iter() {
            let rc = sh.rel.entry(*ch).or_default();
            let first = rc.last_sent.insert((*id, *k), now_ms).is_none();
            let len = rc.lens.get(*id as usize).copied().unwrap_or(0);
            if len == 0 && first && a == total as i128 {
                out.count("zero_length_sent_with_zero_residual");
            }
            if first && len > 1200 {
                let s = rc.first_sends.entry(*id).or_default();
                s.insert(call_no);
                if s.len() == 2 {
                    out.count("sliced_message_spread_over_calls");
                }
            }
        }
    }
}

impl Monitor for BudgetMonitor {
    fn name(&self) -> &'static str {
        "budget"
    }
    fn on(&mut self, ev: &Ev, sim: &Sim, ctx: &Ctx, out: &mut Outcome) {
        match ev {
            Ev::Submit {
                conn,
                dir,
                ch,
                bytes,
                accepted,
            } => {
                if !*accepted {
                    out.count("submission_refused_by_memory_limit");
                    return;
                }
                let Some(spec) = sim.cfg.chan(*dir, *ch) else { return };
                let sh = self.sh.entry((*conn, *dir)).or_default();
                if spec.kind.reliable() {
                    sh.rel.entry(*ch).or_default().lens.push(bytes.len());
                } else {
                    sh.unrel.entry(*ch).or_default().queued.push(bytes.to_vec());
                }
            }
            Ev::Arrive {
                conn,
                dir,
                decoded: Some(Packet::Ack { ack_ranges, .. }),
                receiver_disconnected: false,
                ..
            } => {
                // the receiver of direction `dir` is the sender of the opposite direction
                let sh = self.sh.entry((*conn, 1 - *dir)).or_default();
                for r in ack_ranges.iter() {
                    let hit: Vec<(u8, u64, usize)> = sh.carriers.range(r.clone()).map(|(_, v)| *v).collect();
                    for (ch, id, k) in hit {
                        sh.rel.entry(ch).or_default().maybe_acked.insert((id, k));
                    }
                }
            }
            Ev::SendCall {
                conn, dir, now_ms, decoded, ..
            } => self.check_call(*conn, *dir, *now_ms, decoded, sim, ctx, out),
            _ => {}
        }
    }
}

// ------------------------------------------------------------------------------------------------
// workload
// ------------------------------------------------------------------------------------------------

fn gen_chans(r: &mut Rng) -> Vec<ChanSpec> {
    let n = r.urange(1, 4);
    let mut ids = vec![0u8, 1, 2, 3, 7, 9];
    r.shuffle(&mut ids);
    let mut v = Vec::new();
    for k in 0..n {
        let kind = *r.pick(&[Kind::Unreliable, Kind::ReliableOrdered, Kind::ReliableUnordered]);
        v.push(ChanSpec {
            id: ids[k],
            kind,
            resend_ms: *r.pick(&[0u64, 10, 100, 300]),
            max_mem: *r.pick(&[16 * 1024usize, 64 * 1024, 256 * 1024]),
        });
    }
    v
}

pub fn gen_cfg(r: &mut Rng, budget: u64) -> SimCfg {
    let n_clients = r.urange(1, 2);
    let dt = match r.below(5) {
        0 => DtMode::Fixed(1),
        1 => DtMode::Fixed(16),
        2 => DtMode::Fixed(100),
        3 => DtMode::Fixed(300),
        _ => DtMode::Irregular(1, 150),
    };
    let profiles = [Profile::Clean, Profile::Light, Profile::Heavy, Profile::LoseFirst, Profile::Blackout, Profile::Chaos, Profile::DupHeavy, Profile::ReorderHeavy];
    let mut link_up = Vec::new();
    let mut link_down = Vec::new();
    for _ in 0..n_clients {
        link_up.push(LinkCfg::from_profile(*r.pick(&profiles), r));
        link_down.push(LinkCfg::from_profile(*r.pick(&profiles), r));
    }
    SimCfg {
        n_clients,
        up: gen_chans(r),
        down: gen_chans(r),
        bytes_per_tick: budget,
        dt,
        drain: if r.chance(1, 2) { DrainMode::EveryTick } else { DrainMode::AfterEveryArrival },
        link_up,
        link_down,
        shuffle_phases: r.chance(1, 2),
        skip_send_pct: *r.pick(&[0u64, 0, 25, 50]),
        library_default: false,
    }
}

fn pick_len(r: &mut Rng, a: u64, cap: usize) -> usize {
    let a = a.min(20_000) as usize;
    let v = match r.below(16) {
        0 => 0,
        1 => 1,
        2 => a,
        3 => a + 1,
        4 => a.saturating_sub(1),
        5 => r.urange(1189, 1201),
        6 => r.urange(2399, 2401),
        7 => (r.urange(2, 8) * 1200 + r.urange(0, 2)).saturating_sub(1),
        8 | 9 => r.urange(0, a.min(3000)),
        10 | 11 => r.urange(2, 100),
        12 | 13 => r.urange(100, 1200),
        14 => a / 2 + r.urange(0, 2),
        _ => r.urange(1201, 6000),
    };
    v.min(cap)
}

/// "What does not fit waits for a later tick (slice by slice)": one sliced reliable message larger than the tick budget,
/// nothing else queued, no acknowledgement ever arrives (so already-sent slices become due again while others have not
/// had their first turn). Within ceil(n / slices-per-tick) + 2 calls every slice must have been transmitted at least
/// once: the budget of a later tick goes to what did not fit before.
fn slice_turns(ctx: &Ctx, out: &mut Outcome, run_seed: u64, r: &mut Rng) {
    use bytes::Bytes;
    use renet::{ChannelConfig, ConnectionConfig, RenetClient, SendType};
    use std::time::Duration;
    let per_tick = r.urange(1, 4);
    let budget = (per_tick * 1200 + r.urange(0, 1199)) as u64;
    let n = per_tick + r.urange(2, 16);
    let resend = *r.pick(&[0u64, 16, 50]);
    let dt = *r.pick(&[16u64, 50, 100]);
    let ordered = r.chance(1, 2);
    let st = if ordered { SendType::ReliableOrdered { resend_time: Duration::from_millis(resend) } } else { SendType::ReliableUnordered { resend_time: Duration::from_millis(resend) } };
    let chans = vec![ChannelConfig { channel_id: 3, max_memory_usage_bytes: 1 << 20, send_type: st }];
    let mut c = RenetClient::new(ConnectionConfig { available_bytes_per_tick: budget, server_channels_config: chans.clone(), client_channels_config: chans });
    c.set_connected();
    let len = (n - 1) * 1200 + r.urange(1, 1200);
    c.send_message(3, Bytes::from(vec![7u8; len]));
    let calls = n.div_ceil(per_tick) + 2;
    let mut seen = vec![0u32; n];
    let mut per_call: Vec<Vec<usize>> = Vec::new();
    for _ in 0..calls {
        let mut this = Vec::new();
        for p in c.get_packets_to_send() {
            if let Some(renet::verif::Packet::ReliableSlice { slice, .. }) = crate::rsim::decode(&p) {
                if slice.slice_index < n {
                    seen[slice.slice_index] += 1;
                    this.push(slice.slice_index);
                }
            }
        }
        per_call.push(this);
        c.update(Duration::from_millis(dt));
    }
    out.count("slice_turn_runs");
    out.eval(crate::rng::mix(&[0x5117, run_seed, n as u64, per_tick as u64]), true);
    let never: Vec<usize> = (0..n).filter(|i| seen[*i] == 0).collect();
    if !never.is_empty() {
        out.violation(
            ctx,
            "C14/slice-never-given-its-turn",
            "what does not fit waits for a later tick on reliable channels, slice by slice for sliced messages",
            format!("{} slices, budget {} bytes per call ({} slices), resend {} ms, tick {} ms, no acknowledgements: after {} calls slices {:?} were never transmitted; slices per call: {:?}", n, budget, per_tick, resend, dt, calls, never, per_call),
            json!({"property": "C14", "engine": ctx.engine, "run_seed": format!("{:#x}", run_seed), "mode": "slice-turns", "slices": n, "budget": budget, "per_call": per_call}),
        );
    }
}

pub fn one_run(ctx: &Ctx, out: &mut Outcome, run_seed: u64) {
    let mut r = Rng::new(run_seed);
    if ctx.replay_mode.as_deref() == Some("slice-turns") || (ctx.replay_mode.is_none() && (run_seed >> 5) % 16 == 0) {
        let mut r2 = Rng::new(run_seed ^ 0x5117);
        return slice_turns(ctx, out, run_seed, &mut r2);
    }
    // every shard walks through all budgets
    let budget = BUDGETS[(r.below(8)) as usize];
    let cfg = gen_cfg(&mut r, budget);
    let mut sim = Sim::new(cfg, run_seed);
    let mut mons: Vec<Box<dyn Monitor>> = vec![Box::new(BudgetMonitor::new()), Box::new(CoverageMonitor::new()), Box::new(SizeMonitor { prop: "C13" })];
    let tag = r.next_u64();
    let retx_before = out.get("retransmissions");
    let carried_before = out.get("channels_that_carried_payload");
    let waits_before = out.get("reliable_small_waits_for_budget") + out.get("reliable_slice_waits_for_budget") + out.get("unreliable_dropped_whole");
    let fault_ticks = r.range(15, if ctx.thorough() { 160 } else { 70 });
    let tail = r.range(5, 30);
    let rate = *r.pick(&[1u64, 2, 4]);
    let extra_calls = r.chance(1, 3);
    for t in 0..fault_ticks + tail {
        if t == fault_ticks {
            sim.heal(&mut mons, ctx, out);
        }
        for c in 0..sim.cfg.n_clients {
            for d in [UP, DOWN] {
                let mut n = r.below(rate + 1);
                if r.chance(1, 10) {
                    n += r.range(2, 10);
                }
                for _ in 0..n {
                    let chans: Vec<(u8, usize)> = sim.cfg.chans(d).iter().map(|s| (s.id, s.max_mem)).collect();
                    let (ch, mem) = *r.pick(&chans);
                    let len = pick_len(&mut r, budget, mem / 3);
                    if !sim.within_window(c, d, ch, len) {
                        out.count("submit_deferred_window");
                        continue;
                    }
                    let idx = sim.next_index(c, d, ch);
                    let bytes = payload::make(c as u8, d, ch, 0, idx, len, tag);
                    sim.submit(c, d, ch, bytes, &mut mons, ctx, out);
                }
            }
        }
        sim.tick(&mut mons, ctx, out);
        if extra_calls && r.chance(1, 3) {
            // a second call in the same tick: no time passes, the budget is per call
            let c = r.usize_below(sim.cfg.n_clients);
            let d = if r.chance(1, 2) { UP } else { DOWN };
            out.count("extra_call_same_tick");
            sim.do_send(c, d, &mut mons, ctx, out);
        }
        if out.should_stop() {
            break;
        }
    }
    sim.finish(&mut mons, ctx, out);
    for c in 0..sim.cfg.n_clients {
        if sim.any_disconnected(c) {
            out.count("runs_with_a_disconnected_endpoint");
            for side in [crate::rsim::Side::Client, crate::rsim::Side::Server] {
                if let Some(reason) = sim.reason(c, side) {
                    // not judged here (C09 / C06 territory: F2-F4 can disconnect long lossy runs); counted by cause and channel kind
                    let kind = match reason {
                        renet::DisconnectReason::ReceiveChannelError { channel_id, .. } => {
                            let d = if side == crate::rsim::Side::Client { DOWN } else { UP };
                            sim.cfg.chan(d, channel_id).map_or("?", |c| c.kind.short())
                        }
                        _ => "-",
                    };
                    out.count(&format!("disconnect.{:?}.{}", reason, kind).replace(' ', ""));
                }
            }
            break;
        }
    }
    let retx = out.get("retransmissions") - retx_before;
    let waits = out.get("reliable_small_waits_for_budget") + out.get("reliable_slice_waits_for_budget") + out.get("unreliable_dropped_whole") - waits_before;
    let multi = out.get("channels_that_carried_payload") - carried_before >= 2;
    let nontrivial = waits > 0 && retx > 0 && multi;
    out.eval(sim.fp.finish(), nontrivial);
    if nontrivial && out.samples.len() < out.max_samples {
        out.sample(json!({
            "run_seed": format!("{:#x}", run_seed),
            "cfg": sim.cfg.describe(),
            "ticks": sim.tick,
            "items_that_waited_or_were_dropped_for_budget": waits,
            "retransmissions": retx,
            "first_events": sim.log_head.iter().take(14).collect::<Vec<_>>(),
        }));
    }
}
