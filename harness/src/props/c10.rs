//! C10 Netcode connection table: unique ids, unique addresses, bounded by max_clients, matched
//! connect / disconnect events, lookups referring to the authenticated session, a full server
//! refusing handshakes without disturbing existing sessions (DESIGN section 4).
//!
//! Signature classes:
//!   C10/duplicate-id                       clients_id() repeats an id / ClientConnected for a connected id
//!   C10/duplicate-addr                     two connected ids share an address
//!   C10/over-capacity                      connected_clients() > max_clients (limit never lowered in the run)
//!   C10/disconnect-unmatched               ClientDisconnected without an unmatched ClientConnected of that id+address
//!   C10/disconnect-by-other-address        a datagram from address A disconnected the client at address B
//!   C10/table-mismatch                     clients_id() differs from {connected and not yet disconnected}
//!   C10/lookup-mismatch/addr               client_addr(id) is not the address the session was authenticated from
//!   C10/lookup-mismatch/user-data          user_data(id) / reported user data is not that of the session's token (F10)
//!   C10/lookup-mismatch/id                 the session runs under the keys of a token minted for another id
//!   C10/lookup-mismatch/session-key        the session runs under keys of no minted token
//!   C10/lookup-mismatch/payload-routing    a payload of the session is not surfaced for its id / not sent to its address
//!   C10/payload-misattributed              a surfaced payload names an id that is not at the source address
//!   C10/full-server/existing-session-disturbed   after a refused handshake an existing session no longer works
//!   C10/panic/<class>

use super::netproto_util::{a, challenge_of, report_panic, request_bytes, response_bytes, rkey, sealed, Blob, Hist};
use crate::nsim::{addr4, addr6, mint, open, Minted, OPacket, SResult, Srv};
use crate::outcome::{Ctx, Outcome, PropInfo};
use crate::rng::{fnv1a, Fnv, Rng};
use crate::watchdog::guarded;
use serde_json::json;
use std::collections::{BTreeMap, HashMap, HashSet};
use std::net::SocketAddr;
use std::time::Duration;

pub static INFO: PropInfo = PropInfo {
    id: "C10",
    level: "exploration",
    rule: "one evaluation = one run against a fresh secure server with max_clients 1..4, 2..6 identities (1..3 tokens each, same id / different user data and keys) and 2..6 source addresses, all handshakes hand-driven through the crate's codec: first the scripted situations (two half-open sessions for one id answered in both orders; one address presenting several tokens; k handshakes racing for the last free slot with responses in seeded order; responses echoing the challenge of another half-open session; a full server receiving complete fresh handshakes; set_max_clients raised and the new slots used), then 80..400 seeded operations (request, matching or cross response, client disconnect packet from the right or a wrong address, server disconnect, time steps of 10 ms..3 s with update_client on every id so that 2 s / 5 s timeouts fire - in a third of them a connection request (preferably another token of a connected id, from another address) is processed after the clock advanced and before the sweep, the order the transport works in -, keep-alive payloads, replays of any earlier datagram from its own or another address, re-minted tokens, set_max_clients raised; lowered only in the runs that do not assert the capacity clause). After EVERY call the connection-table model fed by the ServerResults is compared with clients_id / connected_clients / client_addr / user_data / is_client_connected, and sessions are probed with payloads in both directions (sealed under the keys of the token the session was created from). The request that arrives between the clock and the sweep is sometimes followed by its response at once (a whole handshake before the sweep), also from the address of a session that is connected right now - possibly one whose deadline has just passed and which the sweep has not removed yet. Client addresses include IPv6 link-local sources with scope ids / flow labels (the same ip and port under two scope ids are two addresses) and IPv4-mapped sources. Non-trivial = the run saw at least 2 simultaneously connected clients (or max_clients = 1), at least one disconnect and at least one refused handshake at a full server; distinct = distinct fingerprints of the (operation, result kind, table) history.",
    assumptions: &[
        "the capacity clause is asserted only in runs that never lower the limit (as the statement says)",
        "clients_id() is expected to equal the set {ClientConnected reported, ClientDisconnected not yet reported} after every call",
        "the session 'authenticated for an id' is identified by the token whose server-to-client key opens the keep-alive returned with ClientConnected",
    ],
    gates: &[
        ("connected_events", 2000),
        ("disconnected_events", 1000),
        ("disconnect.timeout", 100),
        ("disconnect.client_packet", 100),
        ("disconnect.server_call", 100),
        ("two_halfopen_one_id", 100),
        ("second_halfopen_same_id_refused", 50),
        ("one_addr_several_tokens", 100),
        ("race_last_slot", 100),
        ("race_losers_refused", 100),
        ("full_server_handshake_refused", 200),
        ("probes_ok", 2000),
        ("cross_response", 200),
        ("max_raised", 50),
        ("replays", 1000),
        ("max.simultaneous_clients", 4),
    ],
    engines_quick: &["e1"],
    engines_thorough: &["e1"],
    run,
};

pub fn run(ctx: &Ctx, out: &mut Outcome) {
    super::run_loop(ctx, out, 16_000, 600_000, 10, one_run);
}

struct Tok {
    m: Minted,
    req: Vec<u8>,
    up_seq: u64,
    last_blob: Option<Blob>,
}

impl Tok {
    fn id(&self) -> u64 {
        self.m.private.client_id
    }
    fn c2s(&self) -> [u8; 32] {
        self.m.private.client_to_server_key
    }
    fn s2c(&self) -> [u8; 32] {
        self.m.private.server_to_client_key
    }
}

struct Conn {
    addr: SocketAddr,
    ud: [u8; 256],
    tok: Option<usize>,
}

struct World {
    srv: Srv,
    protocol: u64,
    key: [u8; 32],
    saddr: SocketAddr,
    toks: Vec<Tok>,
    addrs: Vec<SocketAddr>,
    /// last token requested from an address (what an honest peer there would answer for)
    last_req: HashMap<SocketAddr, usize>,
    model: BTreeMap<u64, Conn>,
    lowered: bool,
    dgrams: Vec<(SocketAddr, Vec<u8>)>,
    hist: Hist,
    fp: Fnv,
    run_seed: u64,
    stop: bool,
    timeout: i32,
    disconnects: u64,
    full_refusals: u64,
    max_simul: usize,
}

impl World {
    fn violation(&mut self, ctx: &Ctx, out: &mut Outcome, sig: &str, clause: &str, detail: String) {
        let table: Vec<String> = self.srv.s.clients_id().iter().map(|id| format!("{}@{:?}", id, self.srv.s.client_addr(*id).map(a))).collect();
        let model: Vec<String> = self.model.iter().map(|(id, c)| format!("{}@{}", id, a(c.addr))).collect();
        out.violation(
            ctx,
            sig,
            clause,
            detail,
            json!({
                "property": "C10", "engine": ctx.engine, "run_seed": format!("{:#x}", self.run_seed),
                "server_table": table, "model": model, "max_clients": self.srv.s.max_clients(), "history": self.hist.json(),
            }),
        );
        // a wrong user data report does not corrupt the model: keep exploring (the same defect can
        // go on to produce a duplicate id)
        if sig != "C10/lookup-mismatch/user-data" {
            self.stop = true;
        }
    }

    fn new_token(&mut self, r: &mut Rng, id: u64) -> usize {
        let now = self.srv.now.as_secs();
        let life = r.range(20, 60);
        let m = mint(r, now, self.protocol, life, id, self.timeout, &[self.saddr], None, &self.key);
        let req = request_bytes(&m.token);
        self.toks.push(Tok { m, req, up_seq: 10, last_blob: None });
        self.toks.len() - 1
    }

    /// Feeds one ServerResult into the model. `from` = source address for process_packet results.
    fn on_result(&mut self, ctx: &Ctx, out: &mut Outcome, res: &SResult, from: Option<SocketAddr>, why: &str) {
        match res {
            SResult::Connected { client_id, addr, user_data, bytes } => {
                out.count("connected_events");
                if self.model.contains_key(client_id) {
                    let d = format!("ClientConnected{{id {}, addr {}}} while id {} is already connected at {}", client_id, a(*addr), client_id, a(self.model[client_id].addr));
                    return self.violation(ctx, out, "C10/duplicate-id", "connected clients have pairwise distinct ids", d);
                }
                if let Some((oid, _)) = self.model.iter().find(|(_, c)| c.addr == *addr) {
                    let d = format!("ClientConnected{{id {}, addr {}}} while id {} is connected at the same address", client_id, a(*addr), oid);
                    return self.violation(ctx, out, "C10/duplicate-addr", "connected clients have pairwise distinct addresses", d);
                }
                let tok = (0..self.toks.len()).find(|i| matches!(open(bytes, self.protocol, Some(&self.toks[*i].s2c())), Some((_, OPacket::KeepAlive { .. }))));
                self.model.insert(*client_id, Conn { addr: *addr, ud: **user_data, tok });
                match tok {
                    None => {
                        let d = format!("session of ClientConnected{{id {}}} runs under keys of no minted token", client_id);
                        return self.violation(ctx, out, "C10/lookup-mismatch/session-key", "lookups by id refer to the session authenticated for that id", d);
                    }
                    Some(t) => {
                        if self.toks[t].id() != *client_id {
                            let d = format!("ClientConnected{{id {}}} but the session runs under the keys of token #{} minted for id {}", client_id, t, self.toks[t].id());
                            return self.violation(ctx, out, "C10/lookup-mismatch/id", "lookups by id refer to the session authenticated for that id", d);
                        }
                        if self.toks[t].m.private.user_data != **user_data {
                            let d = format!(
                                "ClientConnected{{id {}, addr {}}} reports user data {:x}, the session's token #{} carries {:x}",
                                client_id,
                                a(*addr),
                                fnv1a(&user_data[..]),
                                t,
                                fnv1a(&self.toks[t].m.private.user_data)
                            );
                            return self.violation(ctx, out, "C10/lookup-mismatch/user-data", "lookups by id (user data) refer to the session authenticated for that id", d);
                        }
                    }
                }
            }
            SResult::Disconnected { client_id, addr, .. } => {
                out.count("disconnected_events");
                out.count(&format!("disconnect.{why}"));
                self.disconnects += 1;
                match self.model.get(client_id) {
                    Some(c) if c.addr == *addr => {
                        if let Some(f) = from {
                            if f != *addr {
                                let d = format!("a datagram from {} disconnected client {} at {}", a(f), client_id, a(*addr));
                                return self.violation(ctx, out, "C10/disconnect-by-other-address", "refused or foreign datagrams do not disturb existing sessions", d);
                            }
                        }
                        self.model.remove(client_id);
                    }
                    other => {
                        let d = format!("ClientDisconnected{{id {}, addr {}}} but the model has {:?}", client_id, a(*addr), other.map(|c| a(c.addr)));
                        self.violation(ctx, out, "C10/disconnect-unmatched", "every ClientDisconnected matches exactly one earlier unmatched ClientConnected with the same id and address", d);
                    }
                }
            }
            SResult::Payload { client_id, .. } => {
                let ok = from.is_some_and(|f| self.model.get(client_id).is_some_and(|c| c.addr == f));
                if !ok {
                    let d = format!("payload from {:?} attributed to client {} (model: {:?})", from.map(a), client_id, self.model.get(client_id).map(|c| a(c.addr)));
                    self.violation(ctx, out, "C10/payload-misattributed", "payload routing refers to the session authenticated for that id", d);
                }
            }
            _ => {}
        }
    }

    fn invariants(&mut self, ctx: &Ctx, out: &mut Outcome) {
        if self.stop {
            return;
        }
        out.count("invariant_checks");
        let ids = self.srv.s.clients_id();
        let set: HashSet<u64> = ids.iter().copied().collect();
        self.max_simul = self.max_simul.max(ids.len());
        out.max("simultaneous_clients", ids.len() as u64);
        if set.len() != ids.len() {
            let d = format!("clients_id() = {:?}", ids);
            return self.violation(ctx, out, "C10/duplicate-id", "connected clients have pairwise distinct ids", d);
        }
        let mut seen: HashMap<SocketAddr, u64> = HashMap::new();
        for id in ids.iter() {
            match self.srv.s.client_addr(*id) {
                None => {
                    let d = format!("client_addr({}) is None for an id listed by clients_id()", id);
                    return self.violation(ctx, out, "C10/lookup-mismatch/addr", "lookups by id refer to the session authenticated for that id", d);
                }
                Some(ad) => {
                    if let Some(o) = seen.insert(ad, *id) {
                        let d = format!("ids {} and {} are both connected at {}", o, id, a(ad));
                        return self.violation(ctx, out, "C10/duplicate-addr", "connected clients have pairwise distinct addresses", d);
                    }
                }
            }
        }
        let n = self.srv.s.connected_clients();
        if !self.lowered && n > self.srv.s.max_clients() {
            let d = format!("connected_clients() = {} > max_clients() = {}", n, self.srv.s.max_clients());
            return self.violation(ctx, out, "C10/over-capacity", "at most max_clients are connected while the limit is not lowered", d);
        }
        let mset: HashSet<u64> = self.model.keys().copied().collect();
        if set != mset || n != ids.len() {
            let d = format!("clients_id() = {:?} (connected_clients() = {}), but connected-and-not-disconnected by the reported events = {:?}", ids, n, self.model.keys().collect::<Vec<_>>());
            return self.violation(ctx, out, "C10/table-mismatch", "the reported connected set agrees with the ClientConnected / ClientDisconnected events", d);
        }
        let mut bad: Option<(&'static str, String)> = None;
        for (id, c) in self.model.iter() {
            if self.srv.s.client_addr(*id) != Some(c.addr) {
                bad = Some(("C10/lookup-mismatch/addr", format!("client_addr({}) = {:?}, session was authenticated from {}", id, self.srv.s.client_addr(*id).map(a), a(c.addr))));
            } else if self.srv.s.user_data(*id) != Some(c.ud) {
                bad = Some(("C10/lookup-mismatch/user-data", format!("user_data({}) differs from the user data reported when the session connected", id)));
            } else if !self.srv.s.is_client_connected(*id) {
                bad = Some(("C10/table-mismatch", format!("is_client_connected({}) is false for a listed id", id)));
            }
        }
        if let Some((sig, d)) = bad {
            self.violation(ctx, out, sig, "lookups by id refer to the session authenticated for that id", d);
        }
    }

    fn deliver(&mut self, ctx: &Ctx, out: &mut Outcome, from: SocketAddr, bytes: &[u8], tag: &str, why: &str) -> SResult {
        if self.stop {
            return SResult::None;
        }
        let res = match guarded("NetcodeServer::process_packet", bytes, || self.srv.process(from, bytes)) {
            Ok(r) => r,
            Err(c) => {
                report_panic(ctx, out, "C10", "NetcodeServer::process_packet", bytes, &c, self.run_seed, "run", &self.hist);
                self.stop = true;
                return SResult::None;
            }
        };
        self.fp.bytes(tag.as_bytes());
        self.fp.bytes(res.kind().as_bytes());
        self.fp.u64(self.srv.s.connected_clients() as u64);
        self.hist.push(format!("t={:.2} {} from {} -> {}{}", self.srv.now.as_secs_f64(), tag, a(from), res.kind(), match &res {
            SResult::Connected { client_id, .. } | SResult::Disconnected { client_id, .. } | SResult::Payload { client_id, .. } => format!(" id {}", client_id),
            _ => String::new(),
        }));
        if self.dgrams.len() < 400 {
            self.dgrams.push((from, bytes.to_vec()));
        }
        self.on_result(ctx, out, &res, Some(from), why);
        self.invariants(ctx, out);
        res
    }

    fn request(&mut self, ctx: &Ctx, out: &mut Outcome, t: usize, from: SocketAddr) -> bool {
        let req = self.toks[t].req.clone();
        self.last_req.insert(from, t);
        let res = self.deliver(ctx, out, from, &req, &format!("request(token#{} id {})", t, self.toks[t].id()), "request");
        if let Some((dst, reply)) = res.outgoing() {
            if dst == from {
                if let Some(b) = challenge_of(reply, self.protocol, &self.toks[t].s2c()) {
                    self.toks[t].last_blob = Some(b);
                    return true;
                }
            }
        }
        false
    }

    /// Response from `from` sealed under token `seal` echoing the last challenge given to token `bt`.
    fn respond(&mut self, ctx: &Ctx, out: &mut Outcome, from: SocketAddr, seal: usize, bt: usize) -> SResult {
        let Some(b) = self.toks[bt].last_blob.clone() else { return SResult::None };
        let d = response_bytes(self.protocol, 1, &self.toks[seal].c2s(), &b);
        if seal != bt {
            out.count("cross_response");
        }
        self.deliver(ctx, out, from, &d, &format!("response(key of token#{}, challenge of token#{})", seal, bt), "response")
    }

    fn handshake(&mut self, ctx: &Ctx, out: &mut Outcome, t: usize, from: SocketAddr) -> bool {
        if self.request(ctx, out, t, from) {
            return matches!(self.respond(ctx, out, from, t, t), SResult::Connected { .. });
        }
        false
    }

    /// `between`: a request (token index, source) that the transport reads from the socket after the clock has
    /// advanced and before the per-client sweep - the order NetcodeServerTransport::update works in.
    fn tick_with(&mut self, ctx: &Ctx, out: &mut Outcome, dt: Duration, between: Option<(usize, SocketAddr)>) {
        if self.stop {
            return;
        }
        self.srv.update(dt);
        self.hist.push(format!("update({} ms)", dt.as_millis()));
        self.invariants(ctx, out);
        if let Some((t, from)) = between {
            out.count("request_between_clock_and_sweep");
            if self.model.contains_key(&self.toks[t].id()) {
                out.count("request_for_connected_id_between_clock_and_sweep");
            }
            let challenged = self.request(ctx, out, t, from);
            if self.stop {
                return;
            }
            // ... and sometimes the whole handshake: the response follows before the sweep as well
            if challenged && self.srv.now.subsec_millis() % 2 == 0 {
                out.count("handshake_between_clock_and_sweep");
                let _ = self.respond(ctx, out, from, t, t);
                if self.stop {
                    return;
                }
            }
        }
        for id in self.srv.s.clients_id() {
            if self.stop {
                return;
            }
            let res = self.srv.update_client(id);
            if let SResult::Disconnected { .. } = &res {
                self.hist.push(format!("t={:.2} update_client({}) -> disconnected", self.srv.now.as_secs_f64(), id));
            }
            self.fp.bytes(res.kind().as_bytes());
            self.on_result(ctx, out, &res, None, "timeout");
            self.invariants(ctx, out);
        }
    }

    fn server_disconnect(&mut self, ctx: &Ctx, out: &mut Outcome, id: u64) {
        if self.stop {
            return;
        }
        let res = self.srv.disconnect(id);
        self.hist.push(format!("disconnect({}) -> {}", id, res.kind()));
        self.on_result(ctx, out, &res, None, "server_call");
        self.invariants(ctx, out);
    }

    fn set_max(&mut self, ctx: &Ctx, out: &mut Outcome, n: usize) {
        let old = self.srv.s.max_clients();
        if n < old {
            self.lowered = true;
            out.count("max_lowered");
        } else if n > old {
            out.count("max_raised");
        }
        self.srv.s.set_max_clients(n);
        self.hist.push(format!("set_max_clients({})", n));
        self.invariants(ctx, out);
    }

    /// Both directions of a connected session still work and are routed by id. `after_refusal`
    /// selects the clause that is reported on failure.
    fn probe(&mut self, ctx: &Ctx, out: &mut Outcome, r: &mut Rng, id: u64, after_refusal: bool) {
        if self.stop {
            return;
        }
        let Some(c) = self.model.get(&id) else { return };
        let (addr, Some(t)) = (c.addr, c.tok) else { return };
        let sig = if after_refusal { "C10/full-server/existing-session-disturbed" } else { "C10/lookup-mismatch/payload-routing" };
        let clause = if after_refusal {
            "a full server refuses further handshakes without disturbing existing sessions"
        } else {
            "payload routing refers to the session authenticated for that id"
        };
        let plen = r.urange(1, 40);
        let plain = r.bytes(plen);
        let seq = self.toks[t].up_seq;
        self.toks[t].up_seq += 1;
        let d = sealed(&OPacket::Payload(plain.clone()), self.protocol, seq, &self.toks[t].c2s());
        let res = self.deliver(ctx, out, addr, &d, &format!("probe-up(id {})", id), "probe");
        if self.stop {
            return;
        }
        match res {
            SResult::Payload { client_id, bytes } if client_id == id && bytes == plain => {}
            other => {
                let d = format!("payload sealed under the session keys of client {} from {} gave {:?}", id, a(addr), other.kind());
                return self.violation(ctx, out, sig, clause, d);
            }
        }
        let plen = r.urange(1, 40);
        let plain = r.bytes(plen);
        match self.srv.payload_for(id, &plain) {
            Ok((to, b)) => {
                let opened = open(&b, self.protocol, Some(&self.toks[t].s2c()));
                if to != addr || !matches!(&opened, Some((_, OPacket::Payload(p))) if *p == plain) {
                    let d = format!("generate_payload_packet({}) addressed {} (session at {}), opens under the session key: {}", id, a(to), a(addr), opened.is_some());
                    return self.violation(ctx, out, sig, clause, d);
                }
            }
            Err(e) => {
                let d = format!("generate_payload_packet({}) failed: {}", id, e);
                return self.violation(ctx, out, sig, clause, d);
            }
        }
        out.count("probes_ok");
    }

    fn probe_all(&mut self, ctx: &Ctx, out: &mut Outcome, r: &mut Rng, after_refusal: bool) {
        let ids: Vec<u64> = self.model.keys().copied().collect();
        for id in ids {
            self.probe(ctx, out, r, id, after_refusal);
        }
    }

    fn free_addr(&self, r: &mut Rng) -> SocketAddr {
        // an address without a connected client if there is one
        let free: Vec<SocketAddr> = self.addrs.iter().copied().filter(|x| self.model.values().all(|c| c.addr != *x)).collect();
        if free.is_empty() {
            *r.pick(&self.addrs)
        } else {
            *r.pick(&free)
        }
    }
}

pub fn one_run(ctx: &Ctx, out: &mut Outcome, run_seed: u64) {
    let mut r = Rng::new(run_seed);
    let protocol = r.next_u64();
    let key = rkey(&mut r);
    let saddr = addr4(0, 0, 5000);
    let maxc = r.urange(1, 4);
    let now = Duration::from_millis(3_000_000 + r.below(1000));
    let timeout = *r.pick(&[2, 5, 5, -1]);
    let mut w = World {
        srv: Srv::new(now, maxc, protocol, vec![saddr], key, true),
        protocol,
        key,
        saddr,
        toks: Vec::new(),
        addrs: Vec::new(),
        last_req: HashMap::new(),
        model: BTreeMap::new(),
        lowered: false,
        dgrams: Vec::new(),
        hist: Hist::default(),
        fp: Fnv::new(),
        run_seed,
        stop: false,
        timeout,
        disconnects: 0,
        full_refusals: 0,
        max_simul: 0,
    };
    let nid = r.urange(2, 6);
    let nad = r.urange(2, 6);
    let ids: Vec<u64> = (0..nid).map(|i| 500 + 10 * i as u64 + r.below(10)).collect();
    for i in 0..nad {
        // special forms: link-local IPv6 sources carry a scope id (sometimes a flow label) - the same ip and port under
        // two scope ids are two addresses -, and a dual-stack socket reports IPv4 peers in IPv4-mapped form
        let special = r.below(12);
        w.addrs.push(if special == 0 {
            let ip = std::net::Ipv6Addr::new(0xfe80, 0, 0, 0, 0, 0, 0, 1 + r.below(2) as u16);
            let flow = if r.chance(1, 4) { r.range(1, 9) as u32 } else { 0 };
            SocketAddr::V6(std::net::SocketAddrV6::new(ip, 7000, flow, r.range(1, 3) as u32))
        } else if special == 1 {
            SocketAddr::new(std::net::IpAddr::V6(std::net::Ipv4Addr::new(3, 3, i as u8, 1).to_ipv6_mapped()), 6000)
        } else if r.chance(1, 5) {
            addr6(i as u16 + 1, 7000)
        } else {
            addr4(3, i as u8, 6000 + r.below(3) as u16)
        });
    }
    w.addrs.sort();
    w.addrs.dedup();
    w.hist.push(format!("max_clients {} ids {:?} addrs {:?} timeout {}", maxc, ids, w.addrs.iter().map(|x| a(*x)).collect::<Vec<_>>(), timeout));
    let may_lower = r.chance(1, 6);

    // extra addresses for the scripted situations (the random part uses w.addrs only)
    let mut extra = 0u16;
    let mut fresh_addr = |r: &mut Rng| {
        extra += 1;
        if r.chance(1, 6) {
            addr6(100 + extra, 7100)
        } else {
            addr4(4, extra as u8, 6100 + extra)
        }
    };

    let mut scripts: Vec<u32> = (0..6).collect();
    r.shuffle(&mut scripts);
    for sc in scripts {
        if w.stop {
            break;
        }
        match sc {
            0 => {
                // two half-open sessions for one id, answered in seeded order: only one may connect
                let id = *r.pick(&ids);
                if w.model.contains_key(&id) {
                    w.server_disconnect(ctx, out, id);
                }
                let (ta, tb) = (w.new_token(&mut r, id), w.new_token(&mut r, id));
                let (x, y) = (fresh_addr(&mut r), fresh_addr(&mut r));
                let ra = w.request(ctx, out, ta, x);
                let rb = w.request(ctx, out, tb, y);
                if ra && rb && !w.stop {
                    out.count("two_halfopen_one_id");
                    let free = w.srv.s.connected_clients() < w.srv.s.max_clients();
                    let first = if r.chance(1, 2) { (x, ta, y, tb) } else { (y, tb, x, ta) };
                    let c1 = matches!(w.respond(ctx, out, first.0, first.1, first.1), SResult::Connected { .. });
                    let c2 = matches!(w.respond(ctx, out, first.2, first.3, first.3), SResult::Connected { .. });
                    if free && c1 && !c2 {
                        out.count("second_halfopen_same_id_refused");
                    }
                }
            }
            1 => {
                // one address presenting several tokens, then answering for each of them
                let x = fresh_addr(&mut r);
                let k = r.urange(2, 3);
                let mut ts = Vec::new();
                for _ in 0..k {
                    let id = *r.pick(&ids);
                    let t = w.new_token(&mut r, id);
                    w.request(ctx, out, t, x);
                    ts.push(t);
                }
                out.count("one_addr_several_tokens");
                r.shuffle(&mut ts);
                for t in ts.iter() {
                    let bt = if r.chance(1, 2) { *t } else { *r.pick(&ts) };
                    w.respond(ctx, out, x, *t, bt);
                }
            }
            2 => {
                // handshakes racing for the last free slot
                let mut guard = 0;
                while w.srv.s.connected_clients() + 1 < w.srv.s.max_clients() && guard < 6 && !w.stop {
                    guard += 1;
                    let Some(id) = ids.iter().copied().find(|i| !w.model.contains_key(i)) else { break };
                    let t = w.new_token(&mut r, id);
                    let x = fresh_addr(&mut r);
                    w.handshake(ctx, out, t, x);
                }
                let free_ids: Vec<u64> = ids.iter().copied().filter(|i| !w.model.contains_key(i)).collect();
                if w.srv.s.connected_clients() + 1 == w.srv.s.max_clients() && free_ids.len() >= 2 && !w.stop {
                    out.count("race_last_slot");
                    let mut racers = Vec::new();
                    for id in free_ids.iter().take(3) {
                        let t = w.new_token(&mut r, *id);
                        let x = fresh_addr(&mut r);
                        if w.request(ctx, out, t, x) {
                            racers.push((t, x));
                        }
                    }
                    r.shuffle(&mut racers);
                    let mut winners = 0;
                    for (t, x) in racers.iter() {
                        if matches!(w.respond(ctx, out, *x, *t, *t), SResult::Connected { .. }) {
                            winners += 1;
                        } else {
                            out.count("race_losers_refused");
                            w.full_refusals += 1;
                        }
                    }
                    if winners == 1 {
                        out.count("race_one_winner");
                    }
                    w.probe_all(ctx, out, &mut r, true);
                }
            }
            3 => {
                // responses echoing the challenge of another half-open session (F10 shape), also with
                // two half-open sessions of one id
                let free_ids: Vec<u64> = ids.iter().copied().filter(|i| !w.model.contains_key(i)).collect();
                if free_ids.len() >= 2 {
                    let (i1, i2) = (free_ids[0], free_ids[1]);
                    let (t1a, t1b, t2) = (w.new_token(&mut r, i1), w.new_token(&mut r, i1), w.new_token(&mut r, i2));
                    let (x, y, z) = (fresh_addr(&mut r), fresh_addr(&mut r), fresh_addr(&mut r));
                    w.request(ctx, out, t1a, x);
                    w.request(ctx, out, t1b, y);
                    w.request(ctx, out, t2, z);
                    w.respond(ctx, out, x, t1a, t2);
                    w.respond(ctx, out, y, t1b, t2);
                    w.respond(ctx, out, x, t1a, t1b);
                    w.respond(ctx, out, z, t2, t2);
                }
            }
            4 => {
                // full server: complete fresh handshakes are refused, existing sessions keep working
                let mut guard = 0;
                while w.srv.s.connected_clients() < w.srv.s.max_clients() && guard < 6 && !w.stop {
                    guard += 1;
                    let Some(id) = ids.iter().copied().find(|i| !w.model.contains_key(i)) else { break };
                    let t = w.new_token(&mut r, id);
                    let x = fresh_addr(&mut r);
                    w.handshake(ctx, out, t, x);
                }
                if w.srv.s.connected_clients() >= w.srv.s.max_clients() && !w.stop {
                    for _ in 0..r.urange(1, 3) {
                        let id = ids.iter().copied().find(|i| !w.model.contains_key(i)).unwrap_or(900 + r.below(50));
                        let t = w.new_token(&mut r, id);
                        let x = fresh_addr(&mut r);
                        let before: Vec<u64> = w.model.keys().copied().collect();
                        let connected = w.handshake(ctx, out, t, x);
                        if !connected && !w.stop {
                            out.count("full_server_handshake_refused");
                            w.full_refusals += 1;
                            let after: Vec<u64> = w.model.keys().copied().collect();
                            if before != after {
                                let d = format!("connected set changed from {:?} to {:?} during a refused handshake", before, after);
                                w.violation(ctx, out, "C10/full-server/existing-session-disturbed", "a full server refuses further handshakes without disturbing existing sessions", d);
                            }
                            w.probe_all(ctx, out, &mut r, true);
                        }
                    }
                }
            }
            _ => {
                // limit raised at run time, new slots used if the server grants them
                let m = w.srv.s.max_clients();
                w.set_max(ctx, out, m + r.urange(1, 2));
                for _ in 0..2 {
                    let Some(id) = ids.iter().copied().find(|i| !w.model.contains_key(i)) else { break };
                    let t = w.new_token(&mut r, id);
                    let x = fresh_addr(&mut r);
                    if w.handshake(ctx, out, t, x) {
                        out.count("connect_after_raise");
                    }
                }
                w.probe_all(ctx, out, &mut r, false);
            }
        }
    }

    // seeded interleavings over the small identity x address space
    let nops = r.range(80, if ctx.thorough() { 1200 } else { 400 });
    let first_random_tok = w.toks.len();
    for id in ids.iter() {
        for _ in 0..r.urange(1, 3) {
            w.new_token(&mut r, *id);
        }
    }
    for _ in 0..nops {
        if w.stop || ctx.over_budget() {
            break;
        }
        let ntok = w.toks.len();
        let pick_tok = |r: &mut Rng| if r.chance(4, 5) { r.urange(first_random_tok.min(ntok - 1), ntok - 1) } else { r.usize_below(ntok) };
        match r.below(20) {
            0..=4 => {
                let t = pick_tok(&mut r);
                let x = if r.chance(2, 3) { w.free_addr(&mut r) } else { *r.pick(&w.addrs) };
                w.request(ctx, out, t, x);
            }
            5..=8 => {
                // the answer an honest peer at a half-open address would give, or a cross response
                let pend = w.srv.snapshot().pending;
                if let Some((x, _)) = pend.get(r.usize_below(pend.len().max(1))).copied() {
                    let t = w.last_req.get(&x).copied().unwrap_or_else(|| pick_tok(&mut r));
                    let (seal, bt) = match r.below(6) {
                        0 => (t, pick_tok(&mut r)),
                        1 => (pick_tok(&mut r), t),
                        _ => (t, t),
                    };
                    w.respond(ctx, out, x, seal, bt);
                } else {
                    let x = *r.pick(&w.addrs);
                    let (s, b) = (pick_tok(&mut r), pick_tok(&mut r));
                    w.respond(ctx, out, x, s, b);
                }
            }
            9 => {
                // client disconnect packet, from its own or from a wrong address
                let cids: Vec<u64> = w.model.keys().copied().collect();
                if let Some(id) = cids.get(r.usize_below(cids.len().max(1))).copied() {
                    if let (addr, Some(t)) = (w.model[&id].addr, w.model[&id].tok) {
                        let seq = w.toks[t].up_seq;
                        w.toks[t].up_seq += 1;
                        let d = sealed(&OPacket::Disconnect, w.protocol, seq, &w.toks[t].c2s());
                        let from = if r.chance(3, 4) { addr } else { *r.pick(&w.addrs) };
                        w.deliver(ctx, out, from, &d, &format!("disconnect-packet(id {})", id), "client_packet");
                    }
                }
            }
            10 => {
                let cids: Vec<u64> = w.model.keys().copied().collect();
                let id = if r.chance(5, 6) && !cids.is_empty() { *r.pick(&cids) } else { *r.pick(&ids) };
                w.server_disconnect(ctx, out, id);
            }
            11 | 12 => {
                let ms = *r.pick(&[10u64, 100, 300, 1000, 1000, 3000]);
                // sometimes a connection request arrives in that very tick, preferably for an id that is connected
                // (another token of the same identity, from another address)
                let between = if r.chance(1, 3) && !w.toks.is_empty() && !w.addrs.is_empty() {
                    let connected: Vec<usize> = (0..w.toks.len()).filter(|t| w.model.contains_key(&w.toks[*t].id())).collect();
                    let t = if !connected.is_empty() && r.chance(3, 4) { *r.pick(&connected) } else { r.usize_below(w.toks.len()) };
                    // from any address, or from the address of a session that is connected right now (it may be one
                    // whose deadline this very tick passes: until the sweep its address is still taken)
                    let taken: Vec<SocketAddr> = w.model.values().map(|c| c.addr).collect();
                    if !taken.is_empty() && r.chance(1, 2) {
                        let unconnected: Vec<usize> = (0..w.toks.len()).filter(|t| !w.model.contains_key(&w.toks[*t].id())).collect();
                        let t2 = if unconnected.is_empty() { t } else { *r.pick(&unconnected) };
                        Some((t2, *r.pick(&taken)))
                    } else {
                        Some((t, *r.pick(&w.addrs)))
                    }
                } else {
                    None
                };
                w.tick_with(ctx, out, Duration::from_millis(ms), between);
            }
            13 | 14 => {
                let cids: Vec<u64> = w.model.keys().copied().collect();
                if !cids.is_empty() {
                    let id = *r.pick(&cids);
                    w.probe(ctx, out, &mut r, id, false);
                }
            }
            15 | 16 => {
                if !w.dgrams.is_empty() {
                    let (from, d) = w.dgrams[r.usize_below(w.dgrams.len())].clone();
                    let from = if r.chance(2, 3) { from } else { *r.pick(&w.addrs) };
                    out.count("replays");
                    w.deliver(ctx, out, from, &d, "replay", "replay");
                }
            }
            17 => {
                let id = *r.pick(&ids);
                w.new_token(&mut r, id);
            }
            18 => {
                let m = w.srv.s.max_clients();
                if may_lower && r.chance(1, 2) && m > 1 {
                    w.set_max(ctx, out, m - 1);
                } else if m < 8 {
                    w.set_max(ctx, out, m + 1);
                }
            }
            _ => {
                // complete handshake from a free address; at a full server it must be refused quietly
                let id = ids.iter().copied().find(|i| !w.model.contains_key(i)).unwrap_or(*r.pick(&ids));
                let t = w.new_token(&mut r, id);
                let x = w.free_addr(&mut r);
                let full = w.srv.s.connected_clients() >= w.srv.s.max_clients();
                let before: Vec<u64> = w.model.keys().copied().collect();
                let connected = w.handshake(ctx, out, t, x);
                if full && !connected && !w.stop && w.model.values().all(|c| c.addr != x) {
                    out.count("full_server_handshake_refused");
                    w.full_refusals += 1;
                    let after: Vec<u64> = w.model.keys().copied().collect();
                    if before != after {
                        let d = format!("connected set changed from {:?} to {:?} during a refused handshake", before, after);
                        w.violation(ctx, out, "C10/full-server/existing-session-disturbed", "a full server refuses further handshakes without disturbing existing sessions", d);
                    }
                    w.probe_all(ctx, out, &mut r, true);
                }
            }
        }
    }
    if w.lowered {
        out.count("runs_with_limit_lowered");
    }
    let nontrivial = (w.max_simul >= 2 || maxc == 1) && w.disconnects > 0 && w.full_refusals > 0;
    out.eval(w.fp.finish(), nontrivial);
    if nontrivial && out.samples.len() < out.max_samples {
        out.sample(json!({
            "run_seed": format!("{:#x}", run_seed), "max_clients_at_construction": maxc, "identities": ids, "addresses": w.addrs.len(),
            "tokens": w.toks.len(), "operations": w.hist.total, "max_simultaneous": w.max_simul, "disconnects": w.disconnects,
            "first_operations": w.hist.head.iter().take(12).collect::<Vec<_>>(),
        }));
    }
}
