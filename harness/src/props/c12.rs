//! C12 — disconnection is final and reported exactly once, with the first reason.
//!
//! Technique: random public-API call sequences on one `RenetServer` (small id universe) and a
//! pool of `RenetClient`s (stand-alone, remote peers of a server id, local clients), with a
//! reference state machine stepped in lock-step and compared after **every** call.
//!
//! Reading of the statement (what the oracle demands, never more):
//!
//! * An object (server connection or client) that was observed `is_disconnected()` with reason
//!   `r` must, after every later call: still be disconnected, still show `r`, not be connected /
//!   connecting, return no packets from `get_packets_to_send`, return `None` from
//!   `receive_message` on every channel, and not change its receive-side state when handed a
//!   packet ("accepts no packets": pending acks, accounted receive memory and the sent-packet
//!   table, read through the `verif_*` accessors, stay identical).
//! * The reference model does not *predict* presence or disconnection: it **observes** them after
//!   each call (`network_info(id).is_ok()` = the id has a connection, `disconnect_reason`). The
//!   first observed reason is "the first reason". Only where the statement / the API names the
//!   cause is the observed reason also judged (`disconnect` => DisconnectedByServer,
//!   `RenetClient::disconnect` => DisconnectedByClient, `disconnect_due_to_transport` =>
//!   Transport, an over-budget reliable `send_message` => SendChannelError, a peer packet =>
//!   one of the three packet reasons, emitting => PacketSerialization). A disconnect during any
//!   other call is adopted and counted, never judged.
//! * Events: the observed `get_event` stream per id must alternate Connected, Disconnected, ...
//!   starting with Connected (judged on the stream alone); every observed insertion / removal must
//!   be reported exactly once (no spurious, no missing event at the end of the run); a
//!   Disconnected event must carry the first reason of the removed connection, `Transport` if it
//!   was healthy and removed by `remove_connection`, `DisconnectedByClient` if it was healthy and
//!   removed by `disconnect_local_client`.
//!
//! Signature classes:
//!   C12/revived/{server|client}/<call>             disconnected object not disconnected any more
//!   C12/reason-changed/{server|client}/<call>      first reason replaced
//!   C12/first-reason/wrong-reason-for-cause/<call> named cause produced another reason
//!   C12/dead-emits-packets/{server|client}         get_packets_to_send non-empty after disconnect
//!   C12/dead-yields-message/{server|client}        receive_message Some after disconnect
//!   C12/dead-accepts-packet/{server|client}/<what> receive-side state changed by a packet
//!   C12/event-order/connect-without-disconnect     two Connected without Disconnected between
//!   C12/event-order/disconnect-without-connect     Disconnected without preceding Connected
//!   C12/event-spurious/{connect|disconnect}        event without an insertion / removal
//!   C12/event-missing/{connect|disconnect}         insertion / removal never reported
//!   C12/event-reason/not-first-reason/<removing call>
//!
//! A panic inside the code under test (hostile packets can hit F1/F2) is *not* reported here — it
//! belongs to C06; the run is abandoned and counted (`panics_left_to_C06`).

use crate::outcome::{Ctx, Outcome, PropInfo};
use crate::payload;
use crate::rng::{hex, Fnv, Rng};
use crate::rsim::{decode, ChanSpec, Kind};
use crate::watchdog;
use bytes::Bytes;
use renet::verif::{Packet, Slice};
use renet::{ChannelError, ConnectionConfig, DisconnectReason as DR, RenetClient, RenetServer, ServerEvent};
use serde_json::json;
use std::collections::{BTreeMap, VecDeque};
use std::ops::Range;
use std::time::Duration;

pub static INFO: PropInfo = PropInfo {
    id: "C12",
    level: "exploration",
    rule: "one evaluation = one random sequence of 400-1600 public API calls (after a scripted prelude that walks through every cause of disconnection once) on one RenetServer with 2-4 client ids and a pool of up to 6 RenetClients (remote peers, stand-alone, local clients): add/remove_connection, disconnect, disconnect_all, new/disconnect/process_local_client, send/broadcast(_except)/receive, process_packet(_from) with honest, mutated, crafted and random datagrams, get_packets_to_send, update, get_event (drained at random moments, sometimes one event at a time; in a third of the runs one churn of 130-220 add / disconnect / remove rounds with no polling at all, 260+ unread events, then a full drain), set_connected/connecting, disconnect, disconnect_due_to_transport, over-budget sends. A reference state machine per id (Absent | Healthy | Dead(first reason)) and per client observes presence and status after every call and compares: a dead object stays dead with the same reason, emits nothing, yields nothing, accepts nothing; the per-id event stream alternates and each removal reports the first reason; a reliable send that the library's own can_send_message refuses is a cause too (budget): the connection is disconnected when send_message returns, whatever state it was in; after every call the server's derived views (connected_clients, clients_id, disconnections_id, is_connected) must equal the reference states - a disconnected connection that is still in the table is disconnected in every view; an application or transport cause (disconnect, disconnect_all, disconnect_local_client, RenetClient::disconnect, disconnect_due_to_transport) is unconditional: applied to an object in any state, connecting included, the object is disconnected or gone when the call returns. Non-trivial = at least 3 distinct causes of disconnection occurred, at least one removal of an already-dead connection was reported and at least 20 probes were made on dead objects; distinct = distinct hashes of (operation, observed transition, event) history.",
    assumptions: &[
        "symmetric channel lists (client list == server list) in this driver; lists that differ between the directions, local clients included, are exercised by C01-C03 (asymmetric kinds) and by C11's host-player runs",
        "a disconnect observed during a call that is not a named cause (update, receive_message, status setters) is adopted as the first reason and counted, not judged",
        "'accepts no packets' is observed through the verif_* accessors (pending acks, receive memory, sent-packet table) and through receive_message",
        "panics of the code under test on hostile packets are left to C06 (run abandoned, counted)",
    ],
    gates: &[
        ("calls", 10_000),
        ("cause.DisconnectedByServer", 20),
        ("cause.DisconnectedByClient", 20),
        ("cause.Transport", 20),
        ("cause.SendChannelError", 20),
        ("cause.PacketDeserialization", 20),
        ("cause.ReceivedInvalidChannelId", 20),
        ("cause.ReceiveChannelError", 20),
        ("removed_while_healthy.remove_connection", 20),
        ("removed_while_healthy.disconnect_local_client", 20),
        ("removed_after_dead.remove_connection", 20),
        ("removed_after_dead.disconnect_local_client", 10),
        ("event_disconnect_reason_checked", 100),
        ("event_reconnect_same_id", 20),
        ("dead_probe_emit", 500),
        ("dead_probe_receive", 500),
        ("dead_packet_offered", 200),
        ("dead_status_call", 50),
        ("dead_with_send_backlog", 10),
        ("dead_with_recv_backlog", 5),
        ("dead_with_pending_acks", 10),
        ("add_connection_on_dead", 10),
    ],
    engines_quick: &["e1"],
    engines_thorough: &["e1"],
    run,
};

pub fn run(ctx: &Ctx, out: &mut Outcome) {
    super::run_loop(ctx, out, 16_000, 400_000, 12, one_run);
}

#[derive(Clone, Copy, Debug, PartialEq)]
enum St {
    Absent,
    Alive,
    Dead(DR),
}

/// What a call may legitimately put into `disconnect_reason` of an object that was alive.
#[derive(Clone, Copy, Debug)]
enum Expect {
    /// not a named cause: adopt and count
    Unspecified,
    Exactly(DR),
    /// a peer packet was processed
    Packet,
    /// packets were produced
    Emit,
    /// process_local_client: both of the above happen on both objects
    PacketOrEmit,
}

impl Expect {
    fn allows(&self, r: DR) -> bool {
        let pk = matches!(r, DR::PacketDeserialization(_) | DR::ReceivedInvalidChannelId(_) | DR::ReceiveChannelError { .. });
        let em = matches!(r, DR::PacketSerialization(_));
        match self {
            Expect::Unspecified => true,
            Expect::Exactly(e) => *e == r,
            Expect::Packet => pk,
            Expect::Emit => em,
            Expect::PacketOrEmit => pk || em,
        }
    }
}

fn reason_class(r: DR) -> &'static str {
    match r {
        DR::Transport => "Transport",
        DR::DisconnectedByClient => "DisconnectedByClient",
        DR::DisconnectedByServer => "DisconnectedByServer",
        DR::PacketSerialization(_) => "PacketSerialization",
        DR::PacketDeserialization(_) => "PacketDeserialization",
        DR::ReceivedInvalidChannelId(_) => "ReceivedInvalidChannelId",
        DR::SendChannelError { .. } => "SendChannelError",
        DR::ReceiveChannelError { .. } => "ReceiveChannelError",
    }
}

struct CObj {
    c: RenetClient,
    dead: Option<DR>,
    local: bool,
    /// server id this client exchanges packets with
    peer: u64,
}

#[derive(Clone, Copy, Debug)]
enum ExpEv {
    Connect,
    Disconnect(Option<DR>, &'static str),
}

/// (.., bit patterns of the received / sent byte rates the connection reports: a dead connection accepts no packets,
/// so a packet handed to it leaves them where they were)
type Snap = (Vec<Range<u64>>, Vec<Option<usize>>, usize, (u64, u64));

fn snap(c: &RenetClient, chans: &[ChanSpec]) -> Snap {
    (
        c.verif_pending_acks(),
        chans.iter().map(|s| c.verif_receive_memory(s.id)).collect(),
        c.verif_sent_packets_len(),
        (c.bytes_received_per_sec().to_bits(), c.bytes_sent_per_sec().to_bits()),
    )
}

fn snap_diff(a: &Snap, b: &Snap) -> Option<&'static str> {
    if a.0 != b.0 {
        Some("pending-acks")
    } else if a.1 != b.1 {
        Some("receive-memory")
    } else if a.2 != b.2 {
        Some("sent-packets")
    } else if a.3 != b.3 {
        Some("traffic-statistics")
    } else {
        None
    }
}

fn encode(p: &Packet) -> Option<Vec<u8>> {
    let mut buf = [0u8; 1500];
    let mut o = octets::OctetsMut::with_slice(&mut buf);
    let n = p.to_bytes(&mut o).ok()?;
    Some(buf[..n].to_vec())
}

struct World {
    chans: Vec<ChanSpec>,
    cfg: ConnectionConfig,
    server: RenetServer,
    ids: Vec<u64>,
    sst: BTreeMap<u64, St>,
    clients: Vec<CObj>,
    evt_connected: BTreeMap<u64, bool>,
    evt_seen_disconnect: BTreeMap<u64, bool>,
    evt_bad: BTreeMap<u64, bool>,
    expected: BTreeMap<u64, VecDeque<ExpEv>>,
    log: Vec<String>,
    log_head: Vec<String>,
    fp: Fnv,
    rng: Rng,
    run_seed: u64,
    tag: u64,
    msg_no: u64,
    craft_no: u64,
    /// last valid datagrams seen (material for mutation)
    captured: Vec<Vec<u8>>,
    aborted: bool,
    causes: BTreeMap<&'static str, u64>,
    dead_removals: u64,
    dead_probes: u64,
    calls: u64,
}

impl World {
    fn new(r: &mut Rng, run_seed: u64) -> Self {
        // symmetric configuration, small memory budgets so that budget overruns are cheap
        let n_ch = r.urange(1, 3);
        let mut idpool = vec![0u8, 1, 2, 5];
        r.shuffle(&mut idpool);
        let mut chans = Vec::new();
        for k in 0..n_ch {
            let kind = match (k, r.below(3)) {
                (0, _) => *r.pick(&[Kind::ReliableOrdered, Kind::ReliableUnordered]),
                (_, 0) => Kind::Unreliable,
                (_, 1) => Kind::ReliableOrdered,
                _ => Kind::ReliableUnordered,
            };
            chans.push(ChanSpec {
                id: idpool[k],
                kind,
                resend_ms: *r.pick(&[0u64, 10, 100]),
                max_mem: *r.pick(&[2500usize, 5000, 12_000]),
            });
        }
        r.shuffle(&mut chans);
        let cc: Vec<_> = chans.iter().map(|c| c.to_config()).collect();
        let cfg = ConnectionConfig {
            available_bytes_per_tick: *r.pick(&[1200u64, 2500, 60_000]),
            server_channels_config: cc.clone(),
            client_channels_config: cc,
        };
        let n_ids = r.urange(2, 4);
        let base = *r.pick(&[0u64, 1, 1000, u64::MAX - 8]);
        let ids: Vec<u64> = (0..n_ids as u64).map(|k| base.wrapping_add(k * 3)).collect();
        let mut w = World {
            chans,
            server: RenetServer::new(cfg.clone()),
            cfg,
            sst: ids.iter().map(|i| (*i, St::Absent)).collect(),
            evt_connected: ids.iter().map(|i| (*i, false)).collect(),
            evt_seen_disconnect: ids.iter().map(|i| (*i, false)).collect(),
            evt_bad: ids.iter().map(|i| (*i, false)).collect(),
            expected: ids.iter().map(|i| (*i, VecDeque::new())).collect(),
            ids,
            clients: Vec::new(),
            log: Vec::new(),
            log_head: Vec::new(),
            fp: Fnv::new(),
            rng: Rng::new(run_seed ^ 0xC12),
            run_seed,
            tag: r.next_u64(),
            msg_no: 0,
            craft_no: 0,
            captured: Vec::new(),
            aborted: false,
            causes: BTreeMap::new(),
            dead_removals: 0,
            dead_probes: 0,
            calls: 0,
        };
        w.fp.u64(n_ids as u64);
        w
    }

    fn describe(&self) -> serde_json::Value {
        json!({
            "channels (client list == server list)": self.chans.iter().map(|c| format!("{}:{}:resend{}ms:mem{}", c.id, c.kind.short(), c.resend_ms, c.max_mem)).collect::<Vec<_>>(),
            "bytes_per_tick": self.cfg.available_bytes_per_tick,
            "ids": self.ids,
        })
    }

    fn op(&mut self, s: String) {
        self.calls += 1;
        self.fp.bytes(s.as_bytes());
        if self.log.len() >= 400 {
            self.log.drain(0..200);
        }
        if self.log_head.len() < 14 {
            self.log_head.push(format!("#{} {}", self.calls, s));
        }
        self.log.push(format!("#{} {}", self.calls, s));
    }

    fn violate(&mut self, ctx: &Ctx, out: &mut Outcome, sig: &str, clause: &str, detail: String) {
        let replay = json!({
            "property": "C12",
            "engine": ctx.engine,
            "run_seed": format!("{:#x}", self.run_seed),
            "cfg": self.describe(),
            "violated_clause": clause,
            "model": {
                "server": self.sst.iter().map(|(i, s)| format!("{}={:?}", i, s)).collect::<Vec<_>>(),
                "clients": self.clients.iter().enumerate().map(|(k, c)| format!("k{} peer{} local{} dead{:?}", k, c.peer, c.local, c.dead)).collect::<Vec<_>>(),
            },
            "history (last operations)": self.log.iter().rev().take(80).rev().collect::<Vec<_>>(),
        });
        out.violation(ctx, sig, clause, detail, replay);
    }

    fn note_cause(&mut self, out: &mut Outcome, r: DR) {
        let c = reason_class(r);
        *self.causes.entry(c).or_insert(0) += 1;
        out.count(&format!("cause.{}", c));
    }

    // ---------------------------------------------------------------------------------------
    // observation + comparison after every call
    // ---------------------------------------------------------------------------------------
    fn after(&mut self, call: &'static str, exp_srv: Expect, exp_cli: Expect, touched_ids: &[u64], touched_cli: &[usize], ctx: &Ctx, out: &mut Outcome) {
        out.count("calls");
        // server side
        let ids = self.ids.clone();
        for id in ids {
            let present = self.server.network_info(id).is_ok();
            let real_reason = self.server.disconnect_reason(id);
            let prev = self.sst[&id];
            match (prev, present) {
                (St::Absent, false) => {}
                (St::Absent, true) => {
                    self.expected.get_mut(&id).unwrap().push_back(ExpEv::Connect);
                    self.fp.u64(0xC0 ^ id);
                    out.count("insertions");
                    let st = match real_reason {
                        Some(r) => {
                            self.note_cause(out, r);
                            St::Dead(r)
                        }
                        None => St::Alive,
                    };
                    self.sst.insert(id, st);
                }
                (St::Alive, false) | (St::Dead(_), false) => {
                    let exp = match prev {
                        St::Dead(r) => {
                            out.count(&format!("removed_after_dead.{}", call));
                            self.dead_removals += 1;
                            Some(r)
                        }
                        _ => {
                            out.count(&format!("removed_while_healthy.{}", call));
                            match call {
                                "remove_connection" => Some(DR::Transport),
                                "disconnect_local_client" => Some(DR::DisconnectedByClient),
                                _ => None,
                            }
                        }
                    };
                    self.expected.get_mut(&id).unwrap().push_back(ExpEv::Disconnect(exp, call));
                    self.fp.u64(0xD0 ^ id);
                    self.sst.insert(id, St::Absent);
                }
                (St::Alive, true) => {
                    if let Some(r) = real_reason {
                        self.note_cause(out, r);
                        self.fp.u64(0xDEAD ^ id);
                        if matches!(exp_srv, Expect::Unspecified) {
                            out.count(&format!("disconnect_during_unnamed_cause.{}", call));
                        }
                        if !exp_srv.allows(r) {
                            self.violate(
                                ctx,
                                out,
                                &format!("C12/first-reason/wrong-reason-for-cause/{}", call),
                                "the first reason names the cause of the disconnection",
                                format!("server connection {} was healthy, `{}` disconnected it with reason {:?} (expected {:?})", id, call, r, exp_srv),
                            );
                        }
                        self.sst.insert(id, St::Dead(r));
                        self.count_backlog_server(id, out);
                    }
                }
                (St::Dead(r0), true) => {
                    match real_reason {
                        None => {
                            self.violate(
                                ctx,
                                out,
                                &format!("C12/revived/server/{}", call),
                                "once disconnected a connection stays disconnected",
                                format!("server connection {} was disconnected ({:?}); after `{}` it is not disconnected any more (is_connected={})", id, r0, call, self.server.is_connected(id)),
                            );
                            self.sst.insert(id, St::Alive);
                        }
                        Some(r) if r != r0 => {
                            self.violate(
                                ctx,
                                out,
                                &format!("C12/reason-changed/server/{}", call),
                                "a disconnected connection keeps the first reason",
                                format!("server connection {}: first reason {:?}, after `{}` the reason is {:?}", id, r0, call, r),
                            );
                            self.sst.insert(id, St::Dead(r));
                        }
                        Some(_) => {
                            if self.server.is_connected(id) {
                                self.violate(
                                    ctx,
                                    out,
                                    &format!("C12/revived/server/{}", call),
                                    "once disconnected a connection stays disconnected",
                                    format!("server connection {} reports is_connected after `{}` although it has a disconnect reason", id, call),
                                );
                            }
                        }
                    }
                }
            }
        }
        // the server's derived views agree with the per-id states: a disconnected connection that is still in the
        // table is disconnected in every view (count, id lists, is_connected)
        {
            let mut alive: Vec<u64> = self.ids.iter().copied().filter(|id| self.sst[id] == St::Alive).collect();
            let mut dead: Vec<u64> = self.ids.iter().copied().filter(|id| matches!(self.sst[id], St::Dead(_))).collect();
            alive.sort_unstable();
            dead.sort_unstable();
            let mut listed = self.server.clients_id();
            listed.sort_unstable();
            let mut gone = self.server.disconnections_id();
            gone.sort_unstable();
            let n = self.server.connected_clients();
            let flags: Vec<u64> = self.ids.iter().copied().filter(|id| self.server.is_connected(*id)).collect();
            let mut flags = flags;
            flags.sort_unstable();
            let bad = if n != alive.len() {
                Some(("connected_clients", format!("connected_clients() = {} but {} connection(s) are connected: {:?} (disconnected, not yet removed: {:?})", n, alive.len(), alive, dead)))
            } else if listed != alive {
                Some(("clients_id", format!("clients_id() = {:?}, connected are {:?} (disconnected, not yet removed: {:?})", listed, alive, dead)))
            } else if gone != dead {
                Some(("disconnections_id", format!("disconnections_id() = {:?}, disconnected and not yet removed are {:?}", gone, dead)))
            } else if flags != alive {
                Some(("is_connected", format!("is_connected() is true for {:?}, connected are {:?}", flags, alive)))
            } else {
                None
            };
            out.count("derived_views_compared");
            if let Some((which, d)) = bad {
                self.violate(ctx, out, &format!("C12/disconnected-reported-connected/{}/{}", which, call), "once a connection is disconnected it stays so (in every view the server offers)", d);
            }
        }
        // clients
        for k in 0..self.clients.len() {
            let real = self.clients[k].c.disconnect_reason();
            let real_dead = self.clients[k].c.is_disconnected();
            match (self.clients[k].dead, real) {
                (None, None) => {}
                (None, Some(r)) => {
                    self.note_cause(out, r);
                    self.fp.u64(0xDEAD00 ^ k as u64);
                    if matches!(exp_cli, Expect::Unspecified) {
                        out.count(&format!("disconnect_during_unnamed_cause.{}", call));
                    }
                    if !exp_cli.allows(r) {
                        self.violate(
                            ctx,
                            out,
                            &format!("C12/first-reason/wrong-reason-for-cause/{}", call),
                            "the first reason names the cause of the disconnection",
                            format!("client k{} was not disconnected, `{}` disconnected it with reason {:?} (expected {:?})", k, call, r, exp_cli),
                        );
                    }
                    self.clients[k].dead = Some(r);
                    self.count_backlog_client(k, out);
                }
                (Some(r0), None) => {
                    let c = &self.clients[k].c;
                    let d = format!(
                        "client k{} was disconnected ({:?}); after `{}`: is_disconnected={} is_connected={} is_connecting={}",
                        k,
                        r0,
                        call,
                        real_dead,
                        c.is_connected(),
                        c.is_connecting()
                    );
                    self.violate(ctx, out, &format!("C12/revived/client/{}", call), "once disconnected a connection stays disconnected; no status call revives it", d);
                    self.clients[k].dead = None;
                }
                (Some(r0), Some(r)) => {
                    if r != r0 {
                        self.violate(
                            ctx,
                            out,
                            &format!("C12/reason-changed/client/{}", call),
                            "a disconnected connection keeps the first reason",
                            format!("client k{}: first reason {:?}, after `{}` the reason is {:?}", k, r0, call, r),
                        );
                        self.clients[k].dead = Some(r);
                    }
                    let c = &self.clients[k].c;
                    if c.is_connected() || c.is_connecting() || !real_dead {
                        let d = format!("client k{} has reason {:?} but is_connected={} is_connecting={} is_disconnected={} after `{}`", k, r0, c.is_connected(), c.is_connecting(), real_dead, call);
                        self.violate(ctx, out, &format!("C12/revived/client/{}", call), "once disconnected a connection stays disconnected; no status call revives it", d);
                    }
                }
            }
        }
        // an application or transport cause is unconditional: whatever state the object was in (connecting included),
        // it is disconnected (or gone) when the call returns
        if matches!(call, "disconnect" | "disconnect_all" | "disconnect_local_client" | "client.disconnect" | "disconnect_due_to_transport") {
            for &k in touched_cli {
                if k < self.clients.len() && self.clients[k].dead.is_none() {
                    let c = &self.clients[k].c;
                    let d = format!("client k{} after `{}`: is_disconnected={} is_connected={} is_connecting={} reason={:?}", k, call, c.is_disconnected(), c.is_connected(), c.is_connecting(), c.disconnect_reason());
                    self.violate(ctx, out, &format!("C12/cause-ignored/client/{}", call), "every cause of disconnection disconnects the connection it is applied to", d);
                } else {
                    out.count("unconditional_causes_checked");
                }
            }
            for &id in touched_ids {
                if self.sst.get(&id) == Some(&St::Alive) {
                    let d = format!("server connection {} after `{}`: still present and healthy (is_connected={})", id, call, self.server.is_connected(id));
                    self.violate(ctx, out, &format!("C12/cause-ignored/server/{}", call), "every cause of disconnection disconnects the connection it is applied to", d);
                } else {
                    out.count("unconditional_causes_checked");
                }
            }
        }
        // probes on dead objects: the ones this call touched plus one random object
        let mut pid: Vec<u64> = touched_ids.to_vec();
        pid.push(*self.rng.pick(&self.ids.clone()));
        pid.sort_unstable();
        pid.dedup();
        for id in pid {
            if matches!(self.sst.get(&id), Some(St::Dead(_))) {
                self.probe_server(id, call, ctx, out);
            }
        }
        let mut pk: Vec<usize> = touched_cli.to_vec();
        if !self.clients.is_empty() {
            pk.push(self.rng.usize_below(self.clients.len()));
        }
        pk.sort_unstable();
        pk.dedup();
        for k in pk {
            if k < self.clients.len() && self.clients[k].dead.is_some() {
                self.probe_client(k, call, ctx, out);
            }
        }
    }

    fn count_backlog_server(&mut self, id: u64, out: &mut Outcome) {
        let Some(c) = self.server.verif_connection(id) else { return };
        Self::count_backlog(c, &self.chans, out);
    }

    fn count_backlog_client(&mut self, k: usize, out: &mut Outcome) {
        Self::count_backlog(&self.clients[k].c, &self.chans, out);
    }

    fn count_backlog(c: &RenetClient, chans: &[ChanSpec], out: &mut Outcome) {
        if chans.iter().any(|s| c.channel_available_memory(s.id) < s.max_mem) {
            out.count("dead_with_send_backlog");
        }
        if chans.iter().any(|s| c.verif_receive_memory(s.id).unwrap_or(0) > 0) {
            out.count("dead_with_recv_backlog");
        }
        if !c.verif_pending_acks().is_empty() {
            out.count("dead_with_pending_acks");
        }
    }

    fn probe_server(&mut self, id: u64, call: &'static str, ctx: &Ctx, out: &mut Outcome) {
        self.dead_probes += 1;
        out.count("dead_probe_emit");
        match self.server.get_packets_to_send(id) {
            Ok(p) if !p.is_empty() => {
                let d = format!("server connection {} is disconnected ({:?}) but get_packets_to_send returned {} packet(s) (probe after `{}`), first: {}", id, self.sst[&id], p.len(), call, hex(&p[0][..p[0].len().min(24)]));
                self.violate(ctx, out, "C12/dead-emits-packets/server", "a disconnected connection emits no packets", d);
            }
            _ => {}
        }
        let chans: Vec<u8> = self.chans.iter().map(|c| c.id).collect();
        for ch in chans {
            out.count("dead_probe_receive");
            if let Some(m) = self.server.receive_message(id, ch) {
                let d = format!("server connection {} is disconnected ({:?}) but receive_message(ch {}) returned a {}-byte message (probe after `{}`)", id, self.sst[&id], ch, m.len(), call);
                self.violate(ctx, out, "C12/dead-yields-message/server", "a disconnected connection yields no messages", d);
            }
        }
    }

    fn probe_client(&mut self, k: usize, call: &'static str, ctx: &Ctx, out: &mut Outcome) {
        self.dead_probes += 1;
        out.count("dead_probe_emit");
        let p = self.clients[k].c.get_packets_to_send();
        if !p.is_empty() {
            let d = format!("client k{} is disconnected ({:?}) but get_packets_to_send returned {} packet(s) (probe after `{}`)", k, self.clients[k].dead, p.len(), call);
            self.violate(ctx, out, "C12/dead-emits-packets/client", "a disconnected connection emits no packets", d);
        }
        let chans: Vec<u8> = self.chans.iter().map(|c| c.id).collect();
        for ch in chans {
            out.count("dead_probe_receive");
            if let Some(m) = self.clients[k].c.receive_message(ch) {
                let d = format!("client k{} is disconnected ({:?}) but receive_message(ch {}) returned a {}-byte message (probe after `{}`)", k, self.clients[k].dead, ch, m.len(), call);
                self.violate(ctx, out, "C12/dead-yields-message/client", "a disconnected connection yields no messages", d);
            }
        }
    }

    // ---------------------------------------------------------------------------------------
    // events
    // ---------------------------------------------------------------------------------------
    fn drain_events(&mut self, max: usize, ctx: &Ctx, out: &mut Outcome) {
        self.op(format!("get_event x<= {}", max));
        let mut n = 0;
        while n < max {
            let Some(ev) = self.server.get_event() else { break };
            n += 1;
            out.count("events");
            match ev {
                ServerEvent::ClientConnected { client_id } => {
                    self.fp.u64(0xE1 ^ client_id);
                    self.log.push(format!("   event Connected({})", client_id));
                    let was = self.evt_connected.get(&client_id).copied().unwrap_or(false);
                    if was {
                        self.violate(
                            ctx,
                            out,
                            "C12/event-order/connect-without-disconnect",
                            "never two connects without a disconnect between them",
                            format!("second ClientConnected for id {} without a ClientDisconnected in between", client_id),
                        );
                    } else if self.evt_seen_disconnect.get(&client_id).copied().unwrap_or(false) {
                        out.count("event_reconnect_same_id");
                    }
                    self.evt_connected.insert(client_id, true);
                    if self.evt_bad.get(&client_id).copied().unwrap_or(false) {
                        continue;
                    }
                    let front = self.expected.get_mut(&client_id).and_then(|q| q.front().copied());
                    match front {
                        Some(ExpEv::Connect) => {
                            self.expected.get_mut(&client_id).unwrap().pop_front();
                        }
                        _ => {
                            self.evt_bad.insert(client_id, true);
                            self.violate(
                                ctx,
                                out,
                                "C12/event-spurious/connect",
                                "a connect is reported exactly once per insertion",
                                format!("ClientConnected for id {} but no unreported insertion of that id happened (next expected: {:?})", client_id, front),
                            );
                        }
                    }
                }
                ServerEvent::ClientDisconnected { client_id, reason } => {
                    self.fp.u64(0xE2 ^ client_id);
                    self.log.push(format!("   event Disconnected({}, {:?})", client_id, reason));
                    let was = self.evt_connected.get(&client_id).copied().unwrap_or(false);
                    if !was {
                        self.violate(
                            ctx,
                            out,
                            "C12/event-order/disconnect-without-connect",
                            "never a disconnect without a preceding connect",
                            format!("ClientDisconnected({:?}) for id {} without a preceding unmatched ClientConnected", reason, client_id),
                        );
                    }
                    self.evt_connected.insert(client_id, false);
                    self.evt_seen_disconnect.insert(client_id, true);
                    if self.evt_bad.get(&client_id).copied().unwrap_or(false) {
                        continue;
                    }
                    let front = self.expected.get_mut(&client_id).and_then(|q| q.front().copied());
                    match front {
                        Some(ExpEv::Disconnect(exp, call)) => {
                            self.expected.get_mut(&client_id).unwrap().pop_front();
                            if let Some(e) = exp {
                                out.count("event_disconnect_reason_checked");
                                if e != reason {
                                    self.violate(
                                        ctx,
                                        out,
                                        &format!("C12/event-reason/not-first-reason/{}", call),
                                        "a removal reports the reason the connection was first disconnected with (Transport / DisconnectedByClient if it was still healthy)",
                                        format!("id {} removed by `{}`: first reason {:?}, event reports {:?}", client_id, call, e, reason),
                                    );
                                }
                            }
                        }
                        _ => {
                            self.evt_bad.insert(client_id, true);
                            self.violate(
                                ctx,
                                out,
                                "C12/event-spurious/disconnect",
                                "a disconnect is reported exactly once per removal",
                                format!("ClientDisconnected({:?}) for id {} but no unreported removal of that id happened (next expected: {:?})", reason, client_id, front),
                            );
                        }
                    }
                }
            }
        }
    }

    fn finish(&mut self, ctx: &Ctx, out: &mut Outcome) {
        self.drain_events(usize::MAX, ctx, out);
        for id in self.ids.clone() {
            if self.evt_bad[&id] {
                continue;
            }
            if let Some(front) = self.expected[&id].front().copied() {
                let (what, d) = match front {
                    ExpEv::Connect => ("connect", format!("id {} was inserted but no ClientConnected was ever reported", id)),
                    ExpEv::Disconnect(r, call) => ("disconnect", format!("id {} was removed by `{}` (first reason {:?}) but no ClientDisconnected was ever reported", id, call, r)),
                };
                self.violate(ctx, out, &format!("C12/event-missing/{}", what), "every insertion / removal is reported exactly once", d);
            }
        }
    }

    // ---------------------------------------------------------------------------------------
    // message / packet material
    // ---------------------------------------------------------------------------------------
    fn msg(&mut self, ch: u8, len: usize) -> Vec<u8> {
        self.msg_no += 1;
        payload::make(0x12, 0, ch, 0, self.msg_no, len, self.tag)
    }

    /// Message length: mostly small or exactly two slices (1201..=2400: two honest senders that
    /// reuse a message id then agree on num_slices, which keeps F1/F2 panics out of the way),
    /// sometimes exactly the free memory, sometimes one byte more (over budget).
    fn pick_len(&mut self, r: &mut Rng, free: usize) -> usize {
        match r.below(20) {
            0 => 0,
            1 => 1,
            2..=5 => r.urange(2, 200),
            6..=8 => r.urange(201, 1200),
            9 => 1200,
            10..=13 => r.urange(1201, 2400),
            14..=17 => free,
            18 => free + 1 + r.urange(0, 3),
            _ => r.urange(2, 400),
        }
    }

    fn capture(&mut self, pkts: &[Vec<u8>]) {
        for p in pkts {
            if self.captured.len() < 32 {
                self.captured.push(p.clone());
            } else {
                let i = self.rng.usize_below(32);
                self.captured[i] = p.clone();
            }
        }
    }

    fn hostile(&mut self, r: &mut Rng) -> (Vec<u8>, &'static str) {
        let rel: Vec<&ChanSpec> = self.chans.iter().filter(|c| c.kind.reliable()).collect();
        let rel_ch = rel[r.usize_below(rel.len())].clone();
        let known: Vec<u8> = self.chans.iter().map(|c| c.id).collect();
        let unknown = *[200u8, 255, 9, 77].iter().find(|c| !known.contains(c)).unwrap();
        self.craft_no += 1;
        let mid = (1u64 << 40) + self.craft_no;
        let seq = (1u64 << 35) + self.craft_no;
        match r.below(12) {
            0 => {
                let n = r.urange(0, 64);
                (r.bytes(n), "random")
            }
            1 => (Vec::new(), "empty"),
            2 | 3 if !self.captured.is_empty() => {
                let mut b = r.pick(&self.captured).clone();
                if r.chance(1, 2) && !b.is_empty() {
                    let n = r.usize_below(b.len());
                    b.truncate(n);
                    (b, "truncated")
                } else {
                    for _ in 0..r.range(1, 3) {
                        if !b.is_empty() {
                            let i = r.usize_below(b.len().min(12));
                            b[i] ^= 1 << r.below(8);
                        }
                    }
                    (b, "flipped-header")
                }
            }
            4 | 5 => {
                let p = Packet::SmallReliable {
                    sequence: seq,
                    channel_id: unknown,
                    messages: vec![(mid, Bytes::from(vec![7u8; 10]))],
                };
                (encode(&p).unwrap_or_default(), "unknown-channel-reliable")
            }
            6 => {
                // an unreliable packet addressed to a reliable channel id (wrong kind)
                let p = Packet::SmallUnreliable {
                    sequence: seq,
                    channel_id: rel_ch.id,
                    messages: vec![Bytes::from(vec![8u8; 5])],
                };
                (encode(&p).unwrap_or_default(), "wrong-kind-channel")
            }
            7 | 8 => {
                // announces more than the channel budget: ReceiveChannelError(MaxMemory)
                let p = Packet::ReliableSlice {
                    sequence: seq,
                    channel_id: rel_ch.id,
                    slice: Slice {
                        message_id: mid,
                        slice_index: 0,
                        num_slices: rel_ch.max_mem / 1200 + 2,
                        payload: Bytes::from(vec![9u8; 1200]),
                    },
                };
                (encode(&p).unwrap_or_default(), "slice-over-budget")
            }
            9 => {
                // non-last slice shorter than 1200: InvalidSliceMessage (if 2400 bytes are free)
                let p = Packet::ReliableSlice {
                    sequence: seq,
                    channel_id: rel_ch.id,
                    slice: Slice {
                        message_id: mid,
                        slice_index: 0,
                        num_slices: 2,
                        payload: Bytes::from(vec![9u8; 10]),
                    },
                };
                (encode(&p).unwrap_or_default(), "short-inner-slice")
            }
            10 => {
                let p = Packet::Ack {
                    sequence: seq,
                    ack_ranges: vec![0..5, 9..(1u64 << 40)],
                };
                (encode(&p).unwrap_or_default(), "wide-ack")
            }
            _ => (vec![r.range(5, 255) as u8, 1, 2, 3], "invalid-type"),
        }
    }

    fn abandon(&mut self, out: &mut Outcome, what: &str, class: &str) {
        self.aborted = true;
        out.count("panics_left_to_C06");
        out.note(&format!("panic during {} left to C06: {}", what, class));
    }

    // ---------------------------------------------------------------------------------------
    // operations
    // ---------------------------------------------------------------------------------------
    fn add_connection(&mut self, id: u64, ctx: &Ctx, out: &mut Outcome) {
        self.op(format!("server.add_connection({})", id));
        match self.sst[&id] {
            St::Dead(_) => out.count("add_connection_on_dead"),
            St::Alive => out.count("add_connection_on_healthy"),
            St::Absent => {}
        }
        self.server.add_connection(id);
        self.after("add_connection", Expect::Unspecified, Expect::Unspecified, &[id], &[], ctx, out);
    }

    fn remove_connection(&mut self, id: u64, ctx: &Ctx, out: &mut Outcome) {
        self.op(format!("server.remove_connection({})", id));
        if self.sst[&id] == St::Absent {
            out.count("remove_connection_on_absent");
        }
        self.server.remove_connection(id);
        self.after("remove_connection", Expect::Unspecified, Expect::Unspecified, &[id], &[], ctx, out);
    }

    fn disconnect(&mut self, id: u64, ctx: &Ctx, out: &mut Outcome) {
        self.op(format!("server.disconnect({})", id));
        if matches!(self.sst[&id], St::Dead(_)) {
            out.count("dead_status_call");
        }
        self.server.disconnect(id);
        self.after("disconnect", Expect::Exactly(DR::DisconnectedByServer), Expect::Unspecified, &[id], &[], ctx, out);
    }

    fn disconnect_all(&mut self, ctx: &Ctx, out: &mut Outcome) {
        self.op("server.disconnect_all()".into());
        self.server.disconnect_all();
        let ids = self.ids.clone();
        self.after("disconnect_all", Expect::Exactly(DR::DisconnectedByServer), Expect::Unspecified, &ids, &[], ctx, out);
    }

    fn push_client(&mut self, c: CObj) -> usize {
        if self.clients.len() < 6 {
            self.clients.push(c);
            self.clients.len() - 1
        } else {
            let dead: Vec<usize> = (0..self.clients.len()).filter(|k| self.clients[*k].dead.is_some()).collect();
            let k = if !dead.is_empty() && self.rng.chance(3, 4) { *self.rng.pick(&dead) } else { self.rng.usize_below(self.clients.len()) };
            self.clients[k] = c;
            k
        }
    }

    fn new_local_client(&mut self, id: u64, ctx: &Ctx, out: &mut Outcome) -> usize {
        self.op(format!("server.new_local_client({})", id));
        if matches!(self.sst[&id], St::Dead(_)) {
            out.count("add_connection_on_dead");
        }
        let c = self.server.new_local_client(id);
        let k = self.push_client(CObj { c, dead: None, local: true, peer: id });
        self.log.push(format!("   -> client k{}", k));
        self.after("new_local_client", Expect::Unspecified, Expect::Unspecified, &[id], &[k], ctx, out);
        k
    }

    fn new_client(&mut self, peer: u64, connected: bool, ctx: &Ctx, out: &mut Outcome) -> usize {
        self.op(format!("RenetClient::new (peer {}) connected={}", peer, connected));
        let mut c = RenetClient::new(self.cfg.clone());
        if connected {
            c.set_connected();
        }
        let k = self.push_client(CObj { c, dead: None, local: false, peer });
        self.log.push(format!("   -> client k{}", k));
        self.after("new_client", Expect::Unspecified, Expect::Unspecified, &[], &[k], ctx, out);
        k
    }

    fn disconnect_local_client(&mut self, id: u64, k: usize, ctx: &Ctx, out: &mut Outcome) {
        self.op(format!("server.disconnect_local_client({}, k{})", id, k));
        if self.clients[k].dead.is_some() {
            out.count("dead_status_call");
        }
        if matches!(self.sst[&id], St::Dead(_)) && self.clients[k].dead.is_none() {
            out.count("local_removal_of_dead_connection_attempted");
        }
        let World { server, clients, .. } = self;
        server.disconnect_local_client(id, &mut clients[k].c);
        self.after("disconnect_local_client", Expect::Unspecified, Expect::Exactly(DR::DisconnectedByClient), &[id], &[k], ctx, out);
    }

    fn process_local_client(&mut self, id: u64, k: usize, ctx: &Ctx, out: &mut Outcome) {
        self.op(format!("server.process_local_client({}, k{})", id, k));
        let sdead = matches!(self.sst[&id], St::Dead(_));
        let cdead = self.clients[k].dead.is_some();
        let before_s = self.server.verif_connection(id).map(|c| snap(c, &self.chans));
        let before_c = snap(&self.clients[k].c, &self.chans);
        let res = {
            let World { server, clients, .. } = self;
            watchdog::catch(|| server.process_local_client(id, &mut clients[k].c).is_ok())
        };
        match res {
            Err(c) => {
                self.abandon(out, "process_local_client", &c.class);
                return;
            }
            Ok(found) => {
                if !found {
                    out.count("process_local_client_not_found");
                }
            }
        }
        // a dead side neither emits nor accepts: its state must be untouched whatever the peer sent
        if sdead {
            out.count("dead_packet_offered");
            if let (Some(b), Some(a)) = (before_s, self.server.verif_connection(id).map(|c| snap(c, &self.chans))) {
                if let Some(what) = snap_diff(&b, &a) {
                    self.violate(ctx, out, &format!("C12/dead-accepts-packet/server/{}", what), "a disconnected connection accepts no packets", format!("server connection {} is disconnected but process_local_client changed its {}", id, what));
                }
            }
        }
        if cdead {
            out.count("dead_packet_offered");
            let a = snap(&self.clients[k].c, &self.chans);
            if let Some(what) = snap_diff(&before_c, &a) {
                self.violate(ctx, out, &format!("C12/dead-accepts-packet/client/{}", what), "a disconnected connection accepts no packets", format!("client k{} is disconnected but process_local_client changed its {}", k, what));
            }
        }
        self.after("process_local_client", Expect::PacketOrEmit, Expect::PacketOrEmit, &[id], &[k], ctx, out);
    }

    fn srv_send(&mut self, id: u64, ch: u8, len: usize, ctx: &Ctx, out: &mut Outcome) {
        let m = self.msg(ch, len);
        let fits = self.server.can_send_message(id, ch, len);
        self.op(format!("server.send_message({}, ch{}, len {}) can_send={}", id, ch, len, fits));
        if matches!(self.sst[&id], St::Dead(_)) {
            out.count("dead_send_attempt");
        }
        let reliable = self.chans.iter().any(|c| c.id == ch && c.kind != Kind::Unreliable);
        let was_live = self.sst[&id] == St::Alive;
        self.server.send_message(id, ch, m);
        if !fits && reliable && was_live && self.server.is_connected(id) {
            let d = format!("server connection {}: send_message(ch{}, {} bytes) although can_send_message was false left it connected", id, ch, len);
            self.violate(ctx, out, "C12/cause-ignored/server/send_message-over-budget", "every cause of disconnection (application, peer packet, budget, transport) disconnects the connection it is applied to", d);
        } else if !fits && reliable && was_live {
            out.count("budget_cause_checked");
        }
        self.after(
            "send_message",
            Expect::Exactly(DR::SendChannelError {
                channel_id: ch,
                error: ChannelError::ReliableChannelMaxMemoryReached,
            }),
            Expect::Unspecified,
            &[id],
            &[],
            ctx,
            out,
        );
    }

    fn broadcast(&mut self, ch: u8, len: usize, except: Option<u64>, ctx: &Ctx, out: &mut Outcome) {
        let m = self.msg(ch, len);
        self.op(format!("server.broadcast_message{}(ch{}, len {})", except.map_or(String::new(), |e| format!("_except({})", e)), ch, len));
        match except {
            Some(e) => self.server.broadcast_message_except(e, ch, m),
            None => self.server.broadcast_message(ch, m),
        }
        let ids = self.ids.clone();
        self.after(
            "broadcast_message",
            Expect::Exactly(DR::SendChannelError {
                channel_id: ch,
                error: ChannelError::ReliableChannelMaxMemoryReached,
            }),
            Expect::Unspecified,
            &ids,
            &[],
            ctx,
            out,
        );
    }

    fn srv_recv(&mut self, id: u64, ch: u8, ctx: &Ctx, out: &mut Outcome) {
        self.op(format!("server.receive_message({}, ch{})", id, ch));
        let dead = matches!(self.sst[&id], St::Dead(_));
        let m = self.server.receive_message(id, ch);
        if let Some(m) = &m {
            out.count("messages_obtained");
            if dead {
                out.count("dead_probe_receive");
                self.violate(ctx, out, "C12/dead-yields-message/server", "a disconnected connection yields no messages", format!("server connection {} is disconnected ({:?}) but receive_message(ch {}) returned a {}-byte message", id, self.sst[&id], ch, m.len()));
            }
        }
        self.after("receive_message", Expect::Unspecified, Expect::Unspecified, &[id], &[], ctx, out);
    }

    fn srv_process(&mut self, id: u64, bytes: &[u8], label: &str, ctx: &Ctx, out: &mut Outcome) {
        self.op(format!("server.process_packet_from({} [{}] {}, {})", label, bytes.len(), hex(&bytes[..bytes.len().min(20)]), id));
        let dead = matches!(self.sst[&id], St::Dead(_));
        let before = self.server.verif_connection(id).map(|c| snap(c, &self.chans));
        let server = &mut self.server;
        if let Err(c) = watchdog::catch(|| {
            let _ = server.process_packet_from(bytes, id);
        }) {
            self.abandon(out, "process_packet_from", &c.class);
            return;
        }
        if dead {
            out.count("dead_packet_offered");
            if let (Some(b), Some(a)) = (before, self.server.verif_connection(id).map(|c| snap(c, &self.chans))) {
                if let Some(what) = snap_diff(&b, &a) {
                    self.violate(ctx, out, &format!("C12/dead-accepts-packet/server/{}", what), "a disconnected connection accepts no packets", format!("server connection {} is disconnected but process_packet_from({}) changed its {}", id, label, what));
                }
            }
        }
        self.after("process_packet_from", Expect::Packet, Expect::Unspecified, &[id], &[], ctx, out);
    }

    /// server.get_packets_to_send(id); the packets optionally go to client `to`.
    fn srv_emit(&mut self, id: u64, to: Option<usize>, ctx: &Ctx, out: &mut Outcome) {
        self.op(format!("server.get_packets_to_send({}) -> {:?}", id, to.map(|k| format!("k{}", k))));
        let dead = matches!(self.sst[&id], St::Dead(_));
        let pkts = self.server.get_packets_to_send(id).unwrap_or_default();
        self.log.push(format!("   {} packet(s) {:?}", pkts.len(), pkts.iter().take(4).map(|p| decode(p).map_or("?".into(), |d| crate::rsim::brief(&d))).collect::<Vec<_>>()));
        if dead {
            out.count("dead_probe_emit");
            if !pkts.is_empty() {
                self.violate(ctx, out, "C12/dead-emits-packets/server", "a disconnected connection emits no packets", format!("server connection {} is disconnected ({:?}) but get_packets_to_send returned {} packet(s)", id, self.sst[&id], pkts.len()));
            }
        }
        self.capture(&pkts);
        self.after("get_packets_to_send", Expect::Emit, Expect::Unspecified, &[id], &[], ctx, out);
        if let Some(k) = to {
            for p in pkts {
                if self.aborted {
                    return;
                }
                self.cli_process(k, &p, "honest", ctx, out);
            }
        }
    }

    fn srv_update(&mut self, dt: u64, ctx: &Ctx, out: &mut Outcome) {
        self.op(format!("server.update({} ms)", dt));
        self.server.update(Duration::from_millis(dt));
        let ids = self.ids.clone();
        self.after("update", Expect::Unspecified, Expect::Unspecified, &ids, &[], ctx, out);
    }

    fn cli_status(&mut self, k: usize, which: u8, ctx: &Ctx, out: &mut Outcome) {
        let (name, exp): (&'static str, Expect) = match which {
            0 => ("set_connected", Expect::Unspecified),
            1 => ("set_connecting", Expect::Unspecified),
            2 => ("client.disconnect", Expect::Exactly(DR::DisconnectedByClient)),
            _ => ("disconnect_due_to_transport", Expect::Exactly(DR::Transport)),
        };
        self.op(format!("k{}.{}()", k, name));
        if self.clients[k].dead.is_some() {
            out.count("dead_status_call");
        } else if which >= 2 && self.clients[k].c.is_connecting() {
            out.count("causes_applied_while_connecting");
        }
        let c = &mut self.clients[k].c;
        match which {
            0 => c.set_connected(),
            1 => c.set_connecting(),
            2 => c.disconnect(),
            _ => c.disconnect_due_to_transport(),
        }
        self.after(name, Expect::Unspecified, exp, &[], &[k], ctx, out);
    }

    fn cli_send(&mut self, k: usize, ch: u8, len: usize, ctx: &Ctx, out: &mut Outcome) {
        let m = self.msg(ch, len);
        let fits = self.clients[k].c.can_send_message(ch, len);
        self.op(format!("k{}.send_message(ch{}, len {}) can_send={}", k, ch, len, fits));
        if self.clients[k].dead.is_some() {
            out.count("dead_send_attempt");
        }
        let reliable = self.chans.iter().any(|c| c.id == ch && c.kind != Kind::Unreliable);
        let was_live = self.clients[k].dead.is_none();
        self.clients[k].c.send_message(ch, m);
        if !fits && reliable && was_live && !self.clients[k].c.is_disconnected() {
            let c = &self.clients[k].c;
            let d = format!("client k{} (connected={} connecting={}): send_message(ch{}, {} bytes) although can_send_message was false left it alive", k, c.is_connected(), c.is_connecting(), ch, len);
            self.violate(ctx, out, "C12/cause-ignored/client/send_message-over-budget", "every cause of disconnection (application, peer packet, budget, transport) disconnects the connection it is applied to", d);
        } else if !fits && reliable && was_live {
            out.count("budget_cause_checked");
        }
        self.after(
            "client.send_message",
            Expect::Unspecified,
            Expect::Exactly(DR::SendChannelError {
                channel_id: ch,
                error: ChannelError::ReliableChannelMaxMemoryReached,
            }),
            &[],
            &[k],
            ctx,
            out,
        );
    }

    fn cli_recv(&mut self, k: usize, ch: u8, ctx: &Ctx, out: &mut Outcome) {
        self.op(format!("k{}.receive_message(ch{})", k, ch));
        let dead = self.clients[k].dead;
        let m = self.clients[k].c.receive_message(ch);
        if let Some(m) = &m {
            out.count("messages_obtained");
            if dead.is_some() {
                out.count("dead_probe_receive");
                self.violate(ctx, out, "C12/dead-yields-message/client", "a disconnected connection yields no messages", format!("client k{} is disconnected ({:?}) but receive_message(ch {}) returned a {}-byte message", k, dead, ch, m.len()));
            }
        }
        self.after("client.receive_message", Expect::Unspecified, Expect::Unspecified, &[], &[k], ctx, out);
    }

    fn cli_process(&mut self, k: usize, bytes: &[u8], label: &str, ctx: &Ctx, out: &mut Outcome) {
        self.op(format!("k{}.process_packet({} [{}] {})", k, label, bytes.len(), hex(&bytes[..bytes.len().min(20)])));
        let dead = self.clients[k].dead.is_some();
        let before = snap(&self.clients[k].c, &self.chans);
        let c = &mut self.clients[k].c;
        if let Err(e) = watchdog::catch(|| c.process_packet(bytes)) {
            self.abandon(out, "process_packet", &e.class);
            return;
        }
        if dead {
            out.count("dead_packet_offered");
            let a = snap(&self.clients[k].c, &self.chans);
            if let Some(what) = snap_diff(&before, &a) {
                self.violate(ctx, out, &format!("C12/dead-accepts-packet/client/{}", what), "a disconnected connection accepts no packets", format!("client k{} is disconnected but process_packet({}) changed its {}", k, label, what));
            }
        }
        self.after("process_packet", Expect::Unspecified, Expect::Packet, &[], &[k], ctx, out);
    }

    fn cli_emit(&mut self, k: usize, deliver: bool, ctx: &Ctx, out: &mut Outcome) {
        let peer = self.clients[k].peer;
        self.op(format!("k{}.get_packets_to_send() -> {}", k, if deliver { format!("server id {}", peer) } else { "dropped".into() }));
        let dead = self.clients[k].dead;
        let pkts = self.clients[k].c.get_packets_to_send();
        self.log.push(format!("   {} packet(s) {:?}", pkts.len(), pkts.iter().take(4).map(|p| decode(p).map_or("?".into(), |d| crate::rsim::brief(&d))).collect::<Vec<_>>()));
        if dead.is_some() {
            out.count("dead_probe_emit");
            if !pkts.is_empty() {
                self.violate(ctx, out, "C12/dead-emits-packets/client", "a disconnected connection emits no packets", format!("client k{} is disconnected ({:?}) but get_packets_to_send returned {} packet(s)", k, dead, pkts.len()));
            }
        }
        self.capture(&pkts);
        self.after("client.get_packets_to_send", Expect::Unspecified, Expect::Emit, &[], &[k], ctx, out);
        if deliver {
            for p in pkts {
                if self.aborted {
                    return;
                }
                self.srv_process(peer, &p, "honest", ctx, out);
            }
        }
    }

    fn cli_update(&mut self, k: usize, dt: u64, ctx: &Ctx, out: &mut Outcome) {
        self.op(format!("k{}.update({} ms)", k, dt));
        self.clients[k].c.update(Duration::from_millis(dt));
        self.after("client.update", Expect::Unspecified, Expect::Unspecified, &[], &[k], ctx, out);
    }

    // ---------------------------------------------------------------------------------------
    // scripted prelude: every cause of disconnection and every kind of removal once
    // ---------------------------------------------------------------------------------------
    fn prelude(&mut self, r: &mut Rng, ctx: &Ctx, out: &mut Outcome) {
        let a = self.ids[0];
        let b = self.ids[1];
        let rel = self.chans.iter().find(|c| c.kind.reliable()).unwrap().clone();
        let chs: Vec<u8> = self.chans.iter().map(|c| c.id).collect();

        // 1. healthy removal by the transport, then reconnect of the same id
        self.add_connection(a, ctx, out);
        self.remove_connection(a, ctx, out);
        self.add_connection(a, ctx, out);
        // 2. application disconnect with backlog in both directions, then packets / status calls
        let k = self.new_client(a, true, ctx, out);
        self.cli_send(k, rel.id, 300, ctx, out);
        self.cli_send(k, rel.id, 1500.min(rel.max_mem / 2), ctx, out);
        self.cli_emit(k, true, ctx, out);
        self.srv_send(a, rel.id, 200, ctx, out);
        self.srv_emit(a, Some(k), ctx, out);
        if self.aborted {
            return;
        }
        self.disconnect(a, ctx, out);
        self.cli_send(k, rel.id, 100, ctx, out);
        self.cli_emit(k, true, ctx, out); // packets into a dead server connection
        self.srv_emit(a, Some(k), ctx, out); // dead connection must emit nothing
        for ch in chs.iter() {
            self.srv_recv(a, *ch, ctx, out);
        }
        self.add_connection(a, ctx, out); // must not revive or replace
        self.disconnect(a, ctx, out);
        self.srv_update(50, ctx, out);
        self.remove_connection(a, ctx, out); // reports DisconnectedByServer
        // 3. client-side causes on the old peer
        self.cli_status(k, 3, ctx, out); // transport
        self.cli_status(k, 0, ctx, out);
        self.cli_status(k, 1, ctx, out);
        self.cli_status(k, 2, ctx, out);
        self.cli_emit(k, false, ctx, out);
        let (h, l) = self.hostile(r);
        self.cli_process(k, &h, l, ctx, out);
        // 4. budget overrun on a server connection
        self.add_connection(b, ctx, out);
        let free = self.server.channel_available_memory(b, rel.id);
        self.srv_send(b, rel.id, free.min(2000), ctx, out);
        let free = self.server.channel_available_memory(b, rel.id);
        self.srv_send(b, rel.id, free + 1, ctx, out);
        self.srv_emit(b, None, ctx, out);
        self.remove_connection(b, ctx, out);
        // 5. local clients: healthy removal by disconnect_local_client
        let k2 = self.new_local_client(b, ctx, out);
        self.cli_send(k2, rel.id, 64, ctx, out);
        self.process_local_client(b, k2, ctx, out);
        if self.aborted {
            return;
        }
        self.disconnect_local_client(b, k2, ctx, out);
        self.disconnect_local_client(b, k2, ctx, out);
        // 6. the server disconnects first, then the local client leaves (first reason = server's)
        let k3 = self.new_local_client(b, ctx, out);
        self.disconnect(b, ctx, out);
        self.process_local_client(b, k3, ctx, out);
        if self.aborted {
            return;
        }
        self.disconnect_local_client(b, k3, ctx, out);
        // 7. hostile packets on fresh server connections: one per packet cause
        for want in 0..3 {
            self.add_connection(a, ctx, out);
            let pkt = match want {
                0 => vec![250u8, 1, 2],
                1 => encode(&Packet::SmallReliable {
                    sequence: 1,
                    channel_id: 201,
                    messages: vec![(0, Bytes::from(vec![1u8; 4]))],
                })
                .unwrap_or_default(),
                _ => encode(&Packet::ReliableSlice {
                    sequence: 2,
                    channel_id: rel.id,
                    slice: Slice {
                        message_id: 1 << 41,
                        slice_index: 0,
                        num_slices: rel.max_mem / 1200 + 2,
                        payload: Bytes::from(vec![3u8; 1200]),
                    },
                })
                .unwrap_or_default(),
            };
            self.srv_process(a, &pkt, "scripted-hostile", ctx, out);
            if self.aborted {
                return;
            }
            self.srv_process(a, &pkt, "scripted-hostile-again", ctx, out);
            if self.aborted {
                return;
            }
            self.remove_connection(a, ctx, out);
        }
        // 8. a stand-alone client over its own budget, then status calls
        let k4 = self.new_client(a, false, ctx, out);
        let free = self.clients[k4].c.channel_available_memory(rel.id);
        self.cli_send(k4, rel.id, free + 1, ctx, out);
        self.cli_status(k4, 0, ctx, out);
        self.cli_status(k4, 1, ctx, out);
        self.cli_recv(k4, rel.id, ctx, out);
        self.drain_events(r.urange(1, 50), ctx, out);
    }

    // ---------------------------------------------------------------------------------------
    // one random step
    // ---------------------------------------------------------------------------------------
    fn any_client(&mut self, r: &mut Rng, ctx: &Ctx, out: &mut Outcome) -> usize {
        if self.clients.is_empty() {
            let peer = *r.pick(&self.ids);
            return self.new_client(peer, true, ctx, out);
        }
        r.usize_below(self.clients.len())
    }

    fn step(&mut self, r: &mut Rng, ctx: &Ctx, out: &mut Outcome) {
        let id = *r.pick(&self.ids);
        let chs: Vec<u8> = self.chans.iter().map(|c| c.id).collect();
        let ch = *r.pick(&chs);
        match r.below(100) {
            0..=5 => {
                let was_absent = self.sst[&id] == St::Absent;
                self.add_connection(id, ctx, out);
                // usually give a fresh connection a fresh remote peer (message ids in step)
                if was_absent && r.chance(2, 3) {
                    self.new_client(id, true, ctx, out);
                }
            }
            6..=8 => self.remove_connection(id, ctx, out),
            9..=10 => self.disconnect(id, ctx, out),
            11 => {
                if r.chance(1, 4) {
                    self.disconnect_all(ctx, out)
                } else {
                    self.srv_update(r.range(0, 200), ctx, out)
                }
            }
            12..=14 => {
                self.new_local_client(id, ctx, out);
            }
            15..=17 => {
                let k = self.any_client(r, ctx, out);
                // prefer a local client of this id
                let pref: Vec<usize> = (0..self.clients.len()).filter(|k| self.clients[*k].local && self.clients[*k].peer == id).collect();
                let k = if !pref.is_empty() && r.chance(3, 4) { *r.pick(&pref) } else { k };
                self.disconnect_local_client(id, k, ctx, out);
            }
            18..=25 => {
                let k = self.any_client(r, ctx, out);
                let pref: Vec<usize> = (0..self.clients.len()).filter(|k| self.clients[*k].peer == id).collect();
                let k = if !pref.is_empty() && r.chance(4, 5) { *r.pick(&pref) } else { k };
                self.process_local_client(id, k, ctx, out);
            }
            26..=33 => {
                let free = self.server.channel_available_memory(id, ch);
                let len = self.pick_len(r, free);
                self.srv_send(id, ch, len, ctx, out);
            }
            34..=35 => {
                let len = r.urange(0, 1300);
                let except = if r.chance(1, 2) { Some(*r.pick(&self.ids)) } else { None };
                self.broadcast(ch, len, except, ctx, out);
            }
            36..=44 => self.srv_recv(id, ch, ctx, out),
            45..=47 => {
                let (b, l) = self.hostile(r);
                self.srv_process(id, &b, l, ctx, out);
            }
            48..=56 => {
                let peers: Vec<usize> = (0..self.clients.len()).filter(|k| self.clients[*k].peer == id).collect();
                let to = if peers.is_empty() || r.chance(1, 8) { None } else { Some(*r.pick(&peers)) };
                self.srv_emit(id, to, ctx, out);
            }
            57..=59 => self.srv_update(*r.pick(&[0u64, 1, 16, 100, 3000]), ctx, out),
            60..=63 => {
                let max = if r.chance(1, 3) { 1 } else { usize::MAX };
                self.drain_events(max, ctx, out);
            }
            64..=66 => {
                let k = self.any_client(r, ctx, out);
                self.cli_status(k, r.below(2) as u8, ctx, out);
            }
            67 => {
                let k = self.any_client(r, ctx, out);
                self.cli_status(k, 2 + r.below(2) as u8, ctx, out);
            }
            68..=75 => {
                let k = self.any_client(r, ctx, out);
                let free = self.clients[k].c.channel_available_memory(ch);
                let len = self.pick_len(r, free);
                self.cli_send(k, ch, len, ctx, out);
            }
            76..=83 => {
                let k = self.any_client(r, ctx, out);
                self.cli_recv(k, ch, ctx, out);
            }
            84..=85 => {
                let k = self.any_client(r, ctx, out);
                let (b, l) = self.hostile(r);
                self.cli_process(k, &b, l, ctx, out);
            }
            86..=95 => {
                let k = self.any_client(r, ctx, out);
                self.cli_emit(k, !r.chance(1, 8), ctx, out);
            }
            96..=97 => {
                let k = self.any_client(r, ctx, out);
                self.cli_update(k, *r.pick(&[0u64, 1, 16, 100, 3000]), ctx, out);
            }
            _ => {
                self.new_client(id, r.chance(3, 4), ctx, out);
            }
        }
    }
}

pub fn one_run(ctx: &Ctx, out: &mut Outcome, run_seed: u64) {
    let mut r = Rng::new(run_seed);
    let mut w = World::new(&mut r, run_seed);
    w.prelude(&mut r, ctx, out);
    let n_ops = r.range(400, 1600);
    let mut i = 0;
    // a late-polling application: once per run (1 in 3) a long churn of connects and removals during which get_event
    // is never called, hundreds of unread events; then everything is polled
    let churn_at = if r.chance(1, 3) { Some(r.range(0, n_ops)) } else { None };
    while i < n_ops && !w.aborted && !out.should_stop() {
        if Some(i) == churn_at {
            let rounds = r.range(130, 220);
            let ids = w.ids.clone();
            for k in 0..rounds {
                let id = ids[(k as usize) % ids.len()];
                w.add_connection(id, ctx, out);
                if r.chance(1, 2) {
                    w.disconnect(id, ctx, out);
                }
                w.remove_connection(id, ctx, out);
                if w.aborted {
                    break;
                }
            }
            out.count("late_polling_churns");
            out.add("late_polling_unread_events_at_least", rounds * 2);
            w.drain_events(usize::MAX, ctx, out);
        }
        w.step(&mut r, ctx, out);
        i += 1;
    }
    if !w.aborted {
        w.finish(ctx, out);
    } else {
        out.count("runs_abandoned_after_panic");
    }
    let nontrivial = w.causes.len() >= 3 && w.dead_removals >= 1 && w.dead_probes >= 20;
    out.eval(w.fp.finish(), nontrivial);
    if nontrivial && out.samples.len() < out.max_samples {
        out.sample(json!({
            "run_seed": format!("{:#x}", run_seed),
            "cfg": w.describe(),
            "calls": w.calls,
            "causes": w.causes,
            "first_operations": w.log_head,
        }));
    }
}
