//! C03 integrity / fragmentation / no cross-delivery, all channel kinds; unreliable delivery
//! count bound.

use crate::link::ALL_RANDOM_PROFILES;
use crate::oracles::{IntegrityOracle, OrderedOracle, SizeMonitor, UnorderedOracle};
use crate::outcome::{Ctx, Outcome, PropInfo};
use crate::rng::Rng;
use crate::rsim::{CfgGen, Kind, Monitor};
use crate::traffic::{self, CoverageMonitor, Plan};

pub static INFO: PropInfo = PropInfo {
    id: "C03",
    level: "exploration",
    rule: "one evaluation = one simulated session (1-3 connections on one server) with traffic on all three channel kinds in both directions, boundary-weighted message lengths (0, 1, 1189..1201, 2399..2401, k*1200-1/0/+1, up to 300 KB), several messages of several channels per tick so slices interleave, seeded loss / duplication / delay / reordering per datagram. Oracle: every obtained message must be byte-identical to a submission on the same (connection, direction, channel) (self-describing keyed payloads); for Unreliable channels the harness attributes each message to the packets that carried it (crate decoder) and the number of times it is obtained must not exceed the minimum number of delivered copies over those packets. Non-trivial = faults occurred AND at least one sliced message was obtained; distinct = distinct event-log fingerprints.",
    assumptions: &[
        "messages shorter than 24 bytes carry no header and are matched by content within their channel",
        "ChaCha/transport layers are not involved here (see C20 for the full stack)",
    ],
    gates: &[
        ("integrity_recv", 500),
        ("unreliable_recv", 50),
        ("len0", 1),
        ("len1200", 1),
        ("len1201", 1),
        ("len_k1200", 1),
        ("len_k1200+1", 1),
        ("len_k1200-1", 1),
        ("unreliable_sliced_lost_because_a_slice_was_lost", 1),
        ("unreliable_sliced_partial_never_obtained", 1),
        ("unreliable_delivered_twice_legitimately", 1),
        ("wire_packed_reliable", 1),
        ("wire_packed_unreliable", 1),
    ],
    engines_quick: &["e1"],
    engines_thorough: &["e1"],
    run,
};

pub fn run(ctx: &Ctx, out: &mut Outcome) {
    super::run_loop(ctx, out, 4000, 400_000, 3, one_run);
}

pub fn one_run(ctx: &Ctx, out: &mut Outcome, run_seed: u64) {
    let mut r = Rng::new(run_seed);
    let gen = CfgGen {
        max_clients: 3,
        small_budgets: r.chance(1, 3),
        min_bytes_per_tick: 1200,
        profiles: ALL_RANDOM_PROFILES.to_vec(),
    };
    let cfg = gen.gen(&mut r);
    let plan = Plan {
        fault_ticks: r.range(5, if ctx.thorough() { 150 } else { 60 }),
        rate_x100: *r.pick(&[100u64, 250, 600]),
        max_msgs: r.range(20, 300),
        kinds: vec![Kind::ReliableOrdered, Kind::ReliableUnordered, Kind::Unreliable],
        allow_large: r.chance(1, 4),
        tail_ticks: r.range(0, 40),
        liveness: false,
        flood: false,
        max_len: 400_000,
    };
    let mut mons: Vec<Box<dyn Monitor>> = vec![
        Box::new(IntegrityOracle::new("C03")),
        Box::new(OrderedOracle::new("C03", false)),
        Box::new(UnorderedOracle::new("C03", false, false)),
        Box::new(CoverageMonitor::new()),
        Box::new(SizeMonitor { prop: "C13" }),
    ];
    let before_sliced = out.get("len_k1200") + out.get("len_k1200+1") + out.get("len_k1200-1") + out.get("len_multi") + out.get("len_large") + out.get("len1201") + out.get("len1202-2398") + out.get("len2399-2401");
    let (s, sim) = traffic::run(ctx, out, cfg, &plan, run_seed, &mut mons);
    let after_sliced = out.get("len_k1200") + out.get("len_k1200+1") + out.get("len_k1200-1") + out.get("len_multi") + out.get("len_large") + out.get("len1201") + out.get("len1202-2398") + out.get("len2399-2401");
    let faults = s.dropped + s.duplicated + s.reordered > 0;
    let nontrivial = faults && after_sliced > before_sliced;
    out.eval(s.fingerprint, nontrivial);
    if out.samples.len() < out.max_samples && nontrivial {
        out.sample(traffic::sample_value(&sim, &s));
    }
}
