//! C03 integrity / fragmentation / no cross-delivery, all channel kinds; unreliable delivery
//! count bound.

use crate::link::ALL_RANDOM_PROFILES;
use crate::oracles::{IntegrityOracle, OrderedOracle, SizeMonitor, UnorderedOracle};
use crate::outcome::{Ctx, Outcome, PropInfo};
use crate::rng::Rng;
use crate::rsim::{CfgGen, Kind, Monitor};
use crate::traffic::{self, CoverageMonitor, Plan};

pub static INFO: PropInfo = PropInfo {
    id: "C03",
    level: "exploration",
    rule: "one evaluation = one simulated session (1-3 connections on one server) with traffic on all three channel kinds in both directions, boundary-weighted message lengths (0, 1, 1189..1201, 2399..2401, k*1200-1/0/+1, up to 300 KB), several messages of several channels per tick so slices interleave, seeded loss / duplication / delay / reordering per datagram. Oracle: every obtained message must be byte-identical to a submission on the same (connection, direction, channel) (self-describing keyed payloads); for Unreliable channels the harness attributes each message to the packets that carried it (crate decoder) and the number of times it is obtained must not exceed the minimum number of delivered copies over those packets. Non-trivial = faults occurred AND at least one sliced message was obtained; distinct = distinct event-log fingerprints. In addition one LONG BURST per check (per shard in the thorough tier): more than 2^16 two-slice unreliable messages on one channel within ~130 ms of connection time, sliced ids starting at 0 or just below 2^16 / 2^32 / 2^48, a few of the first 200 left incomplete; every obtained message must be exactly one submitted message, once, and none of the incomplete ones.",
    assumptions: &[
        "messages shorter than 24 bytes carry no header and are matched by content within their channel",
        "ChaCha/transport layers are not involved here (see C20 for the full stack)",
    ],
    gates: &[
        ("integrity_recv", 500),
        ("unreliable_recv", 50),
        ("len0", 1),
        ("len1200", 1),
        ("len1201", 1),
        ("len_k1200", 1),
        ("len_k1200+1", 1),
        ("len_k1200-1", 1),
        ("unreliable_sliced_lost_because_a_slice_was_lost", 1),
        ("unreliable_sliced_partial_never_obtained", 1),
        ("unreliable_delivered_twice_legitimately", 1),
        ("wire_packed_reliable", 1),
        ("wire_packed_unreliable", 1),
        ("long_burst_messages_obtained", 60_000),
    ],
    engines_quick: &["e1"],
    engines_thorough: &["e1"],
    run,
};

pub fn run(ctx: &Ctx, out: &mut Outcome) {
    if ctx.replay_seed.is_none() && (ctx.shard == 0 || ctx.thorough()) {
        long_burst(ctx, out);
    }
    super::run_loop(ctx, out, 4000, 400_000, 3, one_run);
}

/// More than 2^16 sliced unreliable messages on one channel within well under 3 s of connection time, a handful of
/// them left incomplete (one slice dropped): fragments are keyed by message id on the receiver, so any narrowing or
/// reuse of that id (on the wire or in the tables) stitches a late message into a stale fragment. Every obtained
/// message must be exactly one submitted message, at most once, and none of the incomplete ones.
fn long_burst(ctx: &Ctx, out: &mut Outcome) {
    use crate::payload;
    use crate::rsim::{decode, ChanSpec};
    use bytes::Bytes;
    use renet::verif::Packet;
    use renet::{ConnectionConfig, RenetClient, RenetServer};
    use std::collections::HashSet;
    use std::time::Duration;
    let seed = ctx.shard_seed(0xB0057);
    let mut r = Rng::new(seed);
    let chans = vec![ChanSpec { id: 0, kind: Kind::Unreliable, resend_ms: 0, max_mem: 256 << 20 }];
    let cc = ConnectionConfig {
        available_bytes_per_tick: 4_000_000_000,
        server_channels_config: chans.iter().map(|c| c.to_config()).collect(),
        client_channels_config: chans.iter().map(|c| c.to_config()).collect(),
    };
    let mut server = RenetServer::new(cc.clone());
    let id = 31;
    server.add_connection(id);
    let mut client = RenetClient::new(cc);
    client.set_connected();
    // the id counter starts below another width boundary in half of the bursts
    let start_id = if r.chance(1, 2) { 0 } else { *r.pick(&[(1u64 << 32) - 700, (1 << 16) - 3, (1 << 48) - 9]) };
    if let Some(c) = server.verif_connection_mut(id) {
        c.verif_seed_unreliable_sliced_id(start_id);
    }
    let total: u64 = 65_536 + r.range(2, 300);
    let per_tick = 512u64;
    // incomplete ones: the first, and a few more in the first 200
    let mut incomplete: HashSet<u64> = HashSet::new();
    incomplete.insert(0);
    for _ in 0..r.range(1, 5) {
        incomplete.insert(r.below(200));
    }
    let tag = r.next_u64();
    let dt = Duration::from_millis(1);
    let mut obtained: HashSet<u64> = HashSet::new();
    let mut sent = 0u64;
    let mut ticks = 0u64;
    let mut slice_packets = 0u64;
    let mut bad: Option<String> = None;
    while (sent < total || ticks < total / per_tick + 3) && bad.is_none() {
        ticks += 1;
        server.update(dt);
        client.update(dt);
        let mut n = 0;
        while sent < total && n < per_tick {
            let len = 1201 + (sent % 5) as usize;
            server.send_message(id, 0, Bytes::from(payload::make(3, 1, 0, 0, sent, len, tag)));
            sent += 1;
            n += 1;
        }
        for p in server.get_packets_to_send(id).unwrap_or_default() {
            // which message a slice packet belongs to is known from its position in the stream (two slice packets per
            // message, in submission order), not from the id it carries
            if let Some(Packet::UnreliableSlice { .. }) = decode(&p) {
                let (i, slice_index) = (slice_packets / 2, slice_packets % 2);
                slice_packets += 1;
                if slice_index == 1 && incomplete.contains(&i) {
                    continue; // lost
                }
            }
            client.process_packet(&p);
        }
        for p in client.get_packets_to_send() {
            let _ = server.process_packet_from(&p, id);
        }
        while let Some(m) = client.receive_message(0) {
            out.count("long_burst_messages_obtained");
            let ok = payload::self_consistent(&m);
            let idx = payload::parse(&m).map(|h| h.idx);
            if !ok {
                bad = Some(format!("obtained a {}-byte message that is not any submitted message (header index {:?}): stitched from fragments of different messages or corrupted", m.len(), idx));
                break;
            }
            let idx = idx.unwrap();
            if incomplete.contains(&idx) {
                bad = Some(format!("obtained message #{} although one of its slices was never delivered", idx));
                break;
            }
            if !obtained.insert(idx) {
                bad = Some(format!("obtained message #{} twice on a network that duplicated nothing", idx));
                break;
            }
        }
        if client.is_disconnected() || !server.is_connected(id) {
            bad = Some(format!("an endpoint disconnected during the burst: client {:?}", client.disconnect_reason()));
        }
    }
    out.count("long_burst_runs");
    out.eval(crate::rng::mix(&[0xB0057, seed]), true);
    if let Some(d) = bad {
        out.violation(
            ctx,
            "C03/integrity/long-burst",
            "every obtained message is byte-identical to a message the peer submitted on that channel; a lost slice makes the whole message disappear rather than yield a partial or stitched one",
            format!("burst of {} two-slice unreliable messages in {} ms of connection time (sliced ids from {:#x}), {} left incomplete: {}", total, ticks, start_id, incomplete.len(), d),
            serde_json::json!({"property": "C03", "engine": ctx.engine, "mode": "long-burst", "seed": seed, "start_id": format!("{:#x}", start_id), "messages": total}),
        );
    } else if obtained.len() as u64 + incomplete.len() as u64 != total {
        out.note(&format!("long burst: {} of {} complete messages obtained", obtained.len(), total - incomplete.len() as u64));
    }
}

pub fn one_run(ctx: &Ctx, out: &mut Outcome, run_seed: u64) {
    let mut r = Rng::new(run_seed);
    let gen = CfgGen {
        max_clients: 3,
        small_budgets: r.chance(1, 3),
        min_bytes_per_tick: 1200,
        profiles: ALL_RANDOM_PROFILES.to_vec(),
    };
    let cfg = gen.gen(&mut r);
    let plan = Plan {
        fault_ticks: r.range(5, if ctx.thorough() { 150 } else { 60 }),
        rate_x100: *r.pick(&[100u64, 250, 600]),
        max_msgs: r.range(20, 300),
        kinds: vec![Kind::ReliableOrdered, Kind::ReliableUnordered, Kind::Unreliable],
        allow_large: r.chance(1, 4),
        tail_ticks: r.range(0, 40),
        liveness: false,
        flood: false,
        max_len: 400_000,
        overload: false,
    };
    let mut mons: Vec<Box<dyn Monitor>> = vec![
        Box::new(IntegrityOracle::new("C03")),
        Box::new(OrderedOracle::new("C03", false)),
        Box::new(UnorderedOracle::new("C03", false, false)),
        Box::new(CoverageMonitor::new()),
        Box::new(SizeMonitor { prop: "C13" }),
    ];
    let before_sliced = out.get("len_k1200") + out.get("len_k1200+1") + out.get("len_k1200-1") + out.get("len_multi") + out.get("len_large") + out.get("len1201") + out.get("len1202-2398") + out.get("len2399-2401");
    let (s, sim) = traffic::run(ctx, out, cfg, &plan, run_seed, &mut mons);
    let after_sliced = out.get("len_k1200") + out.get("len_k1200+1") + out.get("len_k1200-1") + out.get("len_multi") + out.get("len_large") + out.get("len1201") + out.get("len1202-2398") + out.get("len2399-2401");
    let faults = s.dropped + s.duplicated + s.reordered > 0;
    let nontrivial = faults && after_sliced > before_sliced;
    out.eval(s.fingerprint, nontrivial);
    if out.samples.len() < out.max_samples && nontrivial {
        out.sample(traffic::sample_value(&sim, &s));
    }
}
