//! C11 — isolation between clients and channels; a broadcast reaches exactly its targets.
//!
//! Driver: a private star driver (`Star`) around `rsim::Sim` (not edited): sessions can join
//! (a new connection index with a fresh client id is appended to the simulator) and leave
//! (`remove_connection`, `disconnect` + removal by the "transport", or the client disconnecting
//! itself), a hostile subset injects garbage / forged / replayed foreign datagrams into
//! `process_packet_from` under its own id, and one client has one message of one ordered
//! server->client channel dropped forever (every datagram carrying it is removed from the link),
//! which stalls that ordered stream at its head.
//!
//! Oracle (`IsolationOracle`, what the statement demands and nothing more):
//!  * unconditional: a message obtained by client k on channel c is byte-identical to a message
//!    that was *addressed to k on c*: a unicast `send_message(id_k, c, ..)`, or a
//!    `broadcast_message(_except)` issued while the server reported `is_connected(id_k)` and k was
//!    not the excluded id. On reliable channels it is obtained at most once.
//!  * unconditional: a message obtained by the server under id_k was sent by client k on that
//!    channel (at most once on reliable channels). Hostile clients are exempt: they do put
//!    foreign bytes on the wire under their own id.
//!  * bounded delivery: at the deadline (computed from the backlog of the undisturbed clients
//!    only), every client that is not hostile, was never told to leave and is connected on both
//!    sides has obtained exactly once every message addressed to it on every reliable channel
//!    (except the one stalled channel of the stalled client), and the server has obtained all its
//!    reliable upstream messages. A broadcast is thus obtained exactly once by every client that
//!    was connected at call time and stayed connected.
//!  * a client that is not hostile and was never told to leave must not be found disconnected
//!    with a reason that only a foreign packet or a foreign API call can produce
//!    (PacketDeserialization, ReceivedInvalidChannelId, InvalidSliceMessage, DisconnectedBy*,
//!    Transport): the harness delivered only its own peer's datagrams to it. Since F3 / F4 / F26 are repaired
//!    memory and serialization reasons are judged as well (a channel that ends the connection for a limit it
//!    never exceeded takes the client's other channels with it).
//!  * the shared `OrderedOracle` (both directions, broadcasts included in each target's stream)
//!    and `UnorderedOracle` (client->server only, with promptness) run on all undisturbed
//!    connections with their C01/C02 clauses.
//!
//! Signatures: C11/unicast-obtained-by-other-client, C11/broadcast-obtained-by-excluded,
//! C11/broadcast-obtained-by-not-connected, C11/message-for-absent-id-obtained,
//! C11/obtained-unknown-message/{client|server}, C11/corrupted/{client|server},
//! C11/cross-channel/{client|server}, C11/obtained-under-other-id, C11/duplicate/{client|server},
//! C11/liveness/{broadcast|unicast|upstream}, C11/healthy-client-disconnected/<reason class>,
//! plus C11/ordered-prefix/*, C11/ordered-liveness, C11/unordered/* from the shared oracles.

use crate::link::{Link, LinkCfg, Profile, ALL_RANDOM_PROFILES};
use crate::oracles::{OrderedOracle, SizeMonitor, UnorderedOracle};
use crate::outcome::{Ctx, Outcome, PropInfo};
use crate::payload;
use crate::rng::Rng;
use crate::rsim::{decode, CfgGen, DrainMode, DtMode, Ev, Kind, Monitor, Side, Sim, DOWN, UP};
use crate::traffic::{self, CoverageMonitor};
use crate::watchdog;
use bytes::Bytes;
use renet::verif::Packet;
use renet::{ChannelError, DisconnectReason as DR, RenetClient};
use serde_json::json;
use std::cell::RefCell;
use std::collections::{BTreeMap, BTreeSet, HashMap, HashSet};
use std::rc::Rc;
use std::time::Duration;

pub static INFO: PropInfo = PropInfo {
    id: "C11",
    level: "exploration",
    rule: "one evaluation = one simulated star session: one server, 2-8 initial clients with independent fault profiles per client and direction, clients joining (fresh id) and leaving (remove_connection / disconnect / client-side disconnect) at random ticks, unicast both ways, broadcast_message and broadcast_message_except on all channel kinds, 0-2 hostile clients whose ids receive random, mutated, forged and replayed foreign datagrams, one client with one ordered server->client message dropped forever (head-of-line stall); then the links heal and a deadline computed from the undisturbed clients only is awaited. In a third of the runs one broadcast goes out although one undisturbed target's reliable send budget is exhausted at the library (can_send_message false): that target is dropped by the server (the documented consequence, from then on a client that was told to leave) or is owed the message like everybody else. Now and then add_connection is called again for an id that is connected (documented as a no-op: the live connection is not disturbed). Oracle: obtained only if addressed / at most once / only under the sender's id (unconditional), exactly-once delivery of every unicast and broadcast to every undisturbed client that stayed connected, no foreign-cause disconnect of an undisturbed client, C01/C02 oracles per undisturbed connection. Non-trivial = at least one broadcast and one broadcast_except were judged for delivery, at least one disturbance (hostile datagram accepted, leave, or stall) happened and link faults occurred; distinct = distinct event-log fingerprints. One run in 10 is a HOST-PLAYER run instead (c11_host.rs): one remote and one LOCAL client (new_local_client / process_local_client / disconnect_local_client), channel lists that differ between the directions in 3 of 4 runs (disjoint ids, same ids with rotated kinds, fewer channels upstream), lossless exchange, unicasts, broadcasts and upstream messages of 24..5000 bytes; in 2 of 3 runs the local client disconnects itself, is closed with disconnect_local_client and opened again under the same id; every obtained message must have been addressed to that client on that channel (once on reliable channels, in order on ordered ones), nobody may end up disconnected, the closed local session must be gone, and after 30 quiet ticks every reliable message must have been obtained.",
    assumptions: &[
        "every message is >= 24 bytes so that it carries its address (connection / 0xFF for broadcast + flags, direction, channel, index) in its header",
        "sessions use fresh client ids (re-use of an id is C10/C12 matter)",
        "bounded liveness: deadline = 3*(ceil(resend/dt)+2) + 4*ceil((backlog+64 slices)/(budget-1199-2400)) + 20 ticks after the links heal, backlog of undisturbed clients only; budgets >= 6000 so that the permanently retransmitted stalled message cannot starve the other channels of its own client",
        "a broadcast is only issued when every target is within its send / receive memory window (an over-budget reliable send disconnects by design)",
        "panics of the code under test on hostile datagrams are left to C06 (run abandoned, counted)",
        "as-soon-as-complete (C02 promptness) is checked client->server only; server->client unordered channels carry broadcasts whose index is not a per-connection position",
    ],
    gates: &[
        ("broadcast_obligations_checked", 2000),
        ("broadcast_except_obligations_checked", 500),
        ("unicast_obligations_checked", 2000),
        ("upstream_obligations_checked", 2000),
        ("obtained_addressed_ok", 10_000),
        ("obtained_upstream_ok", 5000),
        ("clients_judged_for_liveness", 300),
        ("judged_with_hostile_present", 100),
        ("judged_with_stall_present", 100),
        ("judged_after_someone_left", 100),
        ("stalled_client_other_channels_checked", 50),
        ("stalled_stream_blocked_messages", 50),
        ("hostile_datagrams", 1000),
        ("host.runs", 20),
        ("host.runs_asymmetric_channel_lists", 10),
        ("host.local_client_reopened_same_id", 10),
        ("hostile_foreign_replayed", 100),
        ("hostile_disconnected_by_garbage", 20),
        ("joined", 50),
        ("left.remove_connection", 20),
        ("left.server_disconnect", 20),
        ("left.client_disconnect", 20),
        ("broadcast_target_left_before_delivery", 20),
        ("excluded_connected_client", 100),
        ("retransmissions", 500),
    ],
    engines_quick: &["e1"],
    engines_thorough: &["e1"],
    run,
};

pub fn run(ctx: &Ctx, out: &mut Outcome) {
    super::run_loop(ctx, out, 3200, 40_000, 11, one_run);
}

const F_BCAST: u8 = 1;
const F_EXCEPT: u8 = 2;

type Key = (u8, u8, u64); // (channel, header conn, header idx)

#[derive(Default)]
pub struct Shared {
    hostile: BTreeSet<usize>,
    stalled: Option<(usize, u8)>,
    stall_active: bool,
    told_to_leave: BTreeSet<usize>,
    /// unicast keys sent to ids that have no connection
    void_keys: HashSet<Key>,
    /// broadcast (channel, index) -> (excluded conn, targets)
    bcast: HashMap<(u8, u64), (Option<usize>, Vec<usize>)>,
    /// server-side reason recorded when the transport removed a connection nobody asked to leave
    spontaneous: BTreeMap<usize, DR>,
    hostile_accepted: u64,
    n_conns: usize,
}

fn reason_class(r: DR) -> &'static str {
    match r {
        DR::Transport => "Transport",
        DR::DisconnectedByClient => "DisconnectedByClient",
        DR::DisconnectedByServer => "DisconnectedByServer",
        DR::PacketSerialization(_) => "PacketSerialization",
        DR::PacketDeserialization(_) => "PacketDeserialization",
        DR::ReceivedInvalidChannelId(_) => "ReceivedInvalidChannelId",
        DR::SendChannelError { .. } => "SendChannelError",
        DR::ReceiveChannelError {
            error: ChannelError::InvalidSliceMessage,
            ..
        } => "InvalidSliceMessage",
        DR::ReceiveChannelError { .. } => "ReceiveChannelMaxMemory",
    }
}

/// Every reason is judged: the driver keeps every submission inside the channel windows and delivers to an undisturbed
/// client only its own peer's datagrams, so nothing - a foreign packet, a foreign API call, or a channel of its own
/// running into a limit it never exceeded - may end its connection (and with it the traffic of its other channels).
/// (Memory and serialization reasons used to be counted only, while F3 / F4 were open.)
fn foreign_cause(_r: DR) -> bool {
    true
}

// ------------------------------------------------------------------------------------------------
// event filter so that shared oracles never see streams that the workload itself falsifies
// ------------------------------------------------------------------------------------------------
pub struct Filtered {
    inner: Box<dyn Monitor>,
    /// skip (conn, dir) pairs for which this returns true
    skip: Box<dyn Fn(usize, u8) -> bool>,
}

impl Monitor for Filtered {
    fn name(&self) -> &'static str {
        self.inner.name()
    }
    fn on(&mut self, ev: &Ev, sim: &Sim, ctx: &Ctx, out: &mut Outcome) {
        let cd = match ev {
            Ev::Submit { conn, dir, .. } | Ev::SendCall { conn, dir, .. } | Ev::Arrive { conn, dir, .. } | Ev::Arrived { conn, dir, .. } | Ev::Recv { conn, dir, .. } | Ev::DrainEnd { conn, dir, .. } => Some((*conn, *dir)),
            _ => None,
        };
        if let Some((c, d)) = cd {
            if (self.skip)(c, d) {
                return;
            }
        }
        self.inner.on(ev, sim, ctx, out);
    }
    fn finish(&mut self, sim: &Sim, ctx: &Ctx, out: &mut Outcome) {
        self.inner.finish(sim, ctx, out);
    }
}

// ------------------------------------------------------------------------------------------------
// the isolation oracle
// ------------------------------------------------------------------------------------------------
pub struct IsolationOracle {
    sh: Rc<RefCell<Shared>>,
    /// per connection: messages addressed to it (server -> client) and how often obtained
    addressed: BTreeMap<usize, HashMap<Key, u32>>,
    /// per connection: messages it sent (client -> server), (channel, idx) -> obtained count
    up: BTreeMap<usize, HashMap<(u8, u64), u32>>,
    /// every server->client unicast key -> destination connection
    unicast_dest: HashMap<Key, usize>,
}

impl IsolationOracle {
    pub fn new(sh: Rc<RefCell<Shared>>) -> Self {
        IsolationOracle {
            sh,
            addressed: BTreeMap::new(),
            up: BTreeMap::new(),
            unicast_dest: HashMap::new(),
        }
    }

    #[allow(clippy::too_many_arguments)]
    fn bad(&self, sim: &Sim, ctx: &Ctx, out: &mut Outcome, sig: &str, clause: &str, detail: String, extra: serde_json::Value) {
        let sh = self.sh.borrow();
        let r = sim.replay_value(
            &ctx.prop,
            &ctx.engine,
            clause,
            json!({"detail": extra, "hostile": sh.hostile, "stalled (conn, channel)": sh.stalled, "told_to_leave": sh.told_to_leave, "ids": sim.ids}),
        );
        out.violation(ctx, sig, clause, detail, r);
    }
}

impl Monitor for IsolationOracle {
    fn name(&self) -> &'static str {
        "isolation"
    }
    fn on(&mut self, ev: &Ev, sim: &Sim, ctx: &Ctx, out: &mut Outcome) {
        match ev {
            Ev::Submit {
                conn,
                dir,
                ch,
                bytes,
                accepted,
            } => {
                if !*accepted {
                    return;
                }
                let Some(h) = payload::parse(bytes) else {
                    out.count("short_message_not_tracked");
                    return;
                };
                if *dir == DOWN {
                    let key = (*ch, h.conn, h.idx);
                    self.addressed.entry(*conn).or_default().insert(key, 0);
                    if h.conn != 0xFF {
                        self.unicast_dest.insert(key, *conn);
                    }
                } else {
                    self.up.entry(*conn).or_default().insert((*ch, h.idx), 0);
                }
            }
            Ev::Recv { conn, dir, ch, bytes } => {
                let reliable = sim.cfg.chan(*dir, *ch).map_or(false, |c| c.kind.reliable());
                let side = if *dir == DOWN { "client" } else { "server" };
                if *dir == UP && self.sh.borrow().hostile.contains(conn) {
                    out.count("hostile_upstream_not_judged");
                    return;
                }
                let head = crate::rng::hex(&bytes[..bytes.len().min(32)]);
                let Some(h) = payload::parse(bytes) else {
                    self.bad(sim, ctx, out, &format!("C11/obtained-unknown-message/{}", side), "an obtained message was sent to / by that client", format!("conn {} dir {} ch {}: obtained a {}-byte message without an address header", conn, dir, ch, bytes.len()), json!({"head": head}));
                    return;
                };
                if !payload::self_consistent(bytes) {
                    self.bad(sim, ctx, out, &format!("C11/corrupted/{}", side), "traffic of other clients / channels is never corrupted", format!("conn {} dir {} ch {}: obtained message is not the payload its header describes (len {})", conn, dir, ch, bytes.len()), json!({"head": head, "header": format!("{:?}", h)}));
                    return;
                }
                if h.dir != *dir || h.ch != *ch {
                    self.bad(sim, ctx, out, &format!("C11/cross-channel/{}", side), "a message is obtained on the channel and direction it was sent on", format!("conn {} dir {} ch {}: obtained a message sent on dir {} ch {}", conn, dir, ch, h.dir, h.ch), json!({"header": format!("{:?}", h)}));
                    return;
                }
                if *dir == DOWN {
                    let key = (*ch, h.conn, h.idx);
                    match self.addressed.entry(*conn).or_default().get_mut(&key) {
                        Some(n) => {
                            *n += 1;
                            out.count("obtained_addressed_ok");
                            if h.flags & F_BCAST != 0 {
                                out.count("obtained_broadcast");
                            }
                            if reliable && *n > 1 {
                                let n = *n;
                                self.bad(sim, ctx, out, "C11/duplicate/client", "a reliable message is obtained at most once", format!("conn {} ch {}: {} (idx {}) obtained {} times", conn, ch, if h.conn == 0xFF { "broadcast" } else { "unicast" }, h.idx, n), json!({"header": format!("{:?}", h)}));
                            }
                        }
                        None => {
                            let sh = self.sh.borrow();
                            let (sig, what): (&str, String) = if h.conn == 0xFF {
                                match sh.bcast.get(&(*ch, h.idx)) {
                                    Some((Some(e), _)) if *e == *conn => ("C11/broadcast-obtained-by-excluded", format!("broadcast #{} was issued with broadcast_message_except({})", h.idx, sim.ids[*conn])),
                                    Some((e, t)) => ("C11/broadcast-obtained-by-not-connected", format!("broadcast #{} (except {:?}) was issued when this client was not connected at the server; targets were {:?}", h.idx, e, t)),
                                    None => ("C11/obtained-unknown-message/client", format!("broadcast #{} was never issued", h.idx)),
                                }
                            } else if sh.void_keys.contains(&key) {
                                ("C11/message-for-absent-id-obtained", format!("unicast #{} was sent to an id without a connection", h.idx))
                            } else {
                                match self.unicast_dest.get(&key) {
                                    Some(d) => ("C11/unicast-obtained-by-other-client", format!("unicast #{} on ch {} was sent to conn {} (id {})", h.idx, ch, d, sim.ids[*d])),
                                    None => ("C11/obtained-unknown-message/client", format!("unicast header conn {} idx {} matches no submission", h.conn, h.idx)),
                                }
                            };
                            drop(sh);
                            self.bad(sim, ctx, out, sig, "a message is obtained only by a client it was addressed to", format!("conn {} (id {}) ch {}: obtained a message not addressed to it: {}", conn, sim.ids[*conn], ch, what), json!({"header": format!("{:?}", h)}));
                        }
                    }
                } else {
                    if h.conn as usize != (*conn & 0xFF) {
                        self.bad(sim, ctx, out, "C11/obtained-under-other-id", "a message a client sent is obtained only under that client's id", format!("server obtained under id {} (conn {}) ch {} a message sent by conn {} (idx {})", sim.ids[*conn], conn, ch, h.conn, h.idx), json!({"header": format!("{:?}", h)}));
                        return;
                    }
                    match self.up.entry(*conn).or_default().get_mut(&(*ch, h.idx)) {
                        Some(n) => {
                            *n += 1;
                            out.count("obtained_upstream_ok");
                            if reliable && *n > 1 {
                                let n = *n;
                                self.bad(sim, ctx, out, "C11/duplicate/server", "a reliable message is obtained at most once", format!("conn {} ch {}: upstream idx {} obtained {} times", conn, ch, h.idx, n), json!({"header": format!("{:?}", h)}));
                            }
                        }
                        None => {
                            self.bad(sim, ctx, out, "C11/obtained-unknown-message/server", "an obtained message was sent by that client", format!("server obtained under id {} ch {} a message (idx {}) that client never submitted", sim.ids[*conn], ch, h.idx), json!({"header": format!("{:?}", h)}));
                        }
                    }
                }
            }
            Ev::Deadline { .. } => {
                let sh = self.sh.borrow();
                let n = sh.n_conns;
                let someone_left = !sh.told_to_leave.is_empty();
                let hostile_present = !sh.hostile.is_empty() && sh.hostile_accepted > 0;
                let mut reports: Vec<(String, String, String, serde_json::Value)> = Vec::new();
                for conn in 0..n {
                    if sh.hostile.contains(&conn) || sh.told_to_leave.contains(&conn) {
                        continue;
                    }
                    // an undisturbed client must not have been disconnected by a foreign cause
                    let reasons: Vec<(&str, DR)> = [("server", sh.spontaneous.get(&conn).copied().or(sim.reason(conn, Side::Server))), ("client", sim.reason(conn, Side::Client))]
                        .into_iter()
                        .filter_map(|(s, r)| r.map(|r| (s, r)))
                        .collect();
                    if !reasons.is_empty() || sim.any_disconnected(conn) {
                        for (side, r) in reasons.iter() {
                            if foreign_cause(*r) {
                                reports.push((
                                    format!("C11/healthy-client-disconnected/{}", reason_class(*r)),
                                    "misbehaviour or disconnection of one client never drops traffic of other clients".into(),
                                    format!("conn {} (id {}) is neither hostile nor was it told to leave, only its own peer's datagrams were delivered to it, yet its {} side is disconnected with {:?}", conn, sim.ids[conn], side, r),
                                    json!({"conn": conn}),
                                ));
                            } else {
                                out.count(&format!("undisturbed_conn_disconnected_not_judged.{}", reason_class(*r)));
                            }
                        }
                        out.count("undisturbed_conn_excluded_disconnected");
                        continue;
                    }
                    out.count("clients_judged_for_liveness");
                    if hostile_present {
                        out.count("judged_with_hostile_present");
                    }
                    if sh.stall_active {
                        out.count("judged_with_stall_present");
                    }
                    if someone_left {
                        out.count("judged_after_someone_left");
                    }
                    if let Some(map) = self.addressed.get(&conn) {
                        let mut missing: BTreeMap<(&str, u8), (u64, u64)> = BTreeMap::new();
                        for (key, cnt) in map.iter() {
                            let ch = key.0;
                            if !sim.cfg.chan(DOWN, ch).map_or(false, |c| c.kind.reliable()) {
                                continue;
                            }
                            if sh.stalled == Some((conn, ch)) {
                                if *cnt == 0 {
                                    out.count("stalled_stream_blocked_messages");
                                }
                                continue;
                            }
                            if matches!(sh.stalled, Some((c, _)) if c == conn) {
                                out.count("stalled_client_other_channels_checked");
                            }
                            let what = if key.1 == 0xFF {
                                out.count("broadcast_obligations_checked");
                                if matches!(sh.bcast.get(&(ch, key.2)), Some((Some(_), _))) {
                                    out.count("broadcast_except_obligations_checked");
                                }
                                "broadcast"
                            } else {
                                out.count("unicast_obligations_checked");
                                "unicast"
                            };
                            let e = missing.entry((what, ch)).or_insert((0, u64::MAX));
                            if *cnt == 0 {
                                e.0 += 1;
                                e.1 = e.1.min(key.2);
                            }
                        }
                        for ((what, ch), (n_missing, first)) in missing {
                            if n_missing > 0 {
                                reports.push((
                                    format!("C11/liveness/{}", what),
                                    "a broadcast / unicast is obtained exactly once by every connected addressee within the bound, whatever other clients do".into(),
                                    format!("conn {} (id {}) ch {}: {} {} message(s) addressed to it not obtained at the deadline (first idx {}); the client is connected on both sides, not hostile, never told to leave", conn, sim.ids[conn], ch, n_missing, what, first),
                                    json!({"conn": conn, "channel": ch, "missing": n_missing, "first_missing_idx": first}),
                                ));
                            }
                        }
                    }
                    if let Some(map) = self.up.get(&conn) {
                        let mut missing: BTreeMap<u8, u64> = BTreeMap::new();
                        for ((ch, _), cnt) in map.iter() {
                            if !sim.cfg.chan(UP, *ch).map_or(false, |c| c.kind.reliable()) {
                                continue;
                            }
                            out.count("upstream_obligations_checked");
                            if *cnt == 0 {
                                *missing.entry(*ch).or_insert(0) += 1;
                            }
                        }
                        for (ch, n_missing) in missing {
                            reports.push((
                                "C11/liveness/upstream".into(),
                                "traffic of a client is never delayed or dropped by other clients".into(),
                                format!("conn {} (id {}) ch {}: {} upstream message(s) not obtained by the server at the deadline", conn, sim.ids[conn], ch, n_missing),
                                json!({"conn": conn, "channel": ch, "missing": n_missing}),
                            ));
                        }
                    }
                }
                drop(sh);
                for (sig, clause, detail, extra) in reports {
                    self.bad(sim, ctx, out, &sig, &clause, detail, extra);
                }
            }
            _ => {}
        }
    }
}

// ------------------------------------------------------------------------------------------------
// the star driver
// ------------------------------------------------------------------------------------------------
struct Star {
    sim: Sim,
    mons: Vec<Box<dyn Monitor>>,
    sh: Rc<RefCell<Shared>>,
    r: Rng,
    tag: u64,
    stalled_msg: Option<u64>,
    /// accepted server->client submissions per (conn, channel) = next wire message id
    down_count: HashMap<(usize, u8), u64>,
    bcast_no: u64,
    void_no: u64,
    next_id: u64,
    departed_ids: Vec<u64>,
    /// (conn, tick) client object learns about the loss of its connection
    client_drop_at: Vec<(usize, u64)>,
    /// (conn, tick) transport removes the server connection
    removal_at: Vec<(usize, u64)>,
    /// lazy "transport": a connection the server disconnected stays in the server's table (disconnected,
    /// not yet removed) for the rest of the run; it must not affect any other client
    lazy_removal: bool,
    captured: Vec<(usize, Vec<u8>)>,
    aborted: bool,
    churn: bool,
    /// in these runs one broadcast may go out although one target's reliable send window is full at the library
    /// (`can_send_message` false): that target is disconnected by design - or obtains the message; never neither
    overflow_run: bool,
    overflowed: Option<usize>,
}

impl Star {
    fn emit(&mut self, ev: &Ev, ctx: &Ctx, out: &mut Outcome) {
        for m in self.mons.iter_mut() {
            m.on(ev, &self.sim, ctx, out);
        }
    }

    fn n(&self) -> usize {
        self.sim.cfg.n_clients
    }

    fn server_connected(&self, conn: usize) -> bool {
        self.sim.server.is_connected(self.sim.ids[conn])
    }

    fn pick_len(&mut self, max_mem: usize) -> usize {
        let r = &mut self.r;
        let v = match r.below(20) {
            0..=7 => r.urange(24, 300),
            8..=11 => r.urange(300, 1188),
            12..=13 => r.urange(1189, 1201),
            14..=15 => r.urange(2399, 2401),
            16..=17 => (r.urange(2, 6) * 1200 + r.urange(0, 2)).saturating_sub(1),
            18 => r.urange(1202, 6000),
            _ => r.urange(6000, 30_000),
        };
        v.min(max_mem / 8).max(24)
    }

    fn unicast(&mut self, conn: usize, dir: u8, ctx: &Ctx, out: &mut Outcome) {
        let chans: Vec<(u8, usize)> = self.sim.cfg.chans(dir).iter().map(|c| (c.id, c.max_mem)).collect();
        let (ch, mem) = *self.r.pick(&chans);
        let len = self.pick_len(mem);
        if !self.sim.within_window(conn, dir, ch, len) {
            out.count("submit_deferred_window");
            return;
        }
        let idx = self.sim.next_index(conn, dir, ch);
        let bytes = payload::make(conn as u8, dir, ch, 0, idx, len, self.tag);
        if self.sim.submit(conn, dir, ch, bytes, &mut self.mons, ctx, out) && dir == DOWN {
            *self.down_count.entry((conn, ch)).or_insert(0) += 1;
        }
    }

    /// unicast to an id that has no connection: nobody may ever obtain it
    fn unicast_to_absent(&mut self, out: &mut Outcome) {
        let Some(&id) = self.departed_ids.last() else { return };
        if self.sim.server.is_connected(id) || self.sim.server.disconnect_reason(id).is_some() {
            return;
        }
        let ch = self.r.pick(&self.sim.cfg.down.clone()).id;
        self.void_no += 1;
        let idx = (1u64 << 48) + self.void_no;
        let bytes = payload::make(0xFE, DOWN, ch, 0, idx, 64, self.tag);
        self.sh.borrow_mut().void_keys.insert((ch, 0xFE, idx));
        self.sim.server.send_message(id, ch, bytes);
        out.count("unicast_to_absent_id");
    }

    fn broadcast(&mut self, ctx: &Ctx, out: &mut Outcome) {
        let chans: Vec<(u8, usize, Kind)> = self.sim.cfg.down.iter().map(|c| (c.id, c.max_mem, c.kind)).collect();
        let (ch, mem, kind) = *self.r.pick(&chans);
        let len = self.pick_len(mem);
        let n = self.n();
        let mut except: Option<usize> = if self.r.chance(2, 5) { Some(self.r.usize_below(n)) } else { None };
        let connected: Vec<usize> = (0..n).filter(|k| self.server_connected(*k)).collect();
        // memory window guard (an over-budget reliable send disconnects by design)
        let stalled = self.sh.borrow().stalled;
        let mut overflow: Option<usize> = None;
        for k in connected.iter() {
            if Some(*k) == except {
                continue;
            }
            if !self.sim.within_window(*k, DOWN, ch, len) {
                let lib_full = kind.reliable() && !self.sim.server.can_send_message(self.sim.ids[*k], ch, len);
                let undisturbed = !self.sh.borrow().hostile.contains(k) && !self.sh.borrow().told_to_leave.contains(k) && stalled.map(|s| s.0) != Some(*k);
                if self.overflow_run && self.overflowed.is_none() && overflow.is_none() && lib_full && undisturbed {
                    overflow = Some(*k);
                    continue;
                }
                if stalled.map(|s| s.0) == Some(*k) && except.is_none() {
                    except = Some(*k);
                    out.count("broadcast_except_because_stalled_window_full");
                } else {
                    out.count("broadcast_skipped_window");
                    return;
                }
            }
        }
        let targets: Vec<usize> = connected.iter().copied().filter(|k| Some(*k) != except).collect();
        let bidx = self.bcast_no;
        self.bcast_no += 1;
        let flags = F_BCAST | if except.is_some() { F_EXCEPT } else { 0 };
        let bytes = payload::make(0xFF, DOWN, ch, flags, bidx, len, self.tag);
        self.sh.borrow_mut().bcast.insert((ch, bidx), (except, targets.clone()));
        out.count(if except.is_some() { "broadcast_except_calls" } else { "broadcast_calls" });
        if let Some(e) = except {
            if self.server_connected(e) {
                out.count("excluded_connected_client");
            }
        }
        self.sim.log(format!("t{} broadcast#{} ch{} len{} except {:?} targets {:?}", self.sim.tick, bidx, ch, len, except, targets));
        self.sim.fp.u64(0xBC ^ (bidx << 8));
        self.sim.fp.u64(targets.len() as u64);
        for k in targets.iter() {
            let ev = Ev::Submit {
                conn: *k,
                dir: DOWN,
                ch,
                bytes: &bytes,
                accepted: true,
            };
            self.emit(&ev, ctx, out);
            if kind.reliable() {
                self.sim.outstanding[*k][DOWN as usize][ch as usize] += Sim::rounded(len);
                self.sim.outstanding_n[*k][DOWN as usize][ch as usize] += 1;
            }
            *self.down_count.entry((*k, ch)).or_insert(0) += 1;
        }
        let b = Bytes::from(bytes);
        match except {
            Some(e) => self.sim.server.broadcast_message_except(self.sim.ids[e], ch, b),
            None => self.sim.server.broadcast_message(ch, b),
        }
        if let Some(k) = overflow {
            self.overflowed = Some(k);
            out.count("broadcast_with_one_target_over_its_send_budget");
            if !self.server_connected(k) {
                // the documented consequence: the server dropped that client (SendChannelError); everybody else got
                // the message queued. From here on it is a client the server application told to leave
                self.sh.borrow_mut().told_to_leave.insert(k);
                out.count("broadcast_overflow_target_disconnected_by_design");
                self.sim.log(format!("t{} broadcast#{} overflowed the send budget of conn {}: disconnected by design", self.sim.tick, bidx, k));
            } else {
                // still connected: then it was addressed like everybody else and the delivery obligation stands
                out.count("broadcast_overflow_target_still_connected");
                self.sim.log(format!("t{} broadcast#{} issued with conn {} over its send budget: still connected, the message is owed to it", self.sim.tick, bidx, k));
            }
        }
    }

    fn join(&mut self, out: &mut Outcome) {
        // now and then the "transport" reports a connect for an id that is connected already (a duplicate report, an
        // application that adds its players twice): documented as a no-op, the live connection is not disturbed
        if self.r.chance(1, 5) {
            let connected: Vec<usize> = (0..self.n()).filter(|k| self.server_connected(*k)).collect();
            if !connected.is_empty() {
                let k = *self.r.pick(&connected);
                let id = self.sim.ids[k];
                self.sim.server.add_connection(id);
                while self.sim.server.get_event().is_some() {}
                out.count("add_connection_for_an_id_that_is_connected");
                self.sim.log(format!("t{} add_connection({}) again (conn {} is connected)", self.sim.tick, id, k));
            }
        }
        if self.n() >= 14 {
            return;
        }
        let id = self.next_id;
        self.next_id += 1 + self.r.below(3);
        let p = *self.r.pick(ALL_RANDOM_PROFILES);
        let q = *self.r.pick(ALL_RANDOM_PROFILES);
        let lu = LinkCfg::from_profile(p, &mut self.r);
        let ld = LinkCfg::from_profile(q, &mut self.r);
        let sim = &mut self.sim;
        sim.server.add_connection(id);
        while sim.server.get_event().is_some() {}
        let mut c = RenetClient::new(sim.cfg.connection_config());
        c.set_connected();
        sim.clients.push(c);
        sim.ids.push(id);
        let mut l0 = Link::new(lu.clone());
        let mut l1 = Link::new(ld.clone());
        if sim.healed {
            l0.heal(sim.tick);
            l1.heal(sim.tick);
        }
        sim.links[0].push(l0);
        sim.links[1].push(l1);
        sim.cfg.link_up.push(lu);
        sim.cfg.link_down.push(ld);
        sim.next_idx.push([vec![0u64; 256], vec![0u64; 256]]);
        sim.outstanding.push([vec![0usize; 256], vec![0usize; 256]]);
        sim.outstanding_n.push([vec![0usize; 256], vec![0usize; 256]]);
        sim.cfg.n_clients += 1;
        let n = sim.cfg.n_clients;
        sim.log(format!("t{} JOIN conn {} id {}", sim.tick, n - 1, id));
        sim.fp.u64(0x101 ^ id);
        self.sh.borrow_mut().n_conns = n;
        out.count("joined");
    }

    fn leave(&mut self, conn: usize, out: &mut Outcome) {
        let id = self.sim.ids[conn];
        self.sh.borrow_mut().told_to_leave.insert(conn);
        // broadcasts still owed to this client
        if self.sim.outstanding[conn][DOWN as usize].iter().any(|x| *x > 0) {
            out.count("broadcast_target_left_before_delivery");
        }
        let now = self.sim.tick;
        let how = self.r.below(3);
        match how {
            0 => {
                self.sim.server.remove_connection(id);
                self.client_drop_at.push((conn, now + self.r.below(8)));
                out.count("left.remove_connection");
            }
            1 => {
                self.sim.server.disconnect(id);
                let delay = if self.lazy_removal { 10_000_000 } else { self.r.below(4) };
                if self.lazy_removal {
                    out.count("left.server_disconnect_never_removed");
                }
                self.removal_at.push((conn, now + delay));
                self.client_drop_at.push((conn, now + self.r.below(8)));
                out.count("left.server_disconnect");
            }
            _ => {
                self.sim.clients[conn].disconnect();
                self.removal_at.push((conn, now + self.r.below(6)));
                out.count("left.client_disconnect");
            }
        }
        while self.sim.server.get_event().is_some() {}
        self.departed_ids.push(id);
        self.sim.log(format!("t{} LEAVE conn {} id {} how {}", self.sim.tick, conn, id, how));
        self.sim.fp.u64(0x1EA ^ id);
    }

    fn transport_housekeeping(&mut self, out: &mut Outcome) {
        let now = self.sim.tick;
        let due: Vec<usize> = self.removal_at.iter().filter(|(_, t)| *t <= now).map(|(c, _)| *c).collect();
        self.removal_at.retain(|(_, t)| *t > now);
        for c in due {
            self.sim.server.remove_connection(self.sim.ids[c]);
        }
        let due: Vec<usize> = self.client_drop_at.iter().filter(|(_, t)| *t <= now).map(|(c, _)| *c).collect();
        self.client_drop_at.retain(|(_, t)| *t > now);
        for c in due {
            self.sim.clients[c].disconnect_due_to_transport();
        }
        // the transport removes connections that renet disconnected by itself
        for id in self.sim.server.disconnections_id() {
            if let Some(conn) = self.sim.ids.iter().position(|i| *i == id) {
                if self.removal_at.iter().any(|(c, _)| *c == conn) {
                    continue;
                }
                let reason = self.sim.server.disconnect_reason(id);
                let mut sh = self.sh.borrow_mut();
                if sh.hostile.contains(&conn) {
                    out.count("hostile_disconnected_by_garbage");
                } else if !sh.told_to_leave.contains(&conn) {
                    if let Some(r) = reason {
                        sh.spontaneous.insert(conn, r);
                    }
                }
                drop(sh);
                self.sim.log(format!("t{} transport removes conn {} id {} ({:?})", self.sim.tick, conn, id, reason));
                self.sim.server.remove_connection(id);
                self.departed_ids.push(id);
            }
        }
        while self.sim.server.get_event().is_some() {}
    }

    /// removes from the stalled client's downstream link every datagram that carries the
    /// stalled message
    fn filter_stall(&mut self, out: &mut Outcome) {
        let (Some((conn, ch)), Some(mid)) = (self.sh.borrow().stalled, self.stalled_msg) else { return };
        let q = &mut self.sim.links[DOWN as usize][conn].q;
        let before = q.len();
        q.retain(|f| match decode(&f.bytes) {
            Some(Packet::ReliableSlice { channel_id, slice, .. }) => !(channel_id == ch && slice.message_id == mid),
            Some(Packet::SmallReliable { channel_id, messages, .. }) => !(channel_id == ch && messages.iter().any(|(id, _)| *id == mid)),
            _ => true,
        });
        let dropped = before - q.len();
        if dropped > 0 {
            out.add("stall_datagrams_dropped", dropped as u64);
        }
    }

    fn start_stall(&mut self, ctx: &Ctx, out: &mut Outcome) {
        let Some((conn, ch)) = self.sh.borrow().stalled else { return };
        if self.stalled_msg.is_some() || !self.server_connected(conn) {
            return;
        }
        let len = 2000;
        if !self.sim.within_window(conn, DOWN, ch, len) {
            return;
        }
        let mid = self.down_count.get(&(conn, ch)).copied().unwrap_or(0);
        let idx = self.sim.next_index(conn, DOWN, ch);
        let bytes = payload::make(conn as u8, DOWN, ch, 0, idx, len, self.tag);
        if self.sim.submit(conn, DOWN, ch, bytes, &mut self.mons, ctx, out) {
            *self.down_count.entry((conn, ch)).or_insert(0) += 1;
            self.stalled_msg = Some(mid);
            self.sh.borrow_mut().stall_active = true;
            self.sim.log(format!("t{} STALL conn {} ch {} wire message id {}", self.sim.tick, conn, ch, mid));
            out.count("stall_started");
        }
    }

    fn inject(&mut self, h: usize, out: &mut Outcome) {
        let id = self.sim.ids[h];
        let n = self.r.range(1, 3);
        for _ in 0..n {
            let up: Vec<(u8, Kind)> = self.sim.cfg.up.iter().map(|c| (c.id, c.kind)).collect();
            let foreign: Vec<&(usize, Vec<u8>)> = self.captured.iter().filter(|(c, _)| *c != h).collect();
            let r = &mut self.r;
            let (bytes, label): (Vec<u8>, &str) = match r.below(10) {
                0 => {
                    let n = r.urange(0, 100);
                    (r.bytes(n), "random")
                }
                1..=3 if !foreign.is_empty() => (foreign[r.usize_below(foreign.len())].1.clone(), "foreign-replay"),
                4 if !foreign.is_empty() => {
                    let mut b = foreign[r.usize_below(foreign.len())].1.clone();
                    let i = r.usize_below(b.len().clamp(1, 12));
                    if !b.is_empty() {
                        b[i] ^= 1 << r.below(8);
                    }
                    (b, "foreign-mutated")
                }
                5 | 6 => {
                    let p = Packet::Ack {
                        sequence: (1 << 33) + r.below(1 << 20),
                        ack_ranges: vec![0..r.range(1, 1 << 30)],
                    };
                    (enc(&p), "forged-ack")
                }
                7 | 8 => {
                    // forged message claiming another client's identity, on a valid channel
                    let rel: Vec<u8> = up.iter().filter(|c| c.1.reliable()).map(|c| c.0).collect();
                    let victim = r.usize_below(self.sim.cfg.n_clients) as u8;
                    let body = payload::make(victim, UP, 0, 0, r.below(50), 40, self.tag);
                    let p = if !rel.is_empty() && r.chance(2, 3) {
                        Packet::SmallReliable {
                            sequence: (1 << 34) + r.below(1 << 20),
                            channel_id: rel[r.usize_below(rel.len())],
                            messages: vec![((1 << 30) + r.below(1 << 20), Bytes::from(body))],
                        }
                    } else {
                        Packet::SmallUnreliable {
                            sequence: (1 << 34) + r.below(1 << 20),
                            channel_id: 200,
                            messages: vec![Bytes::from(body)],
                        }
                    };
                    (enc(&p), "forged-message")
                }
                _ => (vec![r.range(5, 255) as u8, 0, 0], "invalid-type"),
            };
            // a well-formed acknowledgement announcing an enormous range: cheap to send, must be cheap to process
            let (bytes, label) = if r.chance(1, 8) {
                let seq = r.below(1 << 20);
                let end = *r.pick(&[(1u64 << 62) - 1, 1 << 40, 1 << 32]);
                (enc(&Packet::Ack { sequence: seq, ack_ranges: vec![0..end] }), "wide-ack")
            } else {
                (bytes, label)
            };
            let was_connected = self.sim.server.is_connected(id);
            let server = &mut self.sim.server;
            // guarded: a call that does not come back stalls every other client of this server
            match watchdog::guarded("RenetServer::process_packet_from(hostile)", &bytes, || {
                let _ = server.process_packet_from(&bytes, id);
            }) {
                Err(c) => {
                    self.aborted = true;
                    out.count("panics_left_to_C06");
                    out.note(&format!("panic on a hostile datagram left to C06: {}", c.class));
                    return;
                }
                Ok(()) => {
                    out.count("hostile_datagrams");
                    out.count(&format!("hostile.{}", label));
                    if label == "foreign-replay" {
                        out.count("hostile_foreign_replayed");
                    }
                    if was_connected {
                        self.sh.borrow_mut().hostile_accepted += 1;
                    }
                    self.sim.fp.u64(0xBAD ^ bytes.len() as u64);
                }
            }
        }
    }

    fn tick(&mut self, ctx: &Ctx, out: &mut Outcome) {
        let dt = match self.sim.cfg.dt {
            DtMode::Fixed(d) => d,
            DtMode::Irregular(lo, hi) => self.r.range(lo, hi),
        };
        self.sim.tick += 1;
        self.sim.now_ms += dt;
        self.sim.server.update(Duration::from_millis(dt));
        let n = self.n();
        for c in 0..n {
            self.sim.clients[c].update(Duration::from_millis(dt));
        }
        // (conn, dir, phase): 0 send, 1 deliver, 2 drain, 3 hostile injection
        let mut actions: Vec<(usize, u8, u8)> = Vec::new();
        let hostile: Vec<usize> = self.sh.borrow().hostile.iter().copied().collect();
        for c in 0..n {
            for d in 0..2u8 {
                actions.push((c, d, 0));
                actions.push((c, d, 1));
                let drain_now = match self.sim.cfg.drain {
                    DrainMode::EveryTick | DrainMode::AfterEveryArrival => true,
                    DrainMode::EveryN(k) => self.sim.tick % k.max(1) == 0,
                    DrainMode::Random => self.r.chance(1, 2),
                    DrainMode::Never => false,
                };
                if drain_now {
                    actions.push((c, d, 2));
                }
            }
        }
        for h in hostile {
            if self.r.chance(2, 3) {
                actions.push((h, UP, 3));
            }
        }
        if self.sim.cfg.shuffle_phases {
            self.r.shuffle(&mut actions);
        } else {
            actions.sort_by_key(|a| (if a.2 == 3 { 1 } else { a.2 }, a.0, a.1, a.2));
        }
        for (c, d, ph) in actions {
            if self.aborted {
                return;
            }
            match ph {
                0 => {
                    self.sim.do_send(c, d, &mut self.mons, ctx, out);
                    if d == DOWN {
                        self.filter_stall(out);
                    } else if let Some(f) = self.sim.links[UP as usize][c].q.last() {
                        // material for cross-client replays
                        if self.captured.len() < 48 {
                            self.captured.push((c, f.bytes.clone()));
                        } else {
                            let i = self.r.usize_below(48);
                            self.captured[i] = (c, f.bytes.clone());
                        }
                    }
                }
                1 => {
                    if self.sh.borrow().hostile.contains(&c) {
                        // the hostile datagrams may have planted state (foreign slices) on which the
                        // client's own honest packets trip F1/F2: a panic here is C06's, not C11's
                        let (sim, mons) = (&mut self.sim, &mut self.mons);
                        if let Err(e) = watchdog::catch(|| sim.do_deliver(c, d, mons, ctx, out)) {
                            self.aborted = true;
                            out.count("panics_left_to_C06");
                            out.note(&format!("panic while delivering to/from a hostile client's connection left to C06: {}", e.class));
                            return;
                        }
                    } else {
                        self.sim.do_deliver(c, d, &mut self.mons, ctx, out)
                    }
                }
                2 => self.sim.do_drain(c, d, &mut self.mons, ctx, out),
                _ => self.inject(c, out),
            }
        }
        let ev = Ev::TickEnd { tick: self.sim.tick };
        self.emit(&ev, ctx, out);
        self.transport_housekeeping(out);
    }

    fn undisturbed(&self, conn: usize) -> bool {
        let sh = self.sh.borrow();
        !sh.hostile.contains(&conn) && !sh.told_to_leave.contains(&conn) && !self.sim.any_disconnected(conn)
    }

    /// slice-rounded bytes still owed to / by an undisturbed connection (stalled stream excluded)
    fn owed(&self, conn: usize) -> usize {
        let stalled = self.sh.borrow().stalled;
        let mut s = 0;
        for d in 0..2usize {
            for (ch, b) in self.sim.outstanding[conn][d].iter().enumerate() {
                if d == DOWN as usize && stalled == Some((conn, ch as u8)) {
                    continue;
                }
                s += *b;
            }
        }
        s
    }

    fn bound(&self) -> u64 {
        let cfg = &self.sim.cfg;
        let resend_max = cfg.up.iter().chain(cfg.down.iter()).map(|c| c.resend_ms).max().unwrap_or(0);
        let r = resend_max.div_ceil(traffic::dt_min(cfg)) + 2;
        let worst = (0..self.n()).filter(|c| self.undisturbed(*c)).map(|c| self.owed(c) as u64).max().unwrap_or(0) + 2400 * 64;
        let per_tick = cfg.bytes_per_tick.saturating_sub(1199 + 2400).max(1);
        3 * r + 4 * worst.div_ceil(per_tick) + 20
    }
}

fn enc(p: &Packet) -> Vec<u8> {
    let mut buf = [0u8; 1500];
    let mut o = octets::OctetsMut::with_slice(&mut buf);
    match p.to_bytes(&mut o) {
        Ok(n) => buf[..n].to_vec(),
        Err(_) => vec![4],
    }
}

pub fn one_run(ctx: &Ctx, out: &mut Outcome, run_seed: u64) {
    let mut r = Rng::new(run_seed);
    if ctx.replay_mode.as_deref() == Some("host-player") || (ctx.replay_mode.is_none() && r.below(10) == 0) {
        return super::c11_host::host_run(ctx, out, run_seed, &mut r);
    }
    let gen = CfgGen {
        max_clients: 8,
        // tight channel budgets in a third of the sessions: a stalled stream then sits close to its limit
        small_budgets: r.chance(1, 3),
        min_bytes_per_tick: 6000,
        profiles: ALL_RANDOM_PROFILES.to_vec(),
    };
    let mut cfg = gen.gen(&mut r);
    if cfg.n_clients < 2 {
        cfg.n_clients = 2;
        let p = *r.pick(ALL_RANDOM_PROFILES);
        cfg.link_up.push(LinkCfg::from_profile(p, &mut r));
        cfg.link_down.push(LinkCfg::from_profile(p, &mut r));
    }
    let n0 = cfg.n_clients;
    // roles
    let mut order: Vec<usize> = (0..n0).collect();
    r.shuffle(&mut order);
    let n_hostile = match r.below(4) {
        0 => 0,
        1 | 2 => 1,
        _ => 2,
    }
    .min(n0 - 1);
    let hostile: BTreeSet<usize> = order.iter().take(n_hostile).copied().collect();
    let stalled_conn = if r.chance(2, 3) { order.get(n_hostile).copied() } else { None };
    let stalled = stalled_conn.and_then(|c| cfg.down.iter().find(|s| s.kind == Kind::ReliableOrdered).map(|s| (c, s.id)));
    if let Some((c, _)) = stalled {
        // the stall filter works on the visible link queue: no hold-and-release profile there
        if cfg.link_down[c].profile == Profile::HoldReverse {
            cfg.link_down[c] = LinkCfg::from_profile(Profile::Light, &mut r);
        }
    }
    let sh = Rc::new(RefCell::new(Shared {
        hostile: hostile.clone(),
        stalled,
        n_conns: n0,
        ..Default::default()
    }));
    let mut exempt: BTreeSet<usize> = hostile.clone();
    if let Some((c, _)) = stalled {
        exempt.insert(c);
    }
    let mut ordered = OrderedOracle::new("C11", true);
    ordered.exempt = exempt.clone();
    let mut unordered = UnorderedOracle::new("C11", true, true);
    unordered.exempt = exempt.clone();
    let h1 = hostile.clone();
    let h2 = hostile.clone();
    let mons: Vec<Box<dyn Monitor>> = vec![
        Box::new(IsolationOracle::new(sh.clone())),
        Box::new(Filtered {
            inner: Box::new(ordered),
            skip: Box::new(move |c, d| d == UP && h1.contains(&c)),
        }),
        Box::new(Filtered {
            inner: Box::new(unordered),
            skip: Box::new(move |c, d| d == DOWN || h2.contains(&c)),
        }),
        Box::new(CoverageMonitor::new()),
        Box::new(SizeMonitor { prop: "C13" }),
    ];
    let sim = Sim::new(cfg, run_seed);
    // fresh ids for clients that join later: above the ordinary initial ids (1000..1100), never a boundary id
    let next_id = 5000 + (run_seed % 1000);
    let mut st = Star {
        sim,
        mons,
        sh: sh.clone(),
        tag: r.next_u64(),
        r: Rng::new(run_seed ^ 0xC11),
        stalled_msg: None,
        down_count: HashMap::new(),
        bcast_no: 0,
        void_no: 0,
        next_id,
        departed_ids: Vec::new(),
        client_drop_at: Vec::new(),
        removal_at: Vec::new(),
        lazy_removal: false,
        captured: Vec::new(),
        aborted: false,
        churn: r.chance(4, 5),
        overflow_run: (run_seed >> 9) % 3 == 0,
        overflowed: None,
    };
    let retx_before = out.get("retransmissions");
    let bo_before = out.get("broadcast_obligations_checked");
    st.lazy_removal = st.r.chance(1, 3);
    let be_before = out.get("broadcast_except_obligations_checked");
    let fault_ticks = r.range(15, if ctx.thorough() { 150 } else { 60 });
    let stall_at = r.range(2, 10);
    let rate = *r.pick(&[30u64, 80, 150]);
    for t in 0..fault_ticks {
        if t >= stall_at {
            st.start_stall(ctx, out);
        }
        if st.churn {
            if st.r.chance(1, 9) {
                st.join(out);
            }
            if st.r.chance(1, 9) {
                let cands: Vec<usize> = (0..st.n()).filter(|c| stalled.map(|s| s.0) != Some(*c) && !st.sh.borrow().told_to_leave.contains(c) && st.server_connected(*c)).collect();
                // keep at least two connected clients
                if cands.len() > 2 {
                    let c = *st.r.pick(&cands);
                    st.leave(c, out);
                }
            }
        }
        for c in 0..st.n() {
            for d in [UP, DOWN] {
                let mut k = rate / 100;
                if st.r.chance(rate % 100, 100) {
                    k += 1;
                }
                for _ in 0..k {
                    st.unicast(c, d, ctx, out);
                }
            }
        }
        let nb = st.r.below(3);
        for _ in 0..nb {
            st.broadcast(ctx, out);
        }
        if st.r.chance(1, 6) {
            st.unicast_to_absent(out);
        }
        st.tick(ctx, out);
        if st.aborted || out.should_stop() {
            break;
        }
    }
    if st.aborted {
        out.count("runs_abandoned_after_panic");
        out.eval(st.sim.fp.finish(), false);
        return;
    }
    st.sim.heal(&mut st.mons, ctx, out);
    let bound = st.bound();
    out.max("deadline_bound_ticks", bound);
    let tail = r.range(0, 20);
    let mut extra = 0;
    let mut t = 0;
    while t < bound && !st.aborted {
        st.tick(ctx, out);
        t += 1;
        let done = (0..st.n()).filter(|c| st.undisturbed(*c)).all(|c| st.owed(c) == 0);
        if done {
            if extra == 0 {
                out.max("ticks_to_full_delivery_after_heal", t);
            }
            extra += 1;
            if extra > tail {
                break;
            }
        }
        if out.should_stop() {
            break;
        }
    }
    if st.aborted {
        out.count("runs_abandoned_after_panic");
        out.eval(st.sim.fp.finish(), false);
        return;
    }
    st.sim.deadline(&mut st.mons, ctx, out);
    st.sim.finish(&mut st.mons, ctx, out);

    let (_s, dropped, duplicated, _d, reordered) = st.sim.link_totals();
    let faults = dropped + duplicated + reordered > 0;
    let shb = sh.borrow();
    let disturbed = shb.hostile_accepted > 0 || !shb.told_to_leave.is_empty() || shb.stall_active;
    let judged_b = out.get("broadcast_obligations_checked") > bo_before;
    let judged_e = out.get("broadcast_except_obligations_checked") > be_before;
    let nontrivial = faults && disturbed && judged_b && judged_e;
    out.eval(st.sim.fp.finish(), nontrivial);
    if nontrivial && out.samples.len() < out.max_samples {
        out.sample(json!({
            "run_seed": format!("{:#x}", run_seed),
            "cfg": st.sim.cfg.describe(),
            "initial_clients": n0, "sessions_total": st.n(),
            "hostile": shb.hostile, "stalled (conn, channel)": shb.stalled, "told_to_leave": shb.told_to_leave,
            "broadcasts": st.bcast_no, "ticks": st.sim.tick, "deadline_bound_ticks": bound,
            "retransmissions": out.get("retransmissions") - retx_before,
            "first_events": st.sim.log_head.iter().take(14).collect::<Vec<_>>(),
        }));
    }
}
