//! C07 renetcode survives hostile datagrams and tokens: no panic, no observable state change for
//! datagrams that are not authentic, genuine traffic still accepted afterwards.
//!
//! Signature classes (a new panic site or a new kind of change gets a new signature by construction):
//!   C07/panic/<crate:file:message-class>            a guarded call unwound (process_packet, ConnectToken::read,
//!                                                   NetcodeClient::new / update)
//!   C07/panic-later/<crate:file:message-class>      an ordinary API call after a hostile datagram unwound
//!   C07/state-change/<observable>/<state>/<type>    a non-authentic datagram changed <observable>
//!        observable: result-send | result-payload | result-connected | result-disconnected | payload-surfaced |
//!                    client-set | client-addr | user-data | timeout-refreshed | pending-set | connected-count |
//!                    max-clients | state | reason | server-addr
//!        state:      srv-unknown | srv-pending | srv-connected | cli-requesting | cli-responding | cli-connected |
//!                    cli-disconnected
//!        type:       wire type announced by the low nibble of the prefix byte (request, denied, challenge, response,
//!                    keepalive, payload, disconnect, invalid-type) or `empty`
//!   C07/genuine-rejected/<state>                    genuine traffic no longer accepted after hostile datagrams

use super::netcode_util::*;
use crate::nsim::{self, Cli, OPacket, SResult, Srv};
use crate::outcome::{Ctx, Outcome, PropInfo};
use crate::rng::{mix, Rng};
use crate::watchdog::{self, Caught};
use renetcode::verif::{Packet, ReplayProtection};
use renetcode::{ClientAuthentication, ConnectToken, NetcodeClient};
use serde_json::{json, Value};
use std::net::SocketAddr;
use std::time::Duration;

const GRID_CELLS_PER_STATE: u64 = 256 * 70 * 3;

pub static INFO: PropInfo = PropInfo {
    id: "C07",
    level: "fault_enumeration",
    rule: "one evaluation = one hostile datagram (or token byte string) handed to a live endpoint through a guarded call. ENUMERATED sub-space (exhaustive=true refers to this grid only, split over the shards by prefix byte and enumerated completely on every engine): all 256 prefix bytes x lengths {0..=64, 1077, 1078, 1079, 1399, 1400} x body {zeros, 0xFF, the tail of a genuine not-yet-presented datagram of that very session} x 7 protocol states (server: unknown address, half-open address, connected address; client: requesting, responding, connected, disconnected); a cell that happens to be byte-identical to the genuine datagram is skipped. Every cell must return normally with result None and an identical observable snapshot (client ids, addresses, user data, time since last received packet of every client, half-open set; client state, reason, time since last packet); after every row the connected pair must still exchange one payload each way, after every prefix byte all half-open handshakes must still complete and a fresh token must still connect from the 'unknown' address. SAMPLED: 1-3 bit flips, truncations, extensions of genuine datagrams of all seven kinds, genuine datagrams presented from other sessions' addresses, packets sealed under another key / protocol id, requests with a wrong version / protocol / expired / foreign-key / wrong-host token, random strings (all non-authentic by construction: full oracle); packets of every kind sealed under the session's own keys with boundary sequence numbers incl. 2^64-1, replays, padded requests (authentic or replayed: only 'returns normally', also for the API calls that follow); serialized tokens with address count 0/33/2^32-1, address type 0/3, expire<create, timeout<0, bit flips, truncations -> ConnectToken::read -> NetcodeClient::new -> update/process_packet -> request to a server. Generator 'stale-denied' hands a connected (or disconnected) client a ConnectionDenied sealed under its own token's server-to-client key with a server-global sequence (what a full server sent before a slot became free, delivered late). Generator 'reflect' hands a genuine datagram back to the endpoint that produced it (server-to-client datagrams to the server from that client's address, client-to-server ones to that client); a quarter of the clients hold a token made by the library's own ConnectToken::generate. Non-trivial = the datagram reached a live endpoint in the named state and the oracle was evaluated; distinct = (state, generator, datagram hash).",
    assumptions: &[
        "ChaCha20-Poly1305 is unforgeable: a datagram that differs from every genuine one in a sealed or bound bit is not authentic",
        "replays of genuine datagrams and packets sealed under the session's own keys are only required to return normally here (their effect belongs to C04/C18)",
        "the unused high nibble of a request's prefix byte and bytes after a complete request are neither sealed nor bound: such datagrams count as the request itself",
        "time since the last received packet is made non-zero before every hostile datagram so that a refreshed timeout is observable",
    ],
    gates: &[
        ("grid.prefix_bytes_complete", 256),
        ("grid.srv-unknown", GRID_CELLS_PER_STATE - 8),
        ("grid.srv-pending", GRID_CELLS_PER_STATE - 8),
        ("grid.srv-connected", GRID_CELLS_PER_STATE - 8),
        ("grid.cli-requesting", GRID_CELLS_PER_STATE - 8),
        ("grid.cli-responding", GRID_CELLS_PER_STATE - 8),
        ("grid.cli-connected", GRID_CELLS_PER_STATE - 8),
        ("grid.cli-disconnected", GRID_CELLS_PER_STATE - 8),
        ("grid.row_genuine_checks", 1000),
        ("grid.final_checks_ok", 256),
        ("gen.flip", 500),
        ("gen.trunc", 300),
        ("gen.extend", 100),
        ("gen.readdress", 100),
        ("gen.foreign-seal", 100),
        ("gen.bad-request", 100),
        ("gen.random", 100),
        ("gen.sealed-own-key", 100),
        ("gen.sealed-own-key.seq-max", 5),
        ("gen.replay", 50),
        ("kind.request", 20),
        ("kind.challenge", 20),
        ("kind.response", 20),
        ("kind.keepalive", 20),
        ("kind.payload", 20),
        ("kind.disconnect", 20),
        ("kind.denied", 20),
        ("decode.PacketTooSmall", 1),
        ("decode.InvalidPacketType", 1),
        ("decode.CryptoError", 1),
        ("decode.IoError", 1),
        ("decode.UnavailablePrivateKey", 1),
        ("token.count-0", 5),
        ("token.count-33", 5),
        ("token.count-max", 5),
        ("token.type-0", 5),
        ("token.type-3", 5),
        ("token.expire<create", 5),
        ("token.timeout<0", 5),
        ("token.bitflip", 20),
        ("token.read_ok_then_client_new", 20),
        ("token.client_update_calls", 20),
        ("sampled.final_checks_ok", 10),
    ],
    engines_quick: &["e1", "e2"],
    engines_thorough: &["e1", "e2"],
    run,
};

const QUICK_RUNS: u64 = 4800;
const THOROUGH_RUNS: u64 = 600_000;

pub fn run(ctx: &Ctx, out: &mut Outcome) {
    if ctx.replay_seed.is_some() {
        match ctx.replay_mode.as_deref() {
            Some("grid") => grid(ctx, out, ctx.replay_seed.unwrap()),
            _ => one_run(ctx, out, ctx.replay_seed.unwrap()),
        }
        return;
    }
    grid(ctx, out, ctx.shard_seed(0x6d1d));
    if out.should_stop() {
        return;
    }
    super::run_loop(ctx, out, QUICK_RUNS, THOROUGH_RUNS, 7, one_run);
}

// ------------------------------------------------------------------------------------------
// world: one server, clients in every protocol state

#[derive(Clone, Copy, PartialEq, Eq, Debug)]
enum Tgt {
    /// server, datagram presented from the unknown address
    SrvUnknown,
    /// server, datagram presented from the address of client `i`
    SrvFrom(usize),
    /// client `i`
    Cli(usize),
}

const P: usize = 0; // requesting, challenge withheld (server: half-open)
const R: usize = 1; // responding, response withheld (server: half-open)
const C: usize = 2; // connected
const D: usize = 3; // disconnected
const C2: usize = 4; // second connected session (rich worlds only)

const GRID_STATES: [Tgt; 7] = [
    Tgt::SrvUnknown,
    Tgt::SrvFrom(R),
    Tgt::SrvFrom(C),
    Tgt::Cli(P),
    Tgt::Cli(R),
    Tgt::Cli(C),
    Tgt::Cli(D),
];

fn state_name(t: Tgt) -> &'static str {
    match t {
        Tgt::SrvUnknown | Tgt::SrvFrom(D) => "srv-unknown",
        Tgt::SrvFrom(P) | Tgt::SrvFrom(R) => "srv-pending",
        Tgt::SrvFrom(_) => "srv-connected",
        Tgt::Cli(P) => "cli-requesting",
        Tgt::Cli(R) => "cli-responding",
        Tgt::Cli(D) => "cli-disconnected",
        Tgt::Cli(_) => "cli-connected",
    }
}

fn wire_class(d: &[u8]) -> &'static str {
    match d.first() {
        None => "empty",
        Some(b) => type_name(*b),
    }
}

/// A genuine datagram captured from (or sealed exactly like) the live sessions.
#[derive(Clone)]
struct Genuine {
    kind: &'static str,
    bytes: Vec<u8>,
    /// where the genuine one would be accepted
    home: Tgt,
    /// session whose keys sealed it (index into `clients`), None for the unknown-address token
    session: Option<usize>,
}

struct World {
    srv: Srv,
    u_addr: SocketAddr,
    clients: Vec<Cli>,
    chal_p: Vec<u8>,
    resp_r: Vec<u8>,
    /// per grid state: genuine, never presented datagram whose tail is used as body pattern
    tails: Vec<Vec<u8>>,
    genuine: Vec<Genuine>,
    n_payload: u64,
    seed: u64,
    /// the never-presented token whose request sits in `genuine` (rich worlds only)
    fresh: Option<crate::nsim::Minted>,
}

enum Obs {
    Clean,
    Changed(String, String),
    Panic(Caught),
}

impl World {
    fn new(seed: u64, rich: bool) -> Result<World, String> {
        let mut r = Rng::new(seed);
        let v6 = rich && r.chance(1, 5);
        let n_addrs = if rich { r.urange(1, 3) } else { 1 };
        let mut srv = new_srv(&mut r, 8, n_addrs, v6);
        let timeout: i32 = if rich { r.pick_copy(&[5, 15, 3600, -1]) } else { 3600 };
        let expire = 60 + r.below(600);
        let base_id = r.next_u64() >> 1;
        let u_n = 9_000 + r.below(500);
        let u_addr = client_addr(&mut r, u_n);
        let mut clients = Vec::new();
        for i in 0..(if rich { 5 } else { 4 }) {
            let a_n = 100 + 37 * i as u64 + r.below(30);
            let addr = client_addr(&mut r, a_n);
            let id = if i == D && rich && r.chance(1, 3) { 0 } else { base_id.wrapping_add(i as u64 * 0x1_0001) };
            clients.push(new_cli(&mut r, &srv, id, addr, timeout, expire)?);
        }
        let mut genuine = Vec::new();
        let mut fresh_token: Option<crate::nsim::Minted> = None;
        // D: connect, capture a payload for it, then disconnect (either side)
        let w_d = connect(&mut srv, &mut clients[D])?;
        let id_d = clients[D].minted.token.client_id;
        let n_d = r.urange(1, 40);
        let (_, g_d) = srv.payload_for(id_d, &r.bytes(n_d))?;
        let disc_d;
        if r.chance(1, 2) {
            let (_, d) = clients[D].disconnect()?;
            match srv.process(clients[D].addr, &d) {
                SResult::Disconnected { .. } => {}
                other if d.len() < 18 => return Err(format!("17-byte disconnect not accepted ({}), see F15", other.kind())),
                other => return Err(format!("client disconnect not accepted: {}", other.kind())),
            }
            disc_d = d;
        } else {
            match srv.disconnect(id_d) {
                SResult::Disconnected { bytes: Some(b), .. } => {
                    clients[D].process(&b);
                    disc_d = b;
                }
                other => return Err(format!("server disconnect failed: {}", other.kind())),
            }
            if !clients[D].c.is_disconnected() {
                return Err("client did not accept the server's disconnect".into());
            }
        }
        let _ = (w_d, disc_d);
        // C (and C2): connected
        let w_c = connect(&mut srv, &mut clients[C])?;
        if rich {
            connect(&mut srv, &mut clients[C2])?;
        }
        // R: responding, P: requesting
        let (req_r, chal_r, resp_r) = to_responding(&mut srv, &mut clients[R])?;
        let (req_p, chal_p) = to_pending(&mut srv, &mut clients[P])?;
        let protocol = srv.protocol_id;
        // genuine, never presented datagrams
        let total = r.urange(20, 60);
        let (_, g_up) = clients[C].payload(&r.bytes(total - 18))?;
        let id_c = clients[C].minted.token.client_id;
        let n_down = r.urange(1, 44);
        let (_, g_down) = srv.payload_for(id_c, &r.bytes(n_down))?;
        let ka_r = OPacket::KeepAlive {
            client_index: 1,
            max_clients: 8,
        }
        .encode(protocol, Some((0, &clients[R].minted.token.server_to_client_key)))
        .ok_or("keepalive encode")?;
        // a request that is genuine for *another* server (foreign private key): never authentic here
        let mut foreign_srv_key = srv.key;
        foreign_srv_key[0] ^= 1;
        let foreign = nsim::mint(&mut r, srv.now.as_secs(), protocol, 300, 77, 15, &srv.addrs, None, &foreign_srv_key);
        let foreign_req = request_of(&foreign);
        let tails = vec![
            foreign_req.clone(),
            resp_r.clone(),
            g_up.clone(),
            chal_p.clone(),
            ka_r.clone(),
            g_down.clone(),
            g_d.clone(),
        ];
        if rich {
            let keys: Vec<([u8; 32], [u8; 32])> = clients.iter().map(|c| (c.minted.token.client_to_server_key, c.minted.token.server_to_client_key)).collect();
            let c2s = |i: usize| keys[i].0;
            let s2c = |i: usize| keys[i].1;
            let enc = |p: OPacket, seq: u64, key: [u8; 32]| p.encode(protocol, Some((seq, &key))).ok_or("encode");
            let fresh = mint_for(&mut r, &srv, base_id ^ 0x5555, timeout, expire);
            genuine.push(Genuine { kind: "request", bytes: request_of(&fresh), home: Tgt::SrvUnknown, session: None });
            fresh_token = Some(fresh);
            genuine.push(Genuine { kind: "request", bytes: req_p.clone(), home: Tgt::SrvFrom(P), session: Some(P) });
            genuine.push(Genuine { kind: "request", bytes: req_r.clone(), home: Tgt::SrvFrom(R), session: Some(R) });
            genuine.push(Genuine { kind: "request", bytes: w_c.request.clone(), home: Tgt::SrvFrom(C), session: Some(C) });
            genuine.push(Genuine { kind: "challenge", bytes: chal_p.clone(), home: Tgt::Cli(P), session: Some(P) });
            genuine.push(Genuine { kind: "challenge", bytes: chal_r.clone(), home: Tgt::Cli(R), session: Some(R) });
            genuine.push(Genuine { kind: "response", bytes: resp_r.clone(), home: Tgt::SrvFrom(R), session: Some(R) });
            genuine.push(Genuine { kind: "response", bytes: w_c.response.clone(), home: Tgt::SrvFrom(C), session: Some(C) });
            genuine.push(Genuine { kind: "keepalive", bytes: w_c.keepalive.clone(), home: Tgt::Cli(C), session: Some(C) });
            genuine.push(Genuine { kind: "keepalive", bytes: ka_r.clone(), home: Tgt::Cli(R), session: Some(R) });
            let ka_up = enc(OPacket::KeepAlive { client_index: 0, max_clients: 0 }, 900 + r.below(50), c2s(C))?;
            genuine.push(Genuine { kind: "keepalive", bytes: ka_up, home: Tgt::SrvFrom(C), session: Some(C) });
            genuine.push(Genuine { kind: "payload", bytes: g_up.clone(), home: Tgt::SrvFrom(C), session: Some(C) });
            genuine.push(Genuine { kind: "payload", bytes: g_down.clone(), home: Tgt::Cli(C), session: Some(C) });
            let n_big = r.urange(1000, 1300);
            let big = r.bytes(n_big);
            let (_, g_up2) = clients[C2].payload(&big)?;
            genuine.push(Genuine { kind: "payload", bytes: g_up2, home: Tgt::SrvFrom(C2), session: Some(C2) });
            let disc_up = enc(OPacket::Disconnect, 1000 + r.below(50), c2s(C))?;
            genuine.push(Genuine { kind: "disconnect", bytes: disc_up, home: Tgt::SrvFrom(C), session: Some(C) });
            let disc_down = enc(OPacket::Disconnect, 1000 + r.below(50), s2c(C2))?;
            genuine.push(Genuine { kind: "disconnect", bytes: disc_down, home: Tgt::Cli(C2), session: Some(C2) });
            let den_p = enc(OPacket::Denied, 1 + r.below(200), s2c(P))?;
            genuine.push(Genuine { kind: "denied", bytes: den_p, home: Tgt::Cli(P), session: Some(P) });
            let den_r = enc(OPacket::Denied, 1 + r.below(200), s2c(R))?;
            genuine.push(Genuine { kind: "denied", bytes: den_r, home: Tgt::Cli(R), session: Some(R) });
        }
        let mut w = World {
            srv,
            u_addr,
            clients,
            chal_p,
            resp_r,
            tails,
            genuine,
            fresh: fresh_token,
            n_payload: 0,
            seed,
        };
        w.age();
        Ok(w)
    }

    /// Lets a little virtual time pass so that "time since last received packet" is non-zero everywhere.
    fn age(&mut self) {
        let dt = Duration::from_millis(3);
        self.srv.update(dt);
        for c in self.clients.iter_mut() {
            let _ = c.update(dt);
        }
    }

    fn addr_of(&self, t: Tgt) -> SocketAddr {
        match t {
            Tgt::SrvUnknown => self.u_addr,
            Tgt::SrvFrom(i) | Tgt::Cli(i) => self.clients[i].addr,
        }
    }

    /// Presents a datagram that is not authentic by construction and evaluates the full oracle.
    fn present(&mut self, t: Tgt, d: &[u8]) -> Obs {
        match t {
            Tgt::SrvUnknown | Tgt::SrvFrom(_) => {
                let addr = self.addr_of(t);
                let before = self.srv.snapshot();
                let srv = &mut self.srv;
                match watchdog::guarded("NetcodeServer::process_packet", d, || srv.process(addr, d)) {
                    Err(c) => Obs::Panic(c),
                    Ok(res) => {
                        if res != SResult::None {
                            return Obs::Changed(format!("result-{}", res.kind()), format!("{:?}", short_result(&res)));
                        }
                        let after = self.srv.snapshot();
                        match before.diff(&after) {
                            Some(w) => Obs::Changed(w.to_string(), format!("before {:?} after {:?}", before, after)),
                            None => Obs::Clean,
                        }
                    }
                }
            }
            Tgt::Cli(i) => {
                let before = self.clients[i].snapshot();
                let cli = &mut self.clients[i];
                match watchdog::guarded("NetcodeClient::process_packet", d, || cli.process(d)) {
                    Err(c) => Obs::Panic(c),
                    Ok(Some(p)) => Obs::Changed("payload-surfaced".into(), format!("{} bytes surfaced", p.len())),
                    Ok(None) => {
                        let after = self.clients[i].snapshot();
                        match before.diff(&after) {
                            Some(w) => Obs::Changed(w.to_string(), format!("before {:?} after {:?}", before, after)),
                            None => Obs::Clean,
                        }
                    }
                }
            }
        }
    }

    /// No-oracle presentation (authentic / replayed datagrams): only "returns normally".
    fn present_unchecked(&mut self, t: Tgt, d: &[u8]) -> Result<(), Caught> {
        match t {
            Tgt::SrvUnknown | Tgt::SrvFrom(_) => {
                let addr = self.addr_of(t);
                let srv = &mut self.srv;
                watchdog::guarded("NetcodeServer::process_packet", d, || srv.process(addr, d)).map(|_| ())
            }
            Tgt::Cli(i) => {
                let cli = &mut self.clients[i];
                watchdog::guarded("NetcodeClient::process_packet", d, || cli.process(d)).map(|_| ())
            }
        }
    }

    fn row_check(&mut self, idx: usize) -> Result<(), String> {
        self.n_payload += 1;
        let n = self.n_payload;
        let payload = mix(&[self.seed, n]).to_le_bytes();
        let (srv, cli) = (&mut self.srv, &mut self.clients[idx]);
        genuine_up(srv, cli, &payload)?;
        genuine_down(srv, cli, &payload[..5])?;
        self.age();
        Ok(())
    }

    /// Everything half-open must still complete, the connected pair still talks, a fresh token connects
    /// from the address all the "unknown address" datagrams came from. Consumes the world.
    fn final_checks(mut self, r: &mut Rng) -> Result<(), (&'static str, String)> {
        self.row_check(C).map_err(|e| ("connected", e))?;
        if self.clients.len() > C2 {
            self.row_check(C2).map_err(|e| ("connected", e))?;
        }
        // P: challenge that was withheld is still good, handshake completes
        {
            let chal = self.chal_p.clone();
            let (srv, cli) = (&mut self.srv, &mut self.clients[P]);
            cli.process(&chal);
            let resp = cli_emit(cli).map_err(|e| ("cli-requesting", e))?;
            if resp.first().map(|b| b & 0xF) != Some(3) {
                return Err(("cli-requesting", "genuine challenge no longer accepted by the requesting client".into()));
            }
            finish_connect(srv, cli, &resp).map_err(|e| ("srv-pending", e))?;
            genuine_up(srv, cli, b"p-after").map_err(|e| ("srv-pending", e))?;
        }
        {
            let resp = self.resp_r.clone();
            let (srv, cli) = (&mut self.srv, &mut self.clients[R]);
            finish_connect(srv, cli, &resp).map_err(|e| ("srv-pending", e))?;
            genuine_down(srv, cli, b"r-after").map_err(|e| ("cli-responding", e))?;
        }
        {
            let u_id = r.next_u64() | (1 << 63);
            let mut cli = new_cli(r, &self.srv, u_id, self.u_addr, 15, 120).map_err(|e| ("srv-unknown", e))?;
            connect(&mut self.srv, &mut cli).map_err(|e| ("srv-unknown", e))?;
            genuine_up(&mut self.srv, &mut cli, b"u-after").map_err(|e| ("srv-unknown", e))?;
        }
        if let Some(m) = self.fresh.take() {
            // the token whose request (and forged look-alikes copying its tag) were only ever presented in
            // non-authentic form must still be usable, from an address of its own
            let f_addr = client_addr(r, 977);
            let mut cli = Cli::new(self.srv.now, m, f_addr).map_err(|e| ("srv-unknown", e))?;
            connect(&mut self.srv, &mut cli).map_err(|e| ("srv-unknown", format!("never-presented genuine token no longer connects: {e}")))?;
        }
        if !self.clients[D].c.is_disconnected() {
            return Err(("cli-disconnected", "disconnected client came back to life".into()));
        }
        Ok(())
    }
}

fn short_result(r: &SResult) -> Value {
    match r.outgoing() {
        Some((a, b)) => json!({"kind": r.kind(), "to": a.to_string(), "len": b.len()}),
        None => json!({"kind": r.kind()}),
    }
}

// ------------------------------------------------------------------------------------------
// the exhaustive grid

fn grid_lens() -> Vec<usize> {
    let mut v: Vec<usize> = (0..=64).collect();
    v.extend_from_slice(&[1077, 1078, 1079, 1399, 1400]);
    v
}

fn grid(ctx: &Ctx, out: &mut Outcome, seed: u64) {
    let lens = grid_lens();
    let mut complete = true;
    let mut r = Rng::new(mix(&[seed, 1]));
    let mut d = Vec::with_capacity(MAX_DATAGRAM);
    'prefix: for prefix in 0u16..256 {
        if prefix as usize % ctx.nshards != ctx.shard {
            continue;
        }
        let prefix = prefix as u8;
        let wseed = mix(&[seed, prefix as u64]);
        let mut w = match World::new(wseed, false) {
            Ok(w) => w,
            Err(e) => {
                out.inconclusive(&format!("C07 grid: cannot build the session world: {e}"));
                complete = false;
                break;
            }
        };
        let mut prefix_complete = true;
        for body in 0..3u8 {
            for (si, &st) in GRID_STATES.iter().enumerate() {
                let sname = state_name(st);
                for &len in lens.iter() {
                    d.clear();
                    if len > 0 {
                        d.push(prefix);
                        let tail = &w.tails[si];
                        for i in 1..len {
                            d.push(match body {
                                0 => 0,
                                1 => 0xFF,
                                _ => tail[1 + (i - 1) % (tail.len() - 1)],
                            });
                        }
                    }
                    out.count(&format!("grid.{sname}"));
                    if body == 2 && d == w.tails[si] && st != Tgt::SrvUnknown {
                        out.count("grid.cell_is_the_genuine_datagram_skipped");
                        continue;
                    }
                    let obs = w.present(st, &d);
                    out.eval(mix(&[0x67, si as u64, prefix as u64, len as u64, body as u64]), true);
                    let body_name = ["zeros", "0xFF", "tail of a genuine datagram of the session"][body as usize];
                    let replay = |observed: &str| {
                        json!({"property": "C07", "engine": ctx.engine, "mode": "grid", "run_seed": format!("{:#x}", seed),
                            "state": sname, "prefix_byte": prefix, "length": len,
                            "body": body_name,
                            "datagram": dg_json(&d), "observed": observed})
                    };
                    match obs {
                        Obs::Clean => {}
                        Obs::Changed(what, detail) => {
                            let sig = format!("C07/state-change/{}/{}/{}", what, sname, wire_class(&d));
                            out.violation(
                                ctx,
                                &sig,
                                "a datagram that is not authentic changes nothing observable",
                                format!("grid cell prefix {:#04x} len {} body {} in state {}: {} ({})", prefix, len, body, sname, what, detail),
                                replay(&what),
                            );
                            if out.should_stop() {
                                complete = false;
                                break 'prefix;
                            }
                            // continue on a fresh world: the change may have destroyed the state under test
                            match World::new(mix(&[wseed, len as u64, body as u64, si as u64]), false) {
                                Ok(nw) => w = nw,
                                Err(e) => {
                                    out.inconclusive(&format!("C07 grid: cannot rebuild the session world: {e}"));
                                    complete = false;
                                    break 'prefix;
                                }
                            }
                        }
                        Obs::Panic(c) => {
                            out.count("grid.panics");
                            let sig = format!("C07/panic/{}", c.class);
                            out.violation(
                                ctx,
                                &sig,
                                "the call returns normally",
                                format!("grid cell prefix {:#04x} len {} body {} in state {}: panic at {}: {}", prefix, len, body, sname, c.loc, c.msg),
                                replay("panic"),
                            );
                            if out.should_stop() {
                                complete = false;
                                break 'prefix;
                            }
                            match World::new(mix(&[wseed, len as u64, body as u64, si as u64, 1]), false) {
                                Ok(nw) => w = nw,
                                Err(e) => {
                                    out.inconclusive(&format!("C07 grid: cannot rebuild the session world: {e}"));
                                    complete = false;
                                    break 'prefix;
                                }
                            }
                        }
                    }
                }
                // after every row: the connected pair still exchanges payloads
                if matches!(st, Tgt::SrvFrom(C) | Tgt::Cli(C)) {
                    out.count("grid.row_genuine_checks");
                    if let Err(e) = w.row_check(C) {
                        prefix_complete = false;
                        out.violation(
                            ctx,
                            &format!("C07/genuine-rejected/{}", sname),
                            "genuine traffic afterwards is still accepted",
                            format!("after grid row prefix {:#04x} body {} in state {}: {}", prefix, body, sname, e),
                            json!({"property": "C07", "engine": ctx.engine, "mode": "grid", "run_seed": format!("{:#x}", seed),
                                "state": sname, "prefix_byte": prefix, "body": body, "observed": e}),
                        );
                        if out.should_stop() {
                            complete = false;
                            break 'prefix;
                        }
                        match World::new(mix(&[wseed, 99, body as u64, si as u64]), false) {
                            Ok(nw) => w = nw,
                            Err(e) => {
                                out.inconclusive(&format!("C07 grid: cannot rebuild the session world: {e}"));
                                complete = false;
                                break 'prefix;
                            }
                        }
                    }
                }
            }
        }
        match w.final_checks(&mut r) {
            Ok(()) => out.count("grid.final_checks_ok"),
            Err((st, e)) => {
                prefix_complete = false;
                out.violation(
                    ctx,
                    &format!("C07/genuine-rejected/{}", st),
                    "genuine traffic afterwards is still accepted",
                    format!("after all grid cells of prefix byte {:#04x}: {}", prefix, e),
                    json!({"property": "C07", "engine": ctx.engine, "mode": "grid", "run_seed": format!("{:#x}", seed),
                        "state": st, "prefix_byte": prefix, "observed": e}),
                );
                if out.should_stop() {
                    complete = false;
                    break 'prefix;
                }
            }
        }
        if prefix_complete {
            out.count("grid.prefix_bytes_complete");
        }
        if out.samples.len() < 2 && prefix as usize / ctx.nshards == 5 {
            out.sample(json!({"mode": "grid", "prefix_byte": prefix, "lengths": "0..=64,1077,1078,1079,1399,1400",
                "bodies": 3, "states": GRID_STATES.iter().map(|s| state_name(*s)).collect::<Vec<_>>(),
                "cells": 70 * 3 * 7, "all_clean": prefix_complete}));
        }
    }
    out.exhaustive = Some(match out.exhaustive {
        Some(false) => false,
        _ => complete,
    });
}

// ------------------------------------------------------------------------------------------
// sampled generators

struct Hostile {
    gen: &'static str,
    kind: &'static str,
    target: Tgt,
    bytes: Vec<u8>,
    /// key of the session the datagram pretends to belong to (coverage classification only)
    key: Option<[u8; 32]>,
}

fn key_towards(w: &World, t: Tgt) -> Option<[u8; 32]> {
    match t {
        Tgt::SrvUnknown => None,
        Tgt::SrvFrom(i) => Some(w.clients[i].minted.token.client_to_server_key),
        Tgt::Cli(i) => Some(w.clients[i].minted.token.server_to_client_key),
    }
}

fn random_target(r: &mut Rng, w: &World) -> Tgt {
    let n = w.clients.len();
    match r.below(3) {
        0 => Tgt::SrvUnknown,
        1 => Tgt::SrvFrom(r.usize_below(n)),
        _ => Tgt::Cli(r.usize_below(n)),
    }
}

fn random_opacket(r: &mut Rng) -> OPacket {
    match r.below(6) {
        0 => OPacket::Denied,
        1 => {
            let mut b = Box::new([0u8; 300]);
            r.fill(&mut b[..]);
            OPacket::Challenge {
                token_sequence: r.boundary_u64(),
                token_data: b,
            }
        }
        2 => {
            let mut b = Box::new([0u8; 300]);
            r.fill(&mut b[..]);
            OPacket::Response {
                token_sequence: r.boundary_u64(),
                token_data: b,
            }
        }
        3 => OPacket::KeepAlive {
            client_index: r.next_u64() as u32,
            max_clients: r.next_u64() as u32,
        },
        4 => {
            let n = *r.pick(&[0usize, 1, 2, 100, 1299, 1300]);
            OPacket::Payload(r.bytes(n))
        }
        _ => OPacket::Disconnect,
    }
}

/// One datagram that is not authentic for the endpoint it is presented to (by construction).
fn gen_hostile(r: &mut Rng, w: &World) -> Option<Hostile> {
    let pick = r.below(100);
    if pick < 62 {
        // mutations of a genuine datagram
        let g = r.pick(&w.genuine).clone();
        let target = if r.chance(4, 5) { g.home } else { random_target(r, w) };
        let mut d = g.bytes.clone();
        let gen;
        match r.below(10) {
            0..=4 => {
                gen = "flip";
                let n = 1 + r.usize_below(3);
                for _ in 0..n {
                    let bit = if r.chance(1, 4) { r.usize_below(8 * d.len().min(12)) } else { r.usize_below(8 * d.len()) };
                    flip_bit(&mut d, bit);
                }
                // net effect must touch a sealed or bound bit: the unused high nibble of a request's prefix
                // is neither (such a datagram *is* the request)
                let same_request = g.kind == "request" && d[1..] == g.bytes[1..] && (d[0] & 0xF) == (g.bytes[0] & 0xF);
                if same_request || d == g.bytes {
                    return None;
                }
            }
            5..=7 => {
                gen = "trunc";
                let seqlen = (d[0] >> 4) as usize;
                let cut = match r.below(4) {
                    0 => r.usize_below(d.len()),
                    1 => *r.pick(&[0usize, 1, 2, 16, 17, 18, 19]),
                    2 => (1 + seqlen + *r.pick(&[0usize, 1, 15, 16, 17])).min(d.len() - 1),
                    _ => d.len() - 1 - r.usize_below(d.len().min(20)),
                };
                d.truncate(cut.min(d.len() - 1));
            }
            _ => {
                // bytes after a complete request are ignored by the format: such a datagram *is* the request
                if g.kind == "request" {
                    return None;
                }
                gen = "extend";
                let extra = if r.chance(1, 2) { 1 + r.usize_below(4) } else { 1 + r.usize_below(MAX_DATAGRAM - d.len()) };
                let e = r.bytes(extra);
                d.extend_from_slice(&e);
            }
        }
        let key = g.session.map(|i| match g.home {
            Tgt::Cli(_) => w.clients[i].minted.token.server_to_client_key,
            _ => w.clients[i].minted.token.client_to_server_key,
        });
        Some(Hostile { gen, kind: g.kind, target, bytes: d, key })
    } else if pick < 72 {
        // genuine datagram presented from / to another session
        let g = r.pick(&w.genuine).clone();
        let n = w.clients.len();
        // ... or reflected: handed back to the endpoint that produced it (a server-to-client datagram to the server
        // from that client's address, a client-to-server datagram to that client). Direction is authenticated by
        // the two session keys, so it is not authentic for the session it addresses
        if let (Some(i), true) = (g.session, r.chance(1, 3)) {
            if g.kind != "request" {
                let target = match g.home {
                    Tgt::Cli(_) => Tgt::SrvFrom(i),
                    _ => Tgt::Cli(i),
                };
                return Some(Hostile { gen: "reflect", kind: g.kind, target, bytes: g.bytes, key: key_towards(w, target) });
            }
        }
        let target = match g.home {
            Tgt::Cli(i) => Tgt::Cli((i + 1 + r.usize_below(n - 1)) % n),
            _ => {
                let own = g.session;
                let mut cands: Vec<Tgt> = (0..n).filter(|i| Some(*i) != own && *i != D).map(Tgt::SrvFrom).collect();
                if g.kind != "request" {
                    // a request from an address without a session is a token used from a second address: C05's business
                    cands.push(Tgt::SrvUnknown);
                    cands.push(Tgt::SrvFrom(D));
                } else if own.is_none() {
                    return None; // the fresh token has not been bound to an address yet
                }
                *r.pick(&cands)
            }
        };
        Some(Hostile { gen: "readdress", kind: g.kind, target, bytes: g.bytes, key: key_towards(w, target) })
    } else if pick < 82 {
        // correctly formed packet sealed under another key or for another protocol id
        let target = loop {
            let t = random_target(r, w);
            if t != Tgt::SrvUnknown {
                break t;
            }
        };
        let key = key_towards(w, target).unwrap();
        let p = random_opacket(r);
        let seq = if r.chance(1, 2) { 2000 + r.below(100) } else { r.boundary_u64() };
        let d = if r.chance(1, 2) {
            p.encode(w.srv.protocol_id, Some((seq, &other_key(&key))))?
        } else {
            p.encode(w.srv.protocol_id ^ (1 << r.below(64)), Some((seq, &key)))?
        };
        let kind = match p.name() {
            "denied" => "denied",
            "challenge" => "challenge",
            "response" => "response",
            "keepalive" => "keepalive",
            "payload" => "payload",
            _ => "disconnect",
        };
        Some(Hostile { gen: "foreign-seal", kind, target, bytes: d, key: Some(key) })
    } else if pick < 84 && w.genuine.iter().any(|g| g.kind == "request" && g.session.is_none()) {
        // forged request that copies only the last 16 bytes (the tag) of a genuine, not yet presented
        // token: garbage nonce and body, presented from a half-open address. Not authentic, so nothing may
        // change - in particular the genuine token must still connect from its own address afterwards
        // (final checks).
        let g = w.genuine.iter().find(|g| g.kind == "request" && g.session.is_none()).unwrap();
        let mut d = g.bytes.clone();
        let body = req_off::XNONCE..REQUEST_LEN - 16;
        let noise = r.bytes(body.len());
        d[body].copy_from_slice(&noise);
        let target = Tgt::SrvFrom(*r.pick(&[P, R]));
        Some(Hostile { gen: "tag-copy-request", kind: "request", target, bytes: d, key: key_towards(w, target) })
    } else if pick < 92 {
        // requests that carry no valid token for this server
        let srv = &w.srv;
        let now = srv.now.as_secs();
        let id = r.next_u64();
        let which = r.below(6);
        let m = match which {
            0 | 1 | 5 => mint_for(r, srv, id, 15, 300),
            2 => {
                let e = 50 + r.below(50);
                nsim::mint(r, now - 100, srv.protocol_id, e, id, 15, &srv.addrs, None, &srv.key) // expired
            }
            3 => nsim::mint(r, now, srv.protocol_id, 300, id, 15, &srv.addrs, None, &other_key(&srv.key)), // foreign server key
            _ => {
                let hosts = super::netcode_util::near_hosts(r, &srv.addrs); // other host list, close to the server's own
                nsim::mint(r, now, srv.protocol_id, 300, id, 15, &hosts, None, &srv.key)
            }
        };
        let mut d = request_of(&m);
        match which {
            0 => d[req_off::VERSION + r.usize_below(13)] ^= 1 << r.below(8),
            1 => d[req_off::PROTOCOL + r.usize_below(8)] ^= 1 << r.below(8),
            5 => d[req_off::XNONCE + r.usize_below(24)] ^= 1 << r.below(8),
            _ => {}
        }
        if r.chance(1, 3) {
            let n_e = 1 + r.usize_below(MAX_DATAGRAM - REQUEST_LEN);
            let e = r.bytes(n_e);
            d.extend_from_slice(&e);
        }
        if r.chance(1, 4) {
            d[0] |= (r.below(16) as u8) << 4;
        }
        let n = w.clients.len();
        let target = if r.chance(1, 2) { Tgt::SrvUnknown } else { Tgt::SrvFrom(r.usize_below(n)) };
        Some(Hostile { gen: "bad-request", kind: "request", target, bytes: d, key: key_towards(w, target) })
    } else if pick < 94 {
        // a ConnectionDenied the server sealed for this very token while it was full (server-global sequence, 2^63 up;
        // not replay-protected), arriving after the session was established: stale, it ends nothing and leaves the
        // replay window where it was
        let i = *r.pick(&[C, C2, D]);
        if i >= w.clients.len() {
            return None;
        }
        let key = w.clients[i].minted.token.server_to_client_key;
        let seq = (1u64 << 63) + r.below(1000);
        let d = OPacket::Denied.encode(w.srv.protocol_id, Some((seq, &key)))?;
        Some(Hostile { gen: "stale-denied", kind: "denied", target: Tgt::Cli(i), bytes: d, key: Some(key) })
    } else {
        let len = match r.below(4) {
            0 => r.usize_below(40),
            1 => *r.pick(&[17usize, 18, 19, 1077, 1078, 1079, 1400]),
            _ => r.usize_below(MAX_DATAGRAM + 1),
        };
        let mut d = r.bytes(len);
        if len > 0 && r.chance(1, 2) {
            d[0] = (r.below(7) as u8) | ((r.below(10) as u8) << 4);
        }
        let target = random_target(r, w);
        Some(Hostile { gen: "random", kind: "random", target, bytes: d, key: key_towards(w, target) })
    }
}

/// Coverage only: which decode error the crate's own codec reports for these bytes under that key.
fn classify_decode(out: &mut Outcome, w: &World, h: &Hostile) {
    let key = h.key;
    let mut buf = h.bytes.clone();
    let protocol = w.srv.protocol_id;
    let res = watchdog::catch(move || {
        let mut rp = ReplayProtection::new();
        match Packet::decode(&mut buf, protocol, key.as_ref(), Some(&mut rp)) {
            Ok(_) => "Ok".to_string(),
            Err(e) => {
                let s = format!("{:?}", e);
                s.split('(').next().unwrap_or("?").to_string()
            }
        }
    });
    if let Ok(v) = res {
        out.count(&format!("decode.{v}"));
    }
}

pub fn one_run(ctx: &Ctx, out: &mut Outcome, run_seed: u64) {
    let mut r = Rng::new(run_seed);
    let wseed = r.next_u64();
    let mut w = match World::new(wseed, true) {
        Ok(w) => w,
        Err(e) => {
            out.inconclusive(&format!("C07 sampled: cannot build the session world: {e}"));
            return;
        }
    };
    let n_ops = if ctx.thorough() { 400 } else { 260 };
    let mut history: Vec<Value> = Vec::new();
    for opi in 0..n_ops {
        let Some(h) = gen_hostile(&mut r, &w) else { continue };
        let sname = state_name(h.target);
        out.count(&format!("gen.{}", h.gen));
        out.count(&format!("state.{sname}"));
        if h.kind != "random" {
            out.count(&format!("kind.{}", h.kind));
        }
        classify_decode(out, &w, &h);
        let obs = w.present(h.target, &h.bytes);
        out.eval(mix(&[0x73, crate::rng::hash_str(sname), crate::rng::hash_str(h.gen), crate::rng::fnv1a(&h.bytes)]), true);
        if history.len() >= 6 {
            history.remove(0);
        }
        history.push(json!({"op": opi, "generator": h.gen, "genuine_kind": h.kind, "state": sname, "len": h.bytes.len()}));
        let replay = |observed: &str, hist: &Vec<Value>| {
            json!({"property": "C07", "engine": ctx.engine, "mode": "sampled", "run_seed": format!("{:#x}", run_seed),
                "op_index": opi, "generator": h.gen, "genuine_kind": h.kind, "state": sname,
                "datagram": dg_json(&h.bytes), "observed": observed, "last_ops": hist})
        };
        let rebuild = match obs {
            Obs::Clean => false,
            Obs::Changed(what, detail) => {
                out.violation(
                    ctx,
                    &format!("C07/state-change/{}/{}/{}", what, sname, wire_class(&h.bytes)),
                    "a datagram that is not authentic changes nothing observable",
                    format!("generator {} on a genuine {} datagram ({} bytes) presented in state {}: {} ({})", h.gen, h.kind, h.bytes.len(), sname, what, detail),
                    replay(&what, &history),
                );
                true
            }
            Obs::Panic(c) => {
                out.violation(
                    ctx,
                    &format!("C07/panic/{}", c.class),
                    "the call returns normally",
                    format!("generator {} on a genuine {} datagram ({} bytes) presented in state {}: panic at {}: {}", h.gen, h.kind, h.bytes.len(), sname, c.loc, c.msg),
                    replay("panic", &history),
                );
                true
            }
        };
        if rebuild {
            if out.should_stop() {
                return;
            }
            match World::new(mix(&[wseed, opi as u64]), true) {
                Ok(nw) => w = nw,
                Err(e) => {
                    out.inconclusive(&format!("C07 sampled: cannot rebuild the session world: {e}"));
                    return;
                }
            }
        } else if opi % 64 == 63 {
            for idx in [C, C2] {
                if let Err(e) = w.row_check(idx) {
                    out.violation(
                        ctx,
                        "C07/genuine-rejected/connected",
                        "genuine traffic afterwards is still accepted",
                        format!("after {} sampled hostile datagrams: {}", opi + 1, e),
                        json!({"property": "C07", "engine": ctx.engine, "mode": "sampled", "run_seed": format!("{:#x}", run_seed), "op_index": opi, "observed": e, "last_ops": history}),
                    );
                    return;
                }
            }
        }
    }
    if out.samples.len() < out.max_samples {
        out.sample(json!({"mode": "sampled", "run_seed": format!("{:#x}", run_seed), "hostile_datagrams": n_ops, "last_ops": history}));
    }
    // the sessions that saw only non-authentic input (since the last rebuild) must all still work
    {
        let mut r2 = Rng::new(mix(&[run_seed, 2]));
        match w.final_checks(&mut r2) {
            Ok(()) => out.count("sampled.final_checks_ok"),
            Err((st, e)) => {
                out.violation(
                    ctx,
                    &format!("C07/genuine-rejected/{}", st),
                    "genuine traffic afterwards is still accepted",
                    format!("after {} sampled hostile datagrams: {}", n_ops, e),
                    json!({"property": "C07", "engine": ctx.engine, "mode": "sampled", "run_seed": format!("{:#x}", run_seed), "phase": "final-checks", "observed": e, "last_ops": history}),
                );
                return;
            }
        }
    }
    // authentic-class inputs: only "returns normally" (on a fresh world: these inputs may legitimately change it)
    match World::new(mix(&[wseed, 0xa07]), true) {
        Ok(mut w2) => authentic_phase(ctx, out, &mut r, &mut w2, run_seed),
        Err(e) => {
            out.inconclusive(&format!("C07 sampled: cannot build the session world: {e}"));
            return;
        }
    }
    if out.should_stop() {
        return;
    }
    token_phase(ctx, out, &mut r, run_seed);
}

/// Packets sealed under the session's own keys with chosen sequence numbers, replays, padded requests:
/// authentic (or replayed) input, so only "returns normally" applies — to the call itself and to the
/// ordinary API calls that follow it.
fn authentic_phase(ctx: &Ctx, out: &mut Outcome, r: &mut Rng, w: &mut World, run_seed: u64) {
    let n = if ctx.thorough() { 60 } else { 36 };
    for opi in 0..n {
        let (gen, target, d, seq): (&'static str, Tgt, Vec<u8>, Option<u64>) = if r.chance(2, 3) {
            let target = loop {
                let t = random_target(r, w);
                if t != Tgt::SrvUnknown {
                    break t;
                }
            };
            let key = key_towards(w, target).unwrap();
            let seq = match r.below(4) {
                0 => u64::MAX,
                1 => u64::MAX - r.below(300),
                _ => r.boundary_u64(),
            };
            let p = random_opacket(r);
            let Some(d) = p.encode(w.srv.protocol_id, Some((seq, &key))) else { continue };
            ("sealed-own-key", target, d, Some(seq))
        } else {
            let g = r.pick(&w.genuine).clone();
            let mut d = g.bytes.clone();
            if g.kind == "request" && r.chance(1, 2) {
                d[0] |= (r.below(16) as u8) << 4;
                let n_e = r.usize_below(MAX_DATAGRAM - REQUEST_LEN + 1);
                let e = r.bytes(n_e);
                d.extend_from_slice(&e);
            }
            ("replay", g.home, d, None)
        };
        out.count(&format!("gen.{gen}"));
        if seq == Some(u64::MAX) {
            out.count("gen.sealed-own-key.seq-max");
        }
        out.eval(mix(&[0x61, crate::rng::hash_str(state_name(target)), crate::rng::fnv1a(&d)]), true);
        let sname = state_name(target);
        let replay = |label: &str| {
            json!({"property": "C07", "engine": ctx.engine, "mode": "sampled", "run_seed": format!("{:#x}", run_seed),
                "phase": "authentic", "op_index": opi, "generator": gen, "state": sname, "sequence": seq.map(|s| format!("{:#x}", s)),
                "datagram": dg_json(&d), "observed": label})
        };
        if let Err(c) = w.present_unchecked(target, &d) {
            out.violation(
                ctx,
                &format!("C07/panic/{}", c.class),
                "the call returns normally",
                format!("{} ({} bytes, type {}, sequence {:?}) in state {}: panic at {}: {}", gen, d.len(), wire_class(&d), seq, sname, c.loc, c.msg),
                replay("panic"),
            );
            return;
        }
        // the endpoints keep working (ordinary API calls after the datagram)
        let dt = Duration::from_millis(*r.pick(&[1u64, 100, 260]));
        let later = {
            let World { srv, clients, .. } = w;
            watchdog::guarded("api-calls-after-datagram", &d, || {
                srv.update(dt);
                let mut ids = srv.s.clients_id();
                ids.sort_unstable();
                for id in ids {
                    let _ = srv.update_client(id);
                    let _ = srv.payload_for(id, b"after");
                }
                for c in clients.iter_mut() {
                    let _ = c.update(dt);
                    let _ = c.payload(b"after");
                }
            })
        };
        if let Err(c) = later {
            out.violation(
                ctx,
                &format!("C07/panic-later/{}", c.class),
                "the call returns normally",
                format!("API call after {} ({} bytes, type {}, sequence {:?}) in state {}: panic at {}: {}", gen, d.len(), wire_class(&d), seq, sname, c.loc, c.msg),
                replay("panic in a later API call"),
            );
            return;
        }
    }
}

// ------------------------------------------------------------------------------------------
// hostile tokens

fn token_phase(ctx: &Ctx, out: &mut Outcome, r: &mut Rng, run_seed: u64) {
    let mut srv = new_srv(r, 4, 1, false);
    let n = if ctx.thorough() { 60 } else { 40 };
    for opi in 0..n {
        let naddr = *r.pick(&[1usize, 1, 2, 5, 32]);
        let addrs: Vec<SocketAddr> = (0..naddr).map(|i| if i == 0 { srv.addrs[0] } else { client_addr(r, 3000 + i as u64) }).collect();
        let (t_exp, t_id) = (30 + r.below(300), r.next_u64());
        let m = nsim::mint(r, srv.now.as_secs(), srv.protocol_id, t_exp, t_id, 15, &addrs, None, &srv.key);
        let mut b = nsim::token_bytes(&m.token);
        let class = *r.pick(&[
            "count-0",
            "count-33",
            "count-max",
            "type-0",
            "type-3",
            "expire<create",
            "timeout<0",
            "bitflip",
            "bitflip",
            "truncated",
            "count-random",
            "valid",
        ]);
        let put32 = |b: &mut Vec<u8>, off: usize, v: u32| b[off..off + 4].copy_from_slice(&v.to_le_bytes());
        let put64 = |b: &mut Vec<u8>, off: usize, v: u64| b[off..off + 8].copy_from_slice(&v.to_le_bytes());
        match class {
            "count-0" => put32(&mut b, tok_off::NUM_ADDRS, 0),
            "count-33" => put32(&mut b, tok_off::NUM_ADDRS, 33),
            "count-max" => put32(&mut b, tok_off::NUM_ADDRS, u32::MAX),
            "count-random" => put32(&mut b, tok_off::NUM_ADDRS, r.boundary_u64() as u32),
            "type-0" => b[tok_off::FIRST_ADDR_TYPE] = 0,
            "type-3" => b[tok_off::FIRST_ADDR_TYPE] = *r.pick(&[3u8, 255, 17]),
            "expire<create" => {
                let (c, e) = match r.below(3) {
                    0 => (m.expire + 1 + r.below(100), m.expire),
                    1 => (u64::MAX, r.below(1000)),
                    _ => (m.create, 0),
                };
                put64(&mut b, tok_off::CREATE, c);
                put64(&mut b, tok_off::EXPIRE, e);
            }
            "timeout<0" => put32(&mut b, tok_off::TIMEOUT, *r.pick(&[-1i32, i32::MIN, -15]) as u32),
            "bitflip" => {
                for _ in 0..(1 + r.below(8)) {
                    let bit = if r.chance(1, 2) { 8 * tok_off::TIMEOUT + r.usize_below(8 * 40) } else { r.usize_below(8 * b.len()) };
                    let nbits = 8 * b.len();
                    flip_bit(&mut b, bit.min(nbits - 1));
                }
            }
            "truncated" => {
                let l = r.usize_below(b.len());
                b.truncate(l);
            }
            _ => {}
        }
        out.count(&format!("token.{class}"));
        out.eval(mix(&[0x74, crate::rng::fnv1a(&b)]), true);
        let replay = |call: &str| {
            json!({"property": "C07", "engine": ctx.engine, "mode": "sampled", "run_seed": format!("{:#x}", run_seed),
                "phase": "token", "op_index": opi, "corruption": class, "call": call, "token_bytes": dg_json(&b)})
        };
        let parsed = match watchdog::guarded("ConnectToken::read", &b, || ConnectToken::read(&mut &b[..])) {
            Err(c) => {
                out.violation(ctx, &format!("C07/panic/{}", c.class), "the call returns normally", format!("ConnectToken::read on a token with corruption '{}': panic at {}: {}", class, c.loc, c.msg), replay("ConnectToken::read"));
                continue;
            }
            Ok(Err(_)) => {
                out.count("token.read_err");
                continue;
            }
            Ok(Ok(t)) => t,
        };
        out.count("token.read_ok_then_client_new");
        let now = srv.now;
        let client = match watchdog::guarded("NetcodeClient::new", &b, || NetcodeClient::new(now, ClientAuthentication::Secure { connect_token: parsed })) {
            Err(c) => {
                out.violation(ctx, &format!("C07/panic/{}", c.class), "the call returns normally", format!("NetcodeClient::new on a parsed token with corruption '{}': panic at {}: {}", class, c.loc, c.msg), replay("NetcodeClient::new"));
                continue;
            }
            Ok(Err(_)) => {
                out.count("token.client_new_err");
                continue;
            }
            Ok(Ok(c)) => c,
        };
        let mut client = client;
        let mut emitted: Vec<Vec<u8>> = Vec::new();
        let mut broke = false;
        for step in 0..5 {
            let dt = match step {
                0 => Duration::ZERO,
                1 => Duration::from_millis(260),
                2 => Duration::from_secs(*r.pick(&[1u64, 20, 400])),
                3 => Duration::from_millis(260),
                _ => Duration::from_secs(1 << r.below(30)),
            };
            out.count("token.client_update_calls");
            let cl = &mut client;
            match watchdog::guarded("NetcodeClient::update", &b, || cl.update(dt).map(|(d, _)| d.to_vec())) {
                Err(c) => {
                    out.violation(ctx, &format!("C07/panic/{}", c.class), "the call returns normally", format!("NetcodeClient::update({:?}) on a client built from a token with corruption '{}': panic at {}: {}", dt, class, c.loc, c.msg), replay("NetcodeClient::update"));
                    broke = true;
                    break;
                }
                Ok(Some(d)) => emitted.push(d),
                Ok(None) => {}
            }
            if step == 1 {
                let n_j = r.usize_below(80);
                let junk = r.bytes(n_j);
                let cl = &mut client;
                if let Err(c) = watchdog::guarded("NetcodeClient::process_packet", &junk, || {
                    let mut j = junk.clone();
                    cl.process_packet(&mut j).map(|p| p.len())
                }) {
                    out.violation(ctx, &format!("C07/panic/{}", c.class), "the call returns normally", format!("NetcodeClient::process_packet on a client built from a corrupted token: panic at {}: {}", c.loc, c.msg), replay("NetcodeClient::process_packet"));
                    broke = true;
                    break;
                }
            }
        }
        if broke {
            continue;
        }
        // whatever such a client emits is handed to a server (may be a perfectly valid request: no oracle)
        for d in emitted.iter().take(2) {
            let from = client_addr(r, 7000 + opi as u64);
            let s = &mut srv;
            match watchdog::guarded("NetcodeServer::process_packet", d, || s.process(from, d)) {
                Err(c) => {
                    out.violation(ctx, &format!("C07/panic/{}", c.class), "the call returns normally", format!("request emitted by a client built from a token with corruption '{}': panic at {}: {}", class, c.loc, c.msg), replay("NetcodeServer::process_packet"));
                    srv = new_srv(r, 4, 1, false);
                    break;
                }
                Ok(res) => out.count(&format!("token.request_result.{}", res.kind())),
            }
        }
    }
}
