//! C11, "host player" executions: a server with one remote client and one LOCAL client
//! (`RenetServer::new_local_client` / `process_local_client` / `disconnect_local_client`, the listen-server
//! setup), channel lists that differ between the two directions, lossless exchange every tick.
//!
//! What the statement demands here: a message sent to one client is obtained by that client (and only by it), a
//! broadcast by every currently connected client exactly once, a message a client sent is obtained under that
//! client's id - for the local client exactly as for the remote one, before and after the local client was
//! closed (by itself, then `disconnect_local_client`) and opened again under the same id.
//!
//! Signatures: C11/host-player/obtained-unknown-message/{local,remote,server}, C11/host-player/duplicate/..,
//! C11/host-player/disconnected/<who>/<reason>, C11/liveness/host-player/{local,remote}-{down,up},
//! C11/host-player/session-left-after-disconnect_local_client, plus C11/library-panic/.. from the run wrapper.

use crate::outcome::{Ctx, Outcome};
use crate::payload;
use crate::rng::{Fnv, Rng};
use bytes::Bytes;
use renet::{ChannelConfig, ConnectionConfig, RenetClient, RenetServer, SendType};
use serde_json::json;
use std::collections::HashMap;
use std::time::Duration;

#[derive(Clone, Copy, PartialEq, Eq, Debug)]
enum K {
    U,
    RU,
    RO,
}

fn chan(id: u8, k: K, resend_ms: u64) -> ChannelConfig {
    ChannelConfig {
        channel_id: id,
        max_memory_usage_bytes: 1024 * 1024,
        send_type: match k {
            K::U => SendType::Unreliable,
            K::RU => SendType::ReliableUnordered { resend_time: Duration::from_millis(resend_ms) },
            K::RO => SendType::ReliableOrdered { resend_time: Duration::from_millis(resend_ms) },
        },
    }
}

/// One direction of one client: what was submitted, what was obtained.
#[derive(Default)]
struct Stream {
    subs: Vec<Vec<u8>>,
    got: Vec<usize>, // indices into subs, in the order obtained
}

struct Who {
    name: &'static str,
    id: u64,
    down: HashMap<u8, Stream>, // server -> this client, per server channel
    up: HashMap<u8, Stream>,   // this client -> server, per client channel
}

pub fn host_run(ctx: &Ctx, out: &mut Outcome, run_seed: u64, r: &mut Rng) {
    // channel lists: different ids and kinds per direction, sometimes one id with two kinds
    let resend = *r.pick(&[0u64, 50, 300]);
    let kinds = [K::U, K::RU, K::RO];
    let mut down_list: Vec<(u8, K)> = Vec::new();
    let mut up_list: Vec<(u8, K)> = Vec::new();
    let symmetric = r.chance(1, 4);
    for (i, k) in kinds.iter().enumerate() {
        down_list.push((10 + i as u8 * 3 + r.below(3) as u8, *k));
    }
    if symmetric {
        up_list = down_list.clone();
    } else {
        match r.below(3) {
            // disjoint ids
            0 => {
                for (i, k) in kinds.iter().enumerate() {
                    up_list.push((40 + i as u8, *k));
                }
            }
            // the same ids, kinds rotated
            1 => {
                for (i, (id, _)) in down_list.iter().enumerate() {
                    up_list.push((*id, kinds[(i + 1) % 3]));
                }
            }
            // fewer channels upstream
            _ => {
                up_list.push((down_list[0].0, K::RO));
                up_list.push((77, K::U));
            }
        }
    }
    let cfg = ConnectionConfig {
        available_bytes_per_tick: 60_000,
        server_channels_config: down_list.iter().map(|(id, k)| chan(*id, *k, resend)).collect(),
        client_channels_config: up_list.iter().map(|(id, k)| chan(*id, *k, resend)).collect(),
    };
    let mut server = RenetServer::new(cfg.clone());
    let (id_remote, id_local) = (7001u64, 7002u64);
    let mut remote = RenetClient::new(cfg.clone());
    remote.set_connected();
    server.add_connection(id_remote);
    let mut local = server.new_local_client(id_local);
    let mut whos = [
        Who { name: "remote", id: id_remote, down: HashMap::new(), up: HashMap::new() },
        Who { name: "local", id: id_local, down: HashMap::new(), up: HashMap::new() },
    ];
    let tag = r.next_u64();
    let dt = Duration::from_millis(*r.pick(&[16u64, 50, 100]));
    let mut hist: Vec<String> = vec![format!("server->client channels {:?}, client->server channels {:?}, resend {} ms", down_list, up_list, resend)];
    let mut fp = Fnv::new();
    fp.u64(symmetric as u64);
    let mut generation = 0u8;
    let reopen_at = if r.chance(2, 3) { Some(r.range(20, 60)) } else { None };
    let ticks = 120u64;
    let send_until = 90u64;
    let mut stop = false;

    macro_rules! fail {
        ($sig:expr, $clause:expr, $detail:expr) => {{
            out.violation(
                ctx,
                &$sig,
                $clause,
                $detail,
                json!({"property": "C11", "engine": ctx.engine, "run_seed": format!("{:#x}", run_seed), "mode": "host-player", "history": hist}),
            );
            stop = true;
        }};
    }

    for tick in 0..ticks {
        if stop {
            break;
        }
        server.update(dt);
        remote.update(dt);
        local.update(dt);
        // ---- the local client is closed by its own application, then by the host, and opened again -------------
        if Some(tick) == reopen_at {
            local.disconnect();
            let _ = server.process_local_client(id_local, &mut local);
            server.disconnect_local_client(id_local, &mut local);
            hist.push(format!("tick {tick}: local.disconnect(); process_local_client; disconnect_local_client({id_local})"));
            out.count("host.local_client_closed_by_itself");
            if server.is_connected(id_local) {
                fail!(
                    "C11/host-player/session-left-after-disconnect_local_client".to_string(),
                    "disconnection of one client never delays, drops or corrupts traffic of other clients (a closed local client's session must end)",
                    format!("after local.disconnect() and disconnect_local_client({id_local}) the server still reports the id connected")
                );
                break;
            }
            generation += 1;
            local = server.new_local_client(id_local);
            whos[1].down.clear();
            whos[1].up.clear();
            hist.push(format!("tick {tick}: new_local_client({id_local}) again (generation {generation})"));
            out.count("host.local_client_reopened_same_id");
        }
        // ---- submissions ----------------------------------------------------------------------------------------
        if tick < send_until {
            // broadcast
            if r.chance(1, 2) {
                let (ch, _) = *r.pick(&down_list);
                let len = *r.pick(&[0usize, 1, 30, 200, 1200, 1201, 5000]);
                // one payload per target so that every ledger has its own identity; same length
                // (a broadcast hands the same bytes to everyone; the header carries no target, so build once)
                let idx = whos[0].down.entry(ch).or_default().subs.len().max(whos[1].down.entry(ch).or_default().subs.len()) as u64;
                let b = payload::make(9, 1, ch, generation, 1_000_000 + tick * 16 + idx, len.max(24), tag);
                for w in whos.iter_mut() {
                    if server.is_connected(w.id) {
                        w.down.entry(ch).or_default().subs.push(b.clone());
                    }
                }
                server.broadcast_message(ch, Bytes::from(b));
                out.count("host.broadcasts");
            }
            for wi in 0..2 {
                let id = whos[wi].id;
                if r.chance(1, 2) && server.is_connected(id) {
                    let (ch, _) = *r.pick(&down_list);
                    let len = *r.pick(&[24usize, 30, 200, 1200, 1201, 3000]);
                    let s = whos[wi].down.entry(ch).or_default();
                    let b = payload::make(wi as u8, 1, ch, generation, s.subs.len() as u64, len, tag);
                    s.subs.push(b.clone());
                    server.send_message(id, ch, Bytes::from(b));
                }
                if r.chance(1, 2) {
                    let (ch, _) = *r.pick(&up_list);
                    let len = *r.pick(&[24usize, 30, 200, 1200, 1201, 3000]);
                    let s = whos[wi].up.entry(ch).or_default();
                    let b = payload::make(wi as u8, 0, ch, generation, s.subs.len() as u64, len, tag);
                    s.subs.push(b.clone());
                    if wi == 0 {
                        remote.send_message(ch, Bytes::from(b));
                    } else {
                        local.send_message(ch, Bytes::from(b));
                    }
                    out.count("host.client_submissions");
                }
            }
        }
        // ---- exchange (lossless): the remote client by hand, the local one through the library ----------------
        if let Ok(pk) = server.get_packets_to_send(id_remote) {
            for p in pk {
                remote.process_packet(&p);
            }
        }
        for p in remote.get_packets_to_send() {
            let _ = server.process_packet_from(&p, id_remote);
        }
        let _ = server.process_local_client(id_local, &mut local);
        // ---- nobody asked anybody to leave ------------------------------------------------------------------------
        for (name, reason) in [
            ("remote-client", remote.disconnect_reason()),
            ("local-client", local.disconnect_reason()),
            ("server-side-of-remote", server.verif_connection(id_remote).and_then(|c| c.disconnect_reason())),
            ("server-side-of-local", server.verif_connection(id_local).and_then(|c| c.disconnect_reason())),
        ] {
            if let Some(reason) = reason {
                let class = format!("{:?}", reason).split(|c: char| !c.is_alphanumeric()).next().unwrap_or("?").to_string();
                hist.push(format!("tick {tick}: {name} disconnected: {:?}", reason));
                fail!(
                    format!("C11/host-player/disconnected/{name}/{class}"),
                    "a message sent to one client is obtained by that client; a broadcast by every currently connected client",
                    format!("{name} is disconnected with {:?} although only its own peer's packets were exchanged, losslessly", reason)
                );
                break;
            }
        }
        if stop {
            break;
        }
        // ---- drain and judge --------------------------------------------------------------------------------------
        for wi in 0..2 {
            let id = whos[wi].id;
            for (ch, kind) in down_list.iter() {
                loop {
                    let m = if wi == 0 { remote.receive_message(*ch) } else { local.receive_message(*ch) };
                    let Some(m) = m else { break };
                    out.count("host.obtained_by_clients");
                    out.eval(crate::rng::mix(&[run_seed, 0xD0, wi as u64, crate::rng::fnv1a(&m)]), true);
                    let s = whos[wi].down.entry(*ch).or_default();
                    let pos = (0..s.subs.len()).find(|i| s.subs[*i][..] == m[..] && !(*kind != K::U && s.got.contains(i)));
                    match pos {
                        None => {
                            let dup = s.subs.iter().any(|x| x[..] == m[..]);
                            let name = whos[wi].name;
                            fail!(
                                format!("C11/host-player/{}/{}", if dup { "duplicate" } else { "obtained-unknown-message" }, name),
                                "a message sent to one client is obtained only by that client, a broadcast exactly once",
                                format!("{name} client obtained on channel {ch} a {}-byte message that {}", m.len(), if dup { "it had already obtained" } else { "was never addressed to it on that channel" })
                            );
                            break;
                        }
                        Some(i) => {
                            if *kind == K::RO && s.got.last().is_some_and(|l| *l > i) {
                                let name = whos[wi].name;
                                fail!(format!("C11/host-player/out-of-order/{name}"), "ordered channels stay ordered per client", format!("{name} client obtained message #{i} of ordered channel {ch} after #{:?}", s.got.last()));
                                break;
                            }
                            s.got.push(i);
                        }
                    }
                }
            }
            for (ch, kind) in up_list.iter() {
                while let Some(m) = server.receive_message(id, *ch) {
                    out.count("host.obtained_by_server");
                    let s = whos[wi].up.entry(*ch).or_default();
                    let pos = (0..s.subs.len()).find(|i| s.subs[*i][..] == m[..] && !(*kind != K::U && s.got.contains(i)));
                    match pos {
                        None => {
                            let name = whos[wi].name;
                            fail!(
                                format!("C11/host-player/obtained-unknown-message/server-under-{name}"),
                                "a message a client sent is obtained only under that client's id",
                                format!("the server obtained under the {name} client's id, channel {ch}, a {}-byte message that client never sent there (or had already delivered)", m.len())
                            );
                            break;
                        }
                        Some(i) => s.got.push(i),
                    }
                }
            }
        }
    }
    if stop {
        return;
    }
    // ---- everything reliable has arrived (lossless exchange, 30 quiet ticks) --------------------------------------
    for w in whos.iter() {
        for (dir, list, streams) in [("down", &down_list, &w.down), ("up", &up_list, &w.up)] {
            for (ch, kind) in list.iter() {
                if *kind == K::U {
                    continue;
                }
                let Some(s) = streams.get(ch) else { continue };
                out.count("host.liveness_checked");
                if s.got.len() != s.subs.len() {
                    let missing = (0..s.subs.len()).find(|i| !s.got.contains(i)).unwrap_or(0);
                    hist.push(format!("end: {} {} ch {}: {} of {} obtained, first missing #{}", w.name, dir, ch, s.got.len(), s.subs.len(), missing));
                    out.violation(
                        ctx,
                        &format!("C11/liveness/host-player/{}-{}", w.name, dir),
                        "a message sent to one client is obtained by that client, a broadcast by every currently connected client, a client's message under that client's id",
                        format!("{} client, direction {}, reliable channel {}: {} of {} messages obtained after 30 lossless quiet ticks (first missing #{})", w.name, dir, ch, s.got.len(), s.subs.len(), missing),
                        json!({"property": "C11", "engine": ctx.engine, "run_seed": format!("{:#x}", run_seed), "mode": "host-player", "history": hist}),
                    );
                    return;
                }
            }
        }
    }
    out.count("host.runs");
    if !symmetric {
        out.count("host.runs_asymmetric_channel_lists");
    }
    fp.u64(whos[1].down.values().map(|s| s.got.len() as u64).sum());
    fp.u64(whos[1].up.values().map(|s| s.got.len() as u64).sum());
    out.eval(fp.finish() ^ run_seed, true);
    if out.samples.len() < out.max_samples && r.chance(1, 20) {
        out.sample(json!({"mode": "host-player", "run_seed": format!("{:#x}", run_seed), "down": format!("{:?}", down_list), "up": format!("{:?}", up_list), "reopened": reopen_at.is_some()}));
    }
}
