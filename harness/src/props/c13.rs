//! C13 every produced packet fits its carrier: renet <= 1300 B and serialization never fails;
//! netcode datagrams <= 1400 B.

use crate::link::{LinkCfg, Profile, ALL_RANDOM_PROFILES};
use crate::nsim::{self, OPacket};
use crate::oracles::SizeMonitor;
use crate::outcome::{Ctx, Outcome, PropInfo};
use crate::payload;
use crate::rng::{Fnv, Rng};
use crate::rsim::{CfgGen, ChanSpec, Kind, Monitor, SimCfg};
use crate::traffic::{self, CoverageMonitor, Plan};
use bytes::Bytes;
use renet::verif::Packet;
use renet::{DisconnectReason, RenetClient};
use serde_json::json;
use std::time::Duration;

pub static INFO: PropInfo = PropInfo {
    id: "C13",
    level: "exploration",
    rule: "three kinds of evaluation. (A) sender stress: a fresh RenetClient whose packet-sequence and message-id counters are seeded (hook) to magnitudes {0, 63, 64, 16383, 16384, 2^30-1, 2^30, 2^62-1000}, 1-3 messages of lengths 1180..1201 (and random others) per tick on random channels, while crafted valid packets with chosen sequence numbers (ascending / descending / random with gaps needing 1/2/4/8-byte varints) are fed through process_packet so that 1..>64 pending ack ranges exist; every get_packets_to_send element must be <= 1300 bytes and the endpoint must never disconnect with PacketSerialization. (B) full simulated sessions (as C01) including the scripted hold-and-release-in-descending-order link, same monitor. (C) netcode: every datagram produced by generate_payload_packet for payloads 0..1300 at session-sequence magnitudes up to 2^64-1 (crate encoder through the hook) and every handshake / keep-alive / disconnect / denied datagram of honest sessions must be <= 1400 bytes, a 1300-byte payload must never be refused, and the largest datagram under a sequence number of every width must be opened again by the crate's decoder (what may be produced has to be carried). (D) the carrier itself, one run in 50: a hand-driven netcode client against a real NetcodeServerTransport, or a hand-driven netcode server against a real NetcodeClientTransport, over loopback UDP sockets; payloads of 1228..1300 bytes that are valid message-layer packets are pushed through the socket and must come out of the message layer on the other side. Non-trivial = the execution produced at least one packet longer than 1200 bytes or an ack packet with >= 8 ranges; distinct = distinct fingerprints of (sizes, range counts). In a third of the stress ticks (not at the seeded magnitude just below 2^62) 30-400 tiny messages (0..100 bytes) of one channel are submitted at once, so that the aggregation has to budget the varints of ids and lengths at the seeded magnitude.",
    assumptions: &["counter magnitudes are reached by the seeding hook, not by running 2^62 ticks", "netcode sequence magnitudes are exercised through the crate's encoder (the session counter itself cannot be seeded)"],
    gates: &[
        ("carrier_runs", 5),
        ("carrier_payloads_pushed_through_the_server_transport", 10),
        ("carrier_payloads_pushed_through_the_client_transport", 10),
        ("incoming_sequence_at_format_maximum", 50),
        ("packets_measured", 5000),
        ("ack_ranges_ge_64", 5),
        ("stress_big_counters", 20),
        ("netcode_datagrams_measured", 100),
        ("packing_threshold_cases", 100),
    ],
    engines_quick: &["e1"],
    engines_thorough: &["e1", "e2"],
    run,
};

pub fn run(ctx: &Ctx, out: &mut Outcome) {
    super::run_loop(ctx, out, 14_000, 300_000, 13, one_run);
}

const MAGS: &[u64] = &[0, 63, 64, 16383, 16384, (1 << 30) - 1, 1 << 30, (1 << 62) - 1000];

pub fn one_run(ctx: &Ctx, out: &mut Outcome, run_seed: u64) {
    let mut r = Rng::new(run_seed);
    match r.below(10) {
        0..=5 => stress(ctx, out, run_seed, &mut r),
        6..=8 => session(ctx, out, run_seed, &mut r),
        _ => {
            if r.chance(1, 5) {
                transport_carrier(ctx, out, run_seed, &mut r)
            } else {
                netcode(ctx, out, run_seed, &mut r)
            }
        }
    }
}

/// A message-layer packet of exactly `len` bytes that any endpoint accepts: two unreliable messages on channel 0.
fn renet_packet_of(len: usize, sequence: u64, tag: u8) -> Option<(Vec<u8>, Vec<Vec<u8>>)> {
    // type 1 | sequence 1 (< 64) | channel 1 | count 2 | (length 2 + bytes) x 2
    let a = 600usize;
    let b = len.checked_sub(9 + a)?;
    let ma: Vec<u8> = (0..a).map(|i| (i as u8) ^ tag).collect();
    let mb: Vec<u8> = (0..b).map(|i| (i as u8).wrapping_mul(3) ^ tag).collect();
    let p = Packet::SmallUnreliable { sequence: sequence % 64, channel_id: 0, messages: vec![Bytes::from(ma.clone()), Bytes::from(mb.clone())] };
    let mut buf = [0u8; 1500];
    let mut o = octets::OctetsMut::with_slice(&mut buf);
    let n = p.to_bytes(&mut o).ok()?;
    if n != len {
        return None;
    }
    Some((buf[..n].to_vec(), vec![ma, mb]))
}

/// (D) the carrier itself: the real UDP transports must carry every datagram the netcode layer may produce. A hand-driven
/// netcode client talks to a real NetcodeServerTransport (and a hand-driven netcode server to a real
/// NetcodeClientTransport) over loopback sockets and pushes payloads of up to 1300 bytes - valid message-layer packets -
/// through them; each must come out of the message layer on the other side.
fn transport_carrier(ctx: &Ctx, out: &mut Outcome, run_seed: u64, r: &mut Rng) {
    use renet::{ConnectionConfig, RenetServer};
    use renet_netcode::{ClientAuthentication, NetcodeClientTransport, NetcodeServerTransport, ServerAuthentication, ServerConfig};
    use std::net::UdpSocket;
    let bind = || -> Option<UdpSocket> {
        let s = UdpSocket::bind("127.0.0.1:0").ok()?;
        s.set_nonblocking(true).ok()?;
        Some(s)
    };
    let mut key = [0u8; 32];
    r.fill(&mut key);
    let protocol = r.next_u64();
    let cid = 1 + r.below(1 << 40);
    let dt = Duration::from_millis(20);
    let lens: Vec<usize> = {
        let mut v = vec![1228usize, 1275, 1276, 1283, 1290, 1299, 1300];
        v.push(r.urange(1229, 1300));
        v
    };
    let mut buf = [0u8; 2048];
    let to_server = r.chance(1, 2);
    let fail = |out: &mut Outcome, what: &str, detail: String| {
        out.violation(
            ctx,
            &format!("C13/netcode-datagram-not-carried/{}", what),
            "a datagram of a legal size (payload <= 1300, datagram <= 1400 bytes) is carried by the transports",
            detail,
            json!({"property": "C13", "engine": ctx.engine, "run_seed": format!("{:#x}", run_seed), "mode": "transport-carrier", "direction": what}),
        );
    };
    if to_server {
        let (Some(ssock), Some(csock)) = (bind(), bind()) else { return out.inconclusive("C13 carrier: cannot bind loopback sockets") };
        let (saddr, caddr) = (ssock.local_addr().unwrap(), csock.local_addr().unwrap());
        let cfg = ServerConfig { current_time: Duration::ZERO, max_clients: 2, protocol_id: protocol, public_addresses: vec![saddr], authentication: ServerAuthentication::Secure { private_key: key } };
        let Ok(mut st) = NetcodeServerTransport::new(cfg, ssock) else { return out.inconclusive("C13 carrier: server transport") };
        let mut server = RenetServer::new(ConnectionConfig::default());
        let m = nsim::mint(r, 0, protocol, 600, cid, 15, &[saddr], None, &key);
        let Ok(mut cli) = nsim::Cli::new(Duration::ZERO, m, caddr) else { return out.inconclusive("C13 carrier: client") };
        for _ in 0..200 {
            if let Some((b, to)) = cli.update(dt) {
                let _ = csock.send_to(&b, to);
            }
            server.update(dt);
            let _ = st.update(dt, &mut server);
            st.send_packets(&mut server);
            while let Ok((n, _)) = csock.recv_from(&mut buf) {
                cli.process(&buf[..n]);
            }
            if cli.c.is_connected() && server.is_connected(cid) {
                break;
            }
        }
        if !(cli.c.is_connected() && server.is_connected(cid)) {
            return out.inconclusive("C13 carrier: loopback handshake did not complete");
        }
        while server.get_event().is_some() {}
        for (k, len) in lens.iter().enumerate() {
            let Some((pkt, msgs)) = renet_packet_of(*len, k as u64, k as u8) else { continue };
            let Ok((to, d)) = cli.payload(&pkt) else {
                fail(out, "client-refused", format!("generate_payload_packet({} bytes) failed", len));
                return;
            };
            out.max("carrier_datagram_len", d.len() as u64);
            let _ = csock.send_to(&d, to);
            server.update(dt);
            let _ = st.update(dt, &mut server);
            let mut got: Vec<Vec<u8>> = Vec::new();
            while let Some(m) = server.receive_message(cid, 0) {
                got.push(m.to_vec());
            }
            out.count("carrier_payloads_pushed_through_the_server_transport");
            if got != msgs {
                fail(out, "server-transport", format!("a {}-byte payload ({}-byte datagram) sent to the server transport did not come out of the message layer (obtained {} messages, connected {}, reason {:?})", len, d.len(), got.len(), server.is_connected(cid), server.disconnect_reason(cid)));
                return;
            }
            st.send_packets(&mut server);
            while let Ok((n, _)) = csock.recv_from(&mut buf) {
                cli.process(&buf[..n]);
            }
        }
    } else {
        let (Some(ssock), Some(csock)) = (bind(), bind()) else { return out.inconclusive("C13 carrier: cannot bind loopback sockets") };
        let (saddr, caddr) = (ssock.local_addr().unwrap(), csock.local_addr().unwrap());
        let mut srv = nsim::Srv::new(Duration::ZERO, 2, protocol, vec![saddr], key, true);
        let m = nsim::mint(r, 0, protocol, 600, cid, 15, &[saddr], None, &key);
        let Ok(mut ct) = NetcodeClientTransport::new(Duration::ZERO, ClientAuthentication::Secure { connect_token: m.token }, csock) else { return out.inconclusive("C13 carrier: client transport") };
        let mut client = RenetClient::new(ConnectionConfig::default());
        for _ in 0..200 {
            client.update(dt);
            let _ = ct.update(dt, &mut client);
            let _ = ct.send_packets(&mut client);
            srv.update(dt);
            while let Ok((n, from)) = ssock.recv_from(&mut buf) {
                if let Some((to, b)) = srv.process(from, &buf[..n]).outgoing() {
                    let _ = ssock.send_to(b, to);
                }
            }
            for id in srv.s.clients_id() {
                if let Some((to, b)) = srv.update_client(id).outgoing() {
                    let _ = ssock.send_to(b, to);
                }
            }
            if client.is_connected() && srv.s.is_client_connected(cid) {
                break;
            }
        }
        if !(client.is_connected() && srv.s.is_client_connected(cid)) {
            return out.inconclusive("C13 carrier: loopback handshake did not complete");
        }
        let _ = caddr;
        for (k, len) in lens.iter().enumerate() {
            let Some((pkt, msgs)) = renet_packet_of(*len, k as u64, k as u8) else { continue };
            let Ok((to, d)) = srv.payload_for(cid, &pkt) else {
                fail(out, "server-refused", format!("generate_payload_packet({} bytes) failed", len));
                return;
            };
            out.max("carrier_datagram_len", d.len() as u64);
            let _ = ssock.send_to(&d, to);
            client.update(dt);
            let _ = ct.update(dt, &mut client);
            let mut got: Vec<Vec<u8>> = Vec::new();
            while let Some(m) = client.receive_message(0) {
                got.push(m.to_vec());
            }
            out.count("carrier_payloads_pushed_through_the_client_transport");
            if got != msgs {
                fail(out, "client-transport", format!("a {}-byte payload ({}-byte datagram) sent to the client transport did not come out of the message layer (obtained {} messages, connected {}, reason {:?})", len, d.len(), got.len(), client.is_connected(), client.disconnect_reason()));
                return;
            }
            let _ = ct.send_packets(&mut client);
            srv.update(dt);
            while let Ok((n, from)) = ssock.recv_from(&mut buf) {
                let _ = srv.process(from, &buf[..n]);
            }
        }
    }
    out.count("carrier_runs");
    out.eval(crate::rng::mix(&[0xCA44, run_seed, to_server as u64]), true);
}

fn check_packets(ctx: &Ctx, out: &mut Outcome, c: &RenetClient, pkts: &[Vec<u8>], fp: &mut Fnv, big: &mut bool, history: &dyn Fn() -> serde_json::Value, run_seed: u64) {
    for p in pkts {
        out.count("packets_measured");
        out.max("packet_len", p.len() as u64);
        fp.u64(p.len() as u64);
        if p.len() > 1200 {
            *big = true;
        }
        if let Some(Packet::Ack { ack_ranges, .. }) = crate::rsim::decode(p) {
            out.max("ack_ranges", ack_ranges.len() as u64);
            fp.u64(ack_ranges.len() as u64);
            if ack_ranges.len() >= 8 {
                *big = true;
            }
            if ack_ranges.len() >= 64 {
                out.count("ack_ranges_ge_64");
            }
        }
        if p.len() > 1300 {
            out.violation(
                ctx,
                "C13/renet-packet>1300",
                "packet <= 1300 bytes",
                format!("get_packets_to_send returned a packet of {} bytes", p.len()),
                json!({"property": "C13", "engine": ctx.engine, "run_seed": format!("{:#x}", run_seed), "mode": "stress", "len": p.len(), "history": history()}),
            );
        }
    }
    if let Some(DisconnectReason::PacketSerialization(e)) = c.disconnect_reason() {
        out.violation(
            ctx,
            &format!("C13/serialization-failed/{:?}", e),
            "serialization never fails",
            format!("endpoint disconnected with PacketSerialization({:?})", e),
            json!({"property": "C13", "engine": ctx.engine, "run_seed": format!("{:#x}", run_seed), "mode": "stress", "history": history()}),
        );
    }
}

/// (A) sender stress on a standalone endpoint.
fn stress(ctx: &Ctx, out: &mut Outcome, run_seed: u64, r: &mut Rng) {
    let mut chans = vec![
        ChanSpec { id: 0, kind: Kind::Unreliable, resend_ms: 0, max_mem: 1 << 20 },
        ChanSpec { id: 1, kind: Kind::ReliableUnordered, resend_ms: *r.pick(&[0u64, 100, 300]), max_mem: 1 << 20 },
        ChanSpec { id: 2, kind: Kind::ReliableOrdered, resend_ms: *r.pick(&[0u64, 100, 300]), max_mem: 1 << 20 },
    ];
    r.shuffle(&mut chans);
    let cfg = SimCfg {
        n_clients: 1,
        up: chans.clone(),
        down: chans.clone(),
        bytes_per_tick: *r.pick(&[1200u64, 2500, 60_000, 1_000_000]),
        dt: crate::rsim::DtMode::Fixed(16),
        drain: crate::rsim::DrainMode::EveryTick,
        link_up: vec![LinkCfg::clean()],
        link_down: vec![LinkCfg::clean()],
        shuffle_phases: false,
        skip_send_pct: 0,
        library_default: false,
    };
    let mut c = RenetClient::new(cfg.connection_config());
    c.set_connected();
    let seq_mag = *r.pick(MAGS);
    let id_mag = *r.pick(MAGS);
    c.verif_seed_counters(seq_mag, id_mag);
    if seq_mag >= 16384 || id_mag >= 16384 {
        out.count("stress_big_counters");
    }
    let mut fp = Fnv::new();
    fp.u64(seq_mag);
    fp.u64(id_mag);
    let mut big = false;
    let mut hist: Vec<String> = vec![format!("seed_counters(seq={}, msg_id={})", seq_mag, id_mag)];

    // incoming sequence pattern for pending acks
    let pattern = r.below(5);
    let gap = *r.pick(&[2u64, 3, 70, 20_000, 1 << 31, 1 << 40]);
    let n_in = *r.pick(&[0u64, 1, 2, 63, 64, 65, 100, 300, 2100]);
    let base: u64 = match r.below(3) {
        0 => 0,
        1 => 1 << 20,
        _ => (1 << 61) + r.below(1 << 20),
    };
    let mut incoming: Vec<u64> = (0..n_in).map(|i| base.saturating_add(i.saturating_mul(gap)).min((1 << 62) - 1)).collect();
    // the largest sequence number the packet format can carry, and its neighbours
    if r.chance(1, 5) {
        let top = (1u64 << 62) - 1;
        for s in [top, top - 1, top - 3] {
            if r.chance(2, 3) && !incoming.contains(&s) {
                incoming.push(s);
            }
        }
        out.count("incoming_sequence_at_format_maximum");
    }
    match pattern {
        0 => {}
        1 => incoming.reverse(),
        2 => r.shuffle(&mut incoming),
        3 => {
            // descending pairs
            incoming.reverse();
            for ch in incoming.chunks_mut(2) {
                ch.reverse();
            }
        }
        _ => {
            // contiguous run then descending sparse
            let k = incoming.len() / 2;
            for (i, s) in incoming.iter_mut().enumerate().take(k) {
                *s = base + i as u64;
            }
            incoming[k..].reverse();
        }
    }
    hist.push(format!("incoming pattern {} n {} gap {} base {}", pattern, n_in, gap, base));
    let ticks = r.range(2, 12);
    let per_tick = (incoming.len() as u64).div_ceil(ticks.max(1)) as usize;
    let mut it = incoming.into_iter();
    let tag = r.next_u64();
    let mut idx = 0u64;
    let mut tiny = Rng::new(run_seed ^ 0x71_4E59);
    for _t in 0..ticks {
        // many tiny messages in one tick (own random stream): the aggregation has to budget the varints of every
        // message id and length, whatever their width at the seeded counter magnitude
        // (not at the seeded magnitude just below 2^62: a few hundred more ids would leave what a varint can carry -
        // 2^62 messages on one channel are out of any session's reach, the seeding is what brings the counter there)
        if tiny.chance(1, 3) && id_mag < (1 << 61) {
            let ch = tiny.pick(&chans).id;
            let top = *tiny.pick(&[0usize, 1, 30, 60, 100]);
            for _ in 0..tiny.range(30, 400) {
                let len = tiny.urange(0, top);
                if c.can_send_message(ch, len) {
                    c.send_message(ch, Bytes::from(payload::make(0, 0, ch, 0, idx, len, tag)));
                    idx += 1;
                }
            }
            out.count("stress_ticks_with_many_tiny_messages");
            hist.push(format!("send ch{} many tiny messages (0..={} bytes)", ch, top));
        }
        // submissions around the packing threshold
        let n = r.range(1, 3);
        for _ in 0..n {
            let ch = r.pick(&chans).id;
            let len = match r.below(4) {
                0 => payload::pick_len(r, 4000, false),
                _ => r.urange(1180, 1201),
            };
            out.count("packing_threshold_cases");
            if c.can_send_message(ch, len) {
                c.send_message(ch, Bytes::from(payload::make(0, 0, ch, 0, idx, len, tag)));
                hist.push(format!("send ch{} len{}", ch, len));
                idx += 1;
            }
        }
        // incoming packets (valid, empty unreliable packets: only their sequence matters)
        let mut buf = [0u8; 64];
        for _ in 0..per_tick {
            let Some(seq) = it.next() else { break };
            let p = Packet::SmallUnreliable { sequence: seq, channel_id: 0, messages: vec![] };
            let mut o = octets::OctetsMut::with_slice(&mut buf);
            if let Ok(n) = p.to_bytes(&mut o) {
                c.process_packet(&buf[..n]);
            }
        }
        c.update(Duration::from_millis(16));
        let pkts = c.get_packets_to_send();
        let h = hist.clone();
        check_packets(ctx, out, &c, &pkts, &mut fp, &mut big, &move || json!(h), run_seed);
        if c.is_disconnected() {
            break;
        }
    }
    out.count("stress_runs");
    out.eval(fp.finish(), big);
    if big {
        out.sample(json!({"mode": "stress", "run_seed": format!("{:#x}", run_seed), "history": hist.iter().take(12).collect::<Vec<_>>()}));
    }
}

/// (B) full sessions with the size monitor deciding.
fn session(ctx: &Ctx, out: &mut Outcome, run_seed: u64, r: &mut Rng) {
    let mut profiles = ALL_RANDOM_PROFILES.to_vec();
    // weight the descending-arrival script
    profiles.extend_from_slice(&[Profile::HoldReverse, Profile::HoldReverse, Profile::ReorderHeavy]);
    let gen = CfgGen { max_clients: 2, small_budgets: r.chance(1, 2), min_bytes_per_tick: 1200, profiles };
    let cfg = gen.gen(r);
    let plan = Plan {
        fault_ticks: r.range(10, 120),
        rate_x100: *r.pick(&[100u64, 250, 600]),
        max_msgs: r.range(50, 600),
        kinds: vec![Kind::ReliableOrdered, Kind::ReliableUnordered, Kind::Unreliable],
        allow_large: false,
        tail_ticks: 5,
        liveness: false,
        flood: false,
        max_len: 6000,
        overload: false,
    };
    let mut mons: Vec<Box<dyn Monitor>> = vec![Box::new(SizeMonitor { prop: "C13" }), Box::new(CoverageMonitor::new())];
    let before = out.get("max.ack_ranges");
    let (s, sim) = traffic::run(ctx, out, cfg, &plan, run_seed, &mut mons);
    let _ = before;
    out.count("session_runs");
    if out.get("max.ack_ranges") >= 64 {
        out.count("ack_ranges_ge_64");
    }
    out.eval(s.fingerprint, s.max_pkt_len > 1200);
    if s.max_pkt_len > 1200 {
        out.sample(traffic::sample_value(&sim, &s));
    }
}

/// (C) netcode datagram sizes.
fn netcode(ctx: &Ctx, out: &mut Outcome, run_seed: u64, r: &mut Rng) {
    let mut fp = Fnv::new();
    let key = {
        let mut k = [0u8; 32];
        r.fill(&mut k);
        k
    };
    let protocol = r.next_u64();
    let saddr = nsim::addr4(0, 1, 5000);
    let caddr = if r.chance(1, 2) { nsim::addr4(1, 1, 40000) } else { nsim::addr6(7, 40001) };
    let mut srv = nsim::Srv::new(Duration::ZERO, 4, protocol, vec![saddr], key, true);
    let n_addrs = r.urange(1, 32);
    let mut addrs = vec![saddr];
    for i in 1..n_addrs {
        addrs.push(if r.chance(1, 2) { nsim::addr4(9, i as u8, 7000) } else { nsim::addr6(i as u16, 7000) });
    }
    let cid = r.next_u64();
    let m = nsim::mint(r, 0, protocol, 60, cid, 15, &addrs, None, &key);
    let mut cli = match nsim::Cli::new(Duration::ZERO, m.clone(), caddr) {
        Ok(c) => c,
        Err(e) => {
            out.inconclusive(&format!("C13 netcode: client creation failed: {e}"));
            return;
        }
    };
    let measure = |out: &mut Outcome, what: &str, len: usize, fp: &mut Fnv| {
        out.count("netcode_datagrams_measured");
        out.max("netcode_datagram_len", len as u64);
        fp.u64(len as u64);
        if len > 1400 {
            out.violation(
                ctx,
                &format!("C13/netcode-datagram>1400/{}", what),
                "netcode datagram <= 1400 bytes",
                format!("{} datagram of {} bytes", what, len),
                json!({"property": "C13", "engine": ctx.engine, "run_seed": format!("{:#x}", run_seed), "mode": "netcode", "what": what, "len": len}),
            );
        }
    };
    match nsim::handshake(&mut srv, &mut cli, Duration::from_millis(100), 50) {
        Ok(wire) => {
            for (from_client, b) in wire.iter() {
                measure(out, if *from_client { "client-handshake" } else { "server-handshake" }, b.len(), &mut fp);
            }
        }
        Err(e) => {
            out.inconclusive(&format!("C13 netcode: honest handshake failed: {e}"));
            return;
        }
    }
    let id = m.token.client_id;
    // payloads of every interesting size, both directions, through the real session
    for len in [0usize, 1, 1199, 1200, 1299, 1300] {
        let p = r.bytes(len);
        match srv.payload_for(id, &p) {
            Ok((_, d)) => measure(out, "server-payload", d.len(), &mut fp),
            Err(e) => {
                out.violation(
                    ctx,
                    "C13/netcode-payload-refused/server",
                    "a payload of at most 1300 bytes is never refused",
                    format!("generate_payload_packet({} bytes) failed: {}", len, e),
                    json!({"property": "C13", "engine": ctx.engine, "run_seed": format!("{:#x}", run_seed), "mode": "netcode", "len": len}),
                );
            }
        }
        match cli.payload(&p) {
            Ok((_, d)) => measure(out, "client-payload", d.len(), &mut fp),
            Err(e) => {
                out.violation(
                    ctx,
                    "C13/netcode-payload-refused/client",
                    "a payload of at most 1300 bytes is never refused",
                    format!("generate_payload_packet({} bytes) failed: {}", len, e),
                    json!({"property": "C13", "engine": ctx.engine, "run_seed": format!("{:#x}", run_seed), "mode": "netcode", "len": len}),
                );
            }
        }
    }
    // keep-alives and disconnects
    for _ in 0..6 {
        srv.update(Duration::from_millis(300));
        if let Some((b, _)) = cli.update(Duration::from_millis(300)) {
            measure(out, "client-keepalive", b.len(), &mut fp);
            srv.process(caddr, &b);
        }
        if let nsim::SResult::Send { bytes, .. } = srv.update_client(id) {
            measure(out, "server-keepalive", bytes.len(), &mut fp);
            cli.process(&bytes);
        }
    }
    if let Some((_, b)) = srv.disconnect(id).outgoing() {
        measure(out, "server-disconnect", b.len(), &mut fp);
    }
    if let Ok((_, b)) = cli.disconnect() {
        measure(out, "client-disconnect", b.len(), &mut fp);
    }
    // sequence magnitudes through the crate's encoder
    for seq in [0u64, 255, 256, 1 << 16, 1 << 32, 1 << 56, u64::MAX] {
        let p = OPacket::Payload(vec![7u8; 1300]);
        if let Some(b) = p.encode(protocol, Some((seq, &m.token.client_to_server_key))) {
            measure(out, "encoder-payload", b.len(), &mut fp);
            // what the sender is allowed to produce the receiver has to carry: the largest payload under a sequence
            // number of any width opens again
            out.count("netcode_max_payload_opened_by_the_receiving_decoder");
            match nsim::open(&b, protocol, Some(&m.token.client_to_server_key)) {
                Some((s2, OPacket::Payload(pl))) if s2 == seq && pl.len() == 1300 => {}
                other => {
                    out.violation(
                        ctx,
                        "C13/netcode-max-datagram-not-accepted",
                        "a datagram of a legal size (payload <= 1300, datagram <= 1400 bytes) is carried: the receiving side accepts it",
                        format!("a 1300-byte payload sealed with sequence {:#x} ({} bytes on the wire) is not opened by the crate's decoder: {:?}", seq, b.len(), other.map(|(s, p)| (s, p.name()))),
                        json!({"property": "C13", "engine": ctx.engine, "run_seed": format!("{:#x}", run_seed), "mode": "netcode", "sequence": format!("{:#x}", seq), "len": b.len()}),
                    );
                }
            }
        }
        for p in [OPacket::Disconnect, OPacket::Denied, OPacket::KeepAlive { client_index: u32::MAX, max_clients: u32::MAX }] {
            if let Some(b) = p.encode(protocol, Some((seq, &m.token.server_to_client_key))) {
                measure(out, "encoder-control", b.len(), &mut fp);
            }
        }
    }
    out.count("netcode_runs");
    out.eval(fp.finish(), true);
}
