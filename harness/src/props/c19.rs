//! C19 no traffic amplification towards addresses that have not completed a handshake.
//!
//! Signature classes:
//!   C19/reply-to-other-address/<wire type of the input>     the reply is not addressed to the source address
//!   C19/reply-not-smaller/<wire type of the input>          reply length >= input length
//!   C19/reply-to-invalid/<input class>                      a datagram carrying neither a valid connect token nor a
//!                                                           valid response was answered
//!   C19/second-datagram/<wire type>                         another datagram for that address came out of the server
//!                                                           although the address did not become connected

use super::netcode_util::*;
use crate::nsim::{self, Minted, OPacket, SResult, Srv};
use crate::outcome::{Ctx, Outcome, PropInfo};
use crate::rng::{mix, Rng};
use crate::watchdog;
use serde_json::{json, Value};
use std::collections::{HashMap, HashSet};
use std::net::SocketAddr;
use std::time::Duration;

pub static INFO: PropInfo = PropInfo {
    id: "C19",
    level: "exploration",
    rule: "one evaluation = one datagram handed to NetcodeServer::process_packet from an address that has no connected session at that moment (unknown or half-open), in a server that is empty, partly filled or full. Generators: valid requests (exact 1078 bytes, padded up to 1400, arbitrary unused prefix nibble, repeated, replayed from other addresses), truncated / bit-flipped / single-field-corrupted requests, requests with expired, foreign-key, foreign-protocol or wrong-host tokens (host lists one port or one address bit away from the server's own, or its IPv4-mapped form with another port), valid responses (built from the challenge the server issued), responses with corrupted or foreign challenge blobs, under a wrong key, from addresses without a half-open session, replayed after use, other sealed packet kinds, short and random strings; virtual time advances so that tokens expire. The harness minted every token and opens every challenge, so validity comes from its own ledger: valid token = the 1077 bytes after the prefix equal the request of a ledger token minted for this server (key, protocol, host list) and floor(server time) < expiry; valid response = opens as a Response under the client-to-server key of a ledger token and carries a (sequence, blob) pair this server instance issued. Oracle on the returned ServerResult: at most the one datagram of the result, addressed to the source, strictly shorter than the input, and none at all unless the input carried a valid token or a valid response. Non-trivial = the datagram came from an address without a connected session; distinct = (server fill state, generator, datagram hash). One run in 40 is a HISTORY-PRESSURE run instead: more than 2048 distinct valid tokens are presented (the server's used-token table holds 2048 and replaces an oldest entry), the clock advances, token T is answered at X, 1-3 further fresh tokens follow, then T's request is replayed from Y != X and must get no answer (entries strictly older than T's exist at every later insertion, so T's binding must still be there); in half of these runs the pressure comes after T instead and from more than 2048 UNAUTHENTICATED requests (correct framing, protocol id and timestamp around random bytes, each of which must get no answer): datagrams that carry no token cannot push a used token out of the server's memory. One run in 30 is a LATE-RESPONSE run: a token with 2-4 s to live is presented (in half of the runs after a 600 s token from the same address, whose half-open session it takes over), the clock passes its expiry in one or many steps, and the correctly sealed response to its genuine challenge must get no answer (a response is valid only while its token is); timely responses are the control. One run in 30 is a STALE-RESPONSE run: an address completes a handshake, the session ends within the life time of the token (NetcodeServer::disconnect, the Disconnect datagram of the client, or a time-out), and the recorded genuine response datagram arrives again from that address 1-3 times: no answer, no session, nothing sent to it at the following updates (a response is consumed by the session it establishes); a duplicate while the session is up and a fresh request afterwards are the controls.",
    assumptions: &[
        "a ServerResult carries at most one datagram; further output could only come from update_client, which is polled after a sample of the inputs",
        "a panic (C07's business) ends the run without a C19 verdict for that datagram",
    ],
    gates: &[
        ("in_scope_datagrams", 5000),
        ("reply.challenge", 300),
        ("reply.denied", 50),
        ("reply.connected-keepalive", 50),
        ("gen.valid-request", 200),
        ("gen.padded-request", 200),
        ("gen.padded-request.1400", 20),
        ("gen.repeated-request", 100),
        ("gen.readdressed-request", 50),
        ("gen.truncated-request", 200),
        ("gen.corrupted-request", 200),
        ("gen.invalid-token-request", 200),
        ("gen.expired-by-clock", 5),
        ("gen.valid-response", 50),
        ("gen.invalid-response", 200),
        ("gen.sealed-other", 100),
        ("gen.random", 200),
        ("fill.empty", 200),
        ("fill.partial", 200),
        ("fill.full", 200),
        ("noreply.invalid", 2000),
        ("noreply.token-used-from-other-address.full", 20),
        ("cross_challenge_same_id_or_user_data", 20),
        ("gen.corrupted-retry", 200),
        ("from.unknown", 1000),
        ("from.pending", 1000),
        ("history_pressure_runs", 5),
        ("history_pressure_runs_with_unauthenticated_flood", 2),
        ("late_response_after_expiry", 20),
        ("late_response_after_expiry_superseding_token", 5),
        ("stale_response_after_session_ended", 20),
    ],
    engines_quick: &["e1"],
    engines_thorough: &["e1"],
    run,
};

pub fn run(ctx: &Ctx, out: &mut Outcome) {
    super::run_loop(ctx, out, 16_000, 400_000, 19, one_run);
}

struct Ledger {
    /// tokens minted for this server (valid unless expired)
    tokens: Vec<Minted>,
    by_body: HashMap<Vec<u8>, usize>,
    /// (token_sequence, blob) pairs seen in challenges of this server instance
    issued: HashSet<(u64, Vec<u8>)>,
    /// challenges per token index (latest)
    challenge_of: HashMap<usize, (u64, Box<[u8; 300]>)>,
    /// every (sequence, blob) issued in answer to a request of the identity (client id, user data) -
    /// that is all a challenge carries; two tokens of one identity are interchangeable here
    issued_for: HashMap<(u64, u64), HashSet<(u64, Vec<u8>)>>,
}

impl Ledger {
    fn add(&mut self, m: Minted) -> usize {
        let body = request_of(&m)[1..].to_vec();
        self.tokens.push(m);
        let i = self.tokens.len() - 1;
        self.by_body.insert(body, i);
        i
    }

    fn valid_token(&self, d: &[u8], now: Duration) -> Option<usize> {
        if d.len() < REQUEST_LEN || d[0] & 0xF != 0 {
            return None;
        }
        let i = *self.by_body.get(&d[1..REQUEST_LEN])?;
        if now.as_secs() < self.tokens[i].expire {
            Some(i)
        } else {
            None
        }
    }

    /// A response is valid for a half-open address iff it opens under the client-to-server key of the
    /// token that address presented (`pending`, when the harness knows it; otherwise any ledger token)
    /// and echoes a challenge this server issued for that token's client id and user data.
    fn valid_response(&self, d: &[u8], protocol: u64, pending: Option<usize>) -> bool {
        if d.is_empty() || d[0] & 0xF != 3 {
            return false;
        }
        for (i, t) in self.tokens.iter().enumerate() {
            if pending.is_some_and(|p| p != i) {
                continue;
            }
            // hostile bytes: the crate's decoder may itself panic on them (C07), never let that unwind into the harness
            let opened = watchdog::catch(|| nsim::open(d, protocol, Some(&t.token.client_to_server_key))).ok().flatten();
            if let Some((_, OPacket::Response { token_sequence, token_data })) = opened {
                let ident = (t.token.client_id, crate::rng::fnv1a(&t.private.user_data));
                if self.issued_for.get(&ident).is_some_and(|s| s.contains(&(token_sequence, token_data.to_vec()))) {
                    return true;
                }
            }
        }
        false
    }
}

fn connected_addrs(srv: &Srv) -> Vec<SocketAddr> {
    srv.s.clients_id().into_iter().filter_map(|id| srv.s.client_addr(id)).collect()
}

struct Input {
    gen: &'static str,
    class: &'static str,
    from: SocketAddr,
    bytes: Vec<u8>,
}

/// One execution = up to ~200 datagrams; a server on which a call panicked (C07's business) is abandoned and the
/// remaining datagrams go to a freshly built one ("episode").
pub fn one_run(ctx: &Ctx, out: &mut Outcome, run_seed: u64) {
    let mut r = Rng::new(run_seed);
    if ctx.replay_mode.as_deref() == Some("history-pressure") || (ctx.replay_mode.is_none() && r.below(40) == 0) {
        return history_pressure_run(ctx, out, run_seed, &mut r);
    }
    if ctx.replay_mode.as_deref() == Some("late-response") || (ctx.replay_mode.is_none() && r.below(30) == 0) {
        return late_response_run(ctx, out, run_seed, &mut r);
    }
    if ctx.replay_mode.as_deref() == Some("stale-response") || (ctx.replay_mode.is_none() && r.below(30) == 0) {
        return stale_response_run(ctx, out, run_seed, &mut r);
    }
    let mut budget = r.urange(120, 220);
    let mut episodes = 0;
    while budget > 0 && episodes < 40 {
        episodes += 1;
        if episode(ctx, out, run_seed, &mut r, &mut budget) {
            return;
        }
    }
}

enum Ended {
    Violation,
    Done,
}

fn episode(ctx: &Ctx, out: &mut Outcome, run_seed: u64, r: &mut Rng, budget: &mut usize) -> bool {
    matches!(episode_inner(ctx, out, run_seed, r, budget), Ended::Violation)
}

fn episode_inner(ctx: &Ctx, out: &mut Outcome, run_seed: u64, rr: &mut Rng, budget: &mut usize) -> Ended {
    let mut r = Rng::new(rr.next_u64());
    let max_clients = r.urange(1, 3);
    let n_addrs = r.urange(1, 2);
    let mut srv = new_srv(&mut r, max_clients, n_addrs, false);
    let protocol = srv.protocol_id;
    let mut led = Ledger {
        tokens: Vec::new(),
        by_body: HashMap::new(),
        issued: HashSet::new(),
        challenge_of: HashMap::new(),
        issued_for: HashMap::new(),
    };
    // user data shared by several tokens of this run (a match id, say); ids are sometimes shared too
    let mut shared_ud = [0u8; 256];
    r.fill(&mut shared_ud);
    // another server instance (same key, protocol, addresses): its challenges are foreign to `srv`
    let mut other_srv = Srv::new(srv.now, 4, protocol, srv.addrs.clone(), srv.key, true);
    // fill state
    let fill = r.urange(0, max_clients);
    let mut honest = Vec::new();
    for i in 0..fill {
        let addr = client_addr(&mut r, 500 + i as u64);
        let id = 10_000 + i as u64;
        let mut c = match new_cli(&mut r, &srv, id, addr, -1, 10_000) {
            Ok(c) => c,
            Err(e) => {
                out.inconclusive(&format!("C19: client setup: {e}"));
                return Ended::Violation;
            }
        };
        if let Err(e) = connect(&mut srv, &mut c) {
            out.inconclusive(&format!("C19: honest prefill handshake failed: {e}"));
            return Ended::Violation;
        }
        honest.push(c);
    }
    let pool: Vec<SocketAddr> = (0..6).map(|i| client_addr(&mut r, 40 + 7 * i)).collect();
    let mut history: Vec<Value> = Vec::new();
    let mut last_request_from: HashMap<SocketAddr, Vec<u8>> = HashMap::new();
    let mut used_responses: Vec<(SocketAddr, Vec<u8>)> = Vec::new();
    let mut pending_tok: HashMap<SocketAddr, usize> = HashMap::new();
    // token index -> the address whose request with that token the server answered first; from then on
    // the token is "already used" and not valid from any other address (fewer than 2048 tokens per run,
    // so the server's own table never evicts)
    let mut bound_addr: HashMap<usize, SocketAddr> = HashMap::new();
    let n_ops = *budget;
    for opi in 0..n_ops {
        *budget -= 1;
        // occasionally let time pass (tokens expire, half-open entries are dropped)
        if r.chance(1, 12) {
            let dt = Duration::from_millis(*r.pick(&[10u64, 300, 1_000, 7_000, 40_000]));
            srv.update(dt);
            other_srv.update(dt);
            let ids = srv.s.clients_id();
            for id in ids {
                if let SResult::Send { addr, bytes } = srv.update_client(id) {
                    if let Some(c) = honest.iter_mut().find(|c| c.addr == addr) {
                        c.process(&bytes);
                    }
                }
            }
            for c in honest.iter_mut() {
                if let Some((b, _)) = c.update(dt) {
                    let _ = srv.process(c.addr, &b);
                }
            }
        }
        let now_s = srv.now.as_secs();
        let from = *r.pick(&pool);
        // the token whose request opened the half-open session at `from` (if there is one)
        let pend_tok: Option<usize> = if is_pending(&srv, from) { pending_tok.get(&from).copied().filter(|i| led.challenge_of.contains_key(i)) } else { None };
        let inp: Input = match r.below(100) {
            0..=13 => {
                // valid request, exact size
                let short_lived = r.chance(1, 5);
                let id = if r.chance(1, 6) { 10_000 } else { r.next_u64() >> 8 };
                let life = if short_lived { 1 + r.below(5) } else { 600 };
                let ud = if r.chance(1, 2) { Some(shared_ud) } else { None };
                let m = nsim::mint(&mut r, srv.now.as_secs(), srv.protocol_id, life, id, 15, &srv.addrs, ud, &srv.key);
                let i = led.add(m);
                Input { gen: "valid-request", class: "valid-token", from, bytes: request_of(&led.tokens[i]) }
            }
            14..=25 => {
                let id = r.next_u64() >> 8;
                let m = mint_for(&mut r, &srv, id, 15, 600);
                let i = led.add(m);
                let mut d = request_of(&led.tokens[i]);
                let target = match r.below(3) {
                    0 => MAX_DATAGRAM,
                    1 => REQUEST_LEN + 1,
                    _ => r.urange(REQUEST_LEN + 1, MAX_DATAGRAM),
                };
                let pad = r.bytes(target - d.len());
                d.extend_from_slice(&pad);
                if r.chance(1, 2) {
                    d[0] |= (r.below(16) as u8) << 4;
                }
                if d.len() == MAX_DATAGRAM {
                    out.count("gen.padded-request.1400");
                }
                Input { gen: "padded-request", class: "valid-token", from, bytes: d }
            }
            26..=33 if !led.tokens.is_empty() => {
                // a token seen before: same address again, or another address
                let i = r.usize_below(led.tokens.len());
                let d = request_of(&led.tokens[i]);
                let same = last_request_from.get(&from).map(|b| b[..] == d[1..]).unwrap_or(false);
                let class = if now_s < led.tokens[i].expire { "valid-token" } else { "expired-token" };
                if class == "expired-token" {
                    out.count("gen.expired-by-clock");
                }
                Input { gen: if same { "repeated-request" } else { "readdressed-request" }, class, from, bytes: d }
            }
            34..=37 if last_request_from.contains_key(&from) => {
                let mut d = vec![0u8];
                d.extend_from_slice(&last_request_from[&from]);
                // only a pristine request of a ledger token is corrupted: the stored datagram may itself be a corrupted
                // or foreign request, and flipping one more bit of THAT can restore a token the ledger does not know
                if r.chance(1, 2) && led.valid_token(&d, srv.now).is_some() {
                    // a corrupted RETRY of the very request this address sent before (nonce or sealed body,
                    // never the trailing 16 bytes): whatever the server remembers about the first one, this
                    // one carries no valid token
                    let i = req_off::XNONCE + r.usize_below(REQUEST_LEN - 16 - req_off::XNONCE);
                    d[i] ^= 1 << r.below(8);
                    out.count("gen.corrupted-retry");
                    let class = if led.valid_token(&d, srv.now).is_some() { "valid-token" } else { "corrupted-retry" };
                    Input { gen: "corrupted-retry", class, from, bytes: d }
                } else {
                    let class = if led.valid_token(&d, srv.now).is_some() { "valid-token" } else { "repeated-invalid-request" };
                    Input { gen: "repeated-request", class, from, bytes: d }
                }
            }
            38..=45 => {
                let id = r.next_u64();
                let m = mint_for(&mut r, &srv, id, 15, 600);
                let mut d = request_of(&m);
                let cut = match r.below(3) {
                    0 => REQUEST_LEN - 1,
                    1 => r.usize_below(REQUEST_LEN),
                    _ => *r.pick(&[0usize, 1, 17, 18, 19, 54, 1077]),
                };
                d.truncate(cut);
                Input { gen: "truncated-request", class: "truncated-request", from, bytes: d }
            }
            46..=54 => {
                let id = r.next_u64();
                let m = mint_for(&mut r, &srv, id, 15, 600);
                let mut d = request_of(&m);
                match r.below(6) {
                    0 => d[req_off::VERSION + r.usize_below(13)] ^= 1 << r.below(8),
                    1 => d[req_off::PROTOCOL + r.usize_below(8)] ^= 1 << r.below(8),
                    2 => d[req_off::EXPIRE + r.usize_below(8)] ^= 1 << r.below(8),
                    3 => d[req_off::XNONCE + r.usize_below(24)] ^= 1 << r.below(8),
                    4 => d[req_off::DATA + r.usize_below(1024)] ^= 1 << r.below(8),
                    _ => {
                        let b = 8 + r.usize_below(8 * (REQUEST_LEN - 1));
                        flip_bit(&mut d, b);
                    }
                }
                if r.chance(1, 3) {
                    let n = r.usize_below(MAX_DATAGRAM - REQUEST_LEN + 1);
                    let pad = r.bytes(n);
                    d.extend_from_slice(&pad);
                }
                Input { gen: "corrupted-request", class: "corrupted-request", from, bytes: d }
            }
            55..=63 => {
                let id = r.next_u64();
                let (m, class) = match r.below(4) {
                    0 => {
                        let e = 10 + r.below(80);
                        (nsim::mint(&mut r, now_s - 100, protocol, e, id, 15, &srv.addrs, None, &srv.key), "expired-token")
                    }
                    1 => (nsim::mint(&mut r, now_s, protocol, 600, id, 15, &srv.addrs, None, &other_key(&srv.key)), "foreign-key-token"),
                    2 => {
                        let fp = protocol ^ (1u64 << r.below(64));
                        (nsim::mint(&mut r, now_s, fp, 600, id, 15, &srv.addrs, None, &srv.key), "foreign-protocol-token")
                    }
                    _ => {
                        // hosts close to the server's own: same IP other port, neighbouring IP same port, ...
                        let hosts = super::netcode_util::near_hosts(&mut r, &srv.addrs);
                        (nsim::mint(&mut r, now_s, protocol, 600, id, 15, &hosts, None, &srv.key), "wrong-host-token")
                    }
                };
                let mut d = request_of(&m);
                if r.chance(1, 3) {
                    let n = r.usize_below(MAX_DATAGRAM - REQUEST_LEN + 1);
                    let pad = r.bytes(n);
                    d.extend_from_slice(&pad);
                }
                Input { gen: "invalid-token-request", class, from, bytes: d }
            }
            64..=71 if pend_tok.is_some() => {
                // the response an honest client would send
                let i = pend_tok.unwrap();
                let (ts, blob) = led.challenge_of[&i].clone();
                let seq = 1 + r.below(50);
                let d = OPacket::Response { token_sequence: ts, token_data: blob }
                    .encode(protocol, Some((seq, &led.tokens[i].token.client_to_server_key)))
                    .unwrap_or_default();
                used_responses.push((from, d.clone()));
                Input { gen: "valid-response", class: "valid-response", from, bytes: d }
            }
            64..=81 => {
                // responses that are not valid for this server / address
                let which = r.below(9);
                // an address with neither a session nor a half-open entry (for replays of used responses)
                let conn_now = connected_addrs(&srv);
                let replay_from = pool.iter().copied().find(|p| !is_pending(&srv, *p) && !conn_now.contains(p));
                let tok_i = pend_tok.or_else(|| if led.tokens.is_empty() { None } else { Some(r.usize_below(led.tokens.len())) });
                let key = tok_i.map(|i| led.tokens[i].token.client_to_server_key).unwrap_or([7u8; 32]);
                let (ts, blob) = tok_i.and_then(|i| led.challenge_of.get(&i).cloned()).unwrap_or_else(|| {
                    let mut b = Box::new([0u8; 300]);
                    r.fill(&mut b[..]);
                    (r.below(5), b)
                });
                let seq = 1 + r.below(50);
                let mk = |ts: u64, blob: Box<[u8; 300]>, key: &[u8; 32]| OPacket::Response { token_sequence: ts, token_data: blob }.encode(protocol, Some((seq, key))).unwrap_or_default();
                let (d, class) = match which {
                    0 => {
                        let mut b = blob.clone();
                        b[r.usize_below(300)] ^= 1 << r.below(8);
                        (mk(ts, b, &key), "response-corrupted-blob")
                    }
                    1 => (mk(ts ^ (1 << r.below(8)), blob, &key), "response-wrong-token-sequence"),
                    2 => (mk(ts, blob, &other_key(&key)), "response-wrong-key"),
                    8 if pend_tok.is_some() => {
                        // everything a valid response carries - the issued challenge, the right key, the half-open address -
                        // but sealed as another packet type (a challenge has the very same layout): not a response
                        out.count("response_body_sealed_as_another_packet_type");
                        let d = OPacket::Challenge { token_sequence: ts, token_data: blob }.encode(protocol, Some((seq, &key))).unwrap_or_default();
                        (d, "response-sealed-as-challenge-type")
                    }
                    3 => {
                        // a challenge issued by another server instance for the same token
                        let id = r.next_u64();
                        let m = mint_for(&mut r, &srv, id, 15, 600);
                        let i = led.add(m);
                        let req = request_of(&led.tokens[i]);
                        let foreign = match other_srv.process(from, &req) {
                            SResult::Send { bytes, .. } => nsim::open(&bytes, protocol, Some(&led.tokens[i].token.server_to_client_key)),
                            _ => None,
                        };
                        match foreign {
                            Some((_, OPacket::Challenge { token_sequence, token_data })) => {
                                // make `from` half-open for that token on the server under test, too (the reply to this
                                // request is not evaluated: requests are evaluated by the other generators)
                                let was = is_pending(&srv, from);
                                if let SResult::Send { bytes, .. } = srv.process(from, &req) {
                                    if note_challenge(&mut led, &bytes, protocol, i) && !was {
                                        pending_tok.insert(from, i);
                                    }
                                }
                                last_request_from.insert(from, req[1..].to_vec());
                                (mk(token_sequence, token_data, &led.tokens[i].token.client_to_server_key), "response-foreign-instance-blob")
                            }
                            _ => (mk(ts, blob, &other_key(&key)), "response-wrong-key"),
                        }
                    }
                    6 | 7 if pend_tok.is_some() && led.challenge_of.keys().any(|j| Some(*j) != pend_tok) => {
                        // the half-open address answers with a challenge the server issued for ANOTHER token
                        // (preferably one with the same client id or the same user data, but not both: that would be the same identity)
                        let i = pend_tok.unwrap();
                        let ti = &led.tokens[i];
                        let mut cands: Vec<usize> = led.challenge_of.keys().copied().filter(|j| *j != i).collect();
                        cands.sort_unstable();
                        let close: Vec<usize> = cands
                            .iter()
                            .copied()
                            .filter(|j| (led.tokens[*j].token.client_id == ti.token.client_id) != (led.tokens[*j].private.user_data == ti.private.user_data))
                            .collect();
                        let j = if !close.is_empty() { *r.pick(&close) } else { *r.pick(&cands) };
                        if !close.is_empty() {
                            out.count("cross_challenge_same_id_or_user_data");
                        }
                        let (tsj, blobj) = led.challenge_of[&j].clone();
                        (mk(tsj, blobj, &ti.token.client_to_server_key), "response-other-tokens-challenge")
                    }
                    4 if !used_responses.is_empty() && replay_from.is_some() => {
                        let (_, d) = r.pick(&used_responses).clone();
                        (d, "response-replayed-elsewhere")
                    }
                    _ => {
                        let mut d = mk(ts, blob, &key);
                        let n = r.usize_below(d.len());
                        d.truncate(n);
                        (d, "response-truncated")
                    }
                };
                let from = if class == "response-replayed-elsewhere" { replay_from.unwrap() } else { from };
                if led.valid_response(&d, protocol, pending_tok.get(&from).copied()) && is_pending(&srv, from) {
                    // cannot be guaranteed invalid for this address: leave it to the ledger
                    Input { gen: "invalid-response", class: "valid-response", from, bytes: d }
                } else {
                    Input { gen: "invalid-response", class, from, bytes: d }
                }
            }
            82..=89 => {
                let p = match r.below(4) {
                    0 => OPacket::KeepAlive { client_index: 0, max_clients: 0 },
                    1 => {
                        let n = r.usize_below(1301);
                        OPacket::Payload(r.bytes(n))
                    }
                    2 => OPacket::Disconnect,
                    _ => OPacket::Denied,
                };
                let key = pend_tok.map(|i| led.tokens[i].token.client_to_server_key).unwrap_or([9u8; 32]);
                let d = p.encode(protocol, Some((1 + r.below(400), &key))).unwrap_or_default();
                Input { gen: "sealed-other", class: "sealed-non-handshake", from, bytes: d }
            }
            _ => {
                let len = match r.below(3) {
                    0 => r.usize_below(30),
                    1 => *r.pick(&[18usize, 19, 1078, 1400]),
                    _ => r.usize_below(MAX_DATAGRAM + 1),
                };
                let mut d = r.bytes(len);
                if len > 0 && r.chance(1, 2) {
                    d[0] = r.below(7) as u8 | ((r.below(9) as u8) << 4);
                }
                Input { gen: "random", class: "random", from, bytes: d }
            }
        };
        let d = inp.bytes;
        let from = inp.from;
        out.count(&format!("gen.{}", inp.gen));
        let conn = connected_addrs(&srv);
        if conn.contains(&from) {
            // completed handshake: outside the property
            out.count("out_of_scope.connected_source");
            let s = &mut srv;
            if watchdog::guarded("NetcodeServer::process_packet", &d, || s.process(from, &d)).is_err() {
                out.note("C19: a call panicked (see C07); that server was abandoned");
                return Ended::Done;
            }
            continue;
        }
        let was_pending = is_pending(&srv, from);
        let fill_name = if conn.is_empty() {
            "empty"
        } else if conn.len() >= max_clients {
            "full"
        } else {
            "partial"
        };
        out.count(&format!("fill.{fill_name}"));
        out.count(if was_pending { "from.pending" } else { "from.unknown" });
        out.count("in_scope_datagrams");
        let valid_tok = led.valid_token(&d, srv.now);
        let valid_resp = was_pending && led.valid_response(&d, protocol, pending_tok.get(&from).copied());
        let s = &mut srv;
        let res = match watchdog::guarded("NetcodeServer::process_packet", &d, || s.process(from, &d)) {
            Ok(r) => r,
            Err(c) => {
                out.count("panicked_calls");
                out.note(&format!("C19: process_packet panicked ({}), which is C07's finding; that server was abandoned", c.class));
                return Ended::Done;
            }
        };
        out.eval(mix(&[0x19, crate::rng::hash_str(fill_name), crate::rng::hash_str(inp.gen), crate::rng::fnv1a(&d)]), true);
        if history.len() >= 8 {
            history.remove(0);
        }
        history.push(json!({"op": opi, "generator": inp.gen, "class": inp.class, "from": from.to_string(), "len": d.len(),
            "source_state": if was_pending { "half-open" } else { "unknown" }, "server": fill_name, "result": res.kind(),
            "reply_len": res.outgoing().map(|(_, b)| b.len())}));
        if d.first().map(|b| b & 0xF) == Some(0) && d.len() >= REQUEST_LEN {
            last_request_from.insert(from, d[1..REQUEST_LEN].to_vec());
        }
        let wire = d.first().map(|b| type_name(*b)).unwrap_or("empty");
        let replay = |observed: &str, hist: &Vec<Value>| {
            json!({"property": "C19", "engine": ctx.engine, "run_seed": format!("{:#x}", run_seed), "op_index": opi,
                "generator": inp.gen, "input_class": inp.class, "from": from.to_string(), "server_fill": fill_name,
                "datagram": dg_json(&d), "observed": observed, "last_ops": hist})
        };
        match res.outgoing() {
            None => {
                if let Some(i) = valid_tok {
                    if bound_addr.get(&i).map_or(false, |b| *b != from) {
                        out.count(&format!("noreply.token-used-from-other-address.{fill_name}"));
                    }
                }
                if valid_tok.is_none() && !valid_resp {
                    out.count("noreply.invalid");
                } else {
                    out.count("noreply.valid");
                }
            }
            Some((dst, reply)) => {
                if dst != from {
                    out.violation(ctx, &format!("C19/reply-to-other-address/{wire}"), "the server answers only to the address the datagram came from",
                        format!("datagram from {} answered to {}", from, dst), replay("reply to another address", &history));
                    return Ended::Violation;
                }
                if reply.len() >= d.len() {
                    out.violation(ctx, &format!("C19/reply-not-smaller/{wire}"), "the reply is strictly smaller than the datagram received",
                        format!("{}-byte datagram ({}) answered with {} bytes", d.len(), inp.class, reply.len()), replay("reply not smaller", &history));
                    return Ended::Violation;
                }
                if let Some(i) = valid_tok {
                    match bound_addr.get(&i) {
                        Some(b) if *b != from && !valid_resp => {
                            out.violation(ctx, "C19/reply-to-invalid/token-used-from-other-address", "datagrams that carry neither a valid connect token nor a valid response get no answer",
                                format!("request with a token the server already answered at {} was presented from {} (server {}) and answered with {} bytes ({})", b, from, fill_name, reply.len(), res.kind()),
                                replay("reply to a token already used from another address", &history));
                            return Ended::Violation;
                        }
                        Some(_) => {}
                        None => {
                            bound_addr.insert(i, from);
                        }
                    }
                }
                if valid_tok.is_none() && !valid_resp {
                    out.violation(ctx, &format!("C19/reply-to-invalid/{}", inp.class), "datagrams that carry neither a valid connect token nor a valid response get no answer",
                        format!("{}-byte datagram of class {} from {} ({}) answered with {} bytes ({})", d.len(), inp.class, from, if was_pending { "half-open" } else { "unknown" }, reply.len(), res.kind()),
                        replay("reply to an invalid datagram", &history));
                    return Ended::Violation;
                }
                // classify the reply (coverage) and keep the ledger of issued challenges
                let tok_keys: Vec<usize> = match valid_tok {
                    Some(i) => vec![i],
                    None => (0..led.tokens.len()).collect(),
                };
                let mut kind = "unopened";
                for i in tok_keys {
                    if note_challenge(&mut led, reply, protocol, i) {
                        kind = "challenge";
                        if !was_pending {
                            pending_tok.insert(from, i);
                        }
                        break;
                    }
                    match nsim::open(reply, protocol, Some(&led.tokens[i].token.server_to_client_key)) {
                        Some((_, OPacket::Denied)) => kind = "denied",
                        Some((_, OPacket::KeepAlive { .. })) => kind = "connected-keepalive",
                        Some(_) => kind = "other",
                        None => continue,
                    }
                    break;
                }
                out.count(&format!("reply.{kind}"));
                out.max("reply_len", reply.len() as u64);
            }
        }
        // nothing else may leave the server for that address unless it is connected now
        if opi % 4 == 0 && !connected_addrs(&srv).contains(&from) {
            let ids = srv.s.clients_id();
            for id in ids {
                if let Some((dst, b)) = srv.update_client(id).outgoing() {
                    if dst == from {
                        out.violation(ctx, &format!("C19/second-datagram/{wire}"), "at most one datagram is sent back",
                            format!("update_client({}) produced {} more bytes for {}", id, b.len(), from), replay("second datagram", &history));
                        return Ended::Violation;
                    }
                    if let Some(c) = honest.iter_mut().find(|c| c.addr == dst) {
                        c.process(b);
                    }
                }
            }
        }
        // newly connected attackers are sometimes dropped again so that the fill state varies
        if let SResult::Connected { client_id, .. } = &res {
            if r.chance(1, 2) {
                let _ = srv.disconnect(*client_id);
            }
        }
    }
    if out.samples.len() < out.max_samples {
        out.sample(json!({"run_seed": format!("{:#x}", run_seed), "max_clients": max_clients, "prefilled": fill, "datagrams": n_ops, "last_ops": history}));
    }
    Ended::Done
}

fn is_pending(srv: &Srv, a: SocketAddr) -> bool {
    srv.s.verif_pending().iter().any(|(pa, _)| *pa == a)
}

/// Records the challenge inside `reply` (if it is one for token `i`) in the ledger of issued challenges.
fn note_challenge(led: &mut Ledger, reply: &[u8], protocol: u64, i: usize) -> bool {
    if let Some((_, OPacket::Challenge { token_sequence, token_data })) = nsim::open(reply, protocol, Some(&led.tokens[i].token.server_to_client_key)) {
        led.issued.insert((token_sequence, token_data.to_vec()));
        let ident = (led.tokens[i].token.client_id, crate::rng::fnv1a(&led.tokens[i].private.user_data));
        led.issued_for.entry(ident).or_default().insert((token_sequence, token_data.to_vec()));
        led.challenge_of.insert(i, (token_sequence, token_data));
        true
    } else {
        false
    }
}

/// The server remembers which address first used a connect token in a table of 2048 entries and replaces an oldest
/// entry when it is full. This run fills the table with more than 2048 distinct valid tokens, lets the clock advance,
/// has token T answered at address X, presents 1-3 further fresh tokens, and then replays T's request from another
/// address Y: at every insertion after T's there are entries strictly older than T's, so T's binding is still there
/// and the replay carries no valid token for Y - it must get no answer.
fn history_pressure_run(ctx: &Ctx, out: &mut Outcome, run_seed: u64, r: &mut Rng) {
    let maxc = r.urange(1, 3);
    let mut srv = new_srv(r, maxc, 1, false);
    // in half of the runs the pressure comes afterwards and from requests that carry no token at all (correct framing,
    // protocol id and an unexpired timestamp around random bytes): whatever the server remembers about used tokens,
    // unauthenticated datagrams must not be able to push it out
    let garbage_flood = r.chance(1, 2);
    let n_fill = if garbage_flood { r.urange(0, 40) } else { 2048 + r.urange(0, 40) };
    let mut hist: Vec<Value> = Vec::new();
    let fail = |out: &mut Outcome, sig: &str, detail: String, hist: &Vec<Value>| {
        out.violation(
            ctx,
            sig,
            "datagrams that carry neither a valid connect token nor a valid response get no answer",
            detail,
            json!({"property": "C19", "engine": ctx.engine, "run_seed": format!("{:#x}", run_seed), "mode": "history-pressure", "fill_tokens": n_fill, "steps": hist}),
        );
    };
    let mut answered = 0u64;
    for i in 0..n_fill {
        let m = mint_for(r, &srv, 1_000_000 + i as u64, 15, 600);
        let from = nsim::addr4((i / 200) as u8 + 20, (i % 200) as u8, 10_000 + (i % 50_000) as u16);
        let d = request_of(&m);
        match srv.process(from, &d).outgoing() {
            Some((dst, reply)) => {
                answered += 1;
                if dst != from || reply.len() >= d.len() {
                    hist.push(json!({"fill": i, "from": from.to_string(), "to": dst.to_string(), "reply_len": reply.len()}));
                    return fail(out, "C19/reply-not-smaller/request", format!("fill request {} from {} answered with {} bytes to {}", i, from, reply.len(), dst), &hist);
                }
            }
            None => {}
        }
        out.eval(mix(&[0x19F1, run_seed, i as u64]), true);
        if i % 97 == 0 && r.chance(1, 2) {
            srv.update(Duration::from_millis(r.range(1, 20)));
        }
    }
    hist.push(json!({"filled": n_fill, "answered": answered}));
    srv.update(Duration::from_millis(1000 + r.below(2000)));
    let t = mint_for(r, &srv, 77, 15, 600);
    let x = nsim::addr4(9, 9, 40_001);
    let y = if r.chance(1, 2) { nsim::addr4(9, 9, 40_002) } else { nsim::addr4(9, 10, 40_001) };
    let dt = request_of(&t);
    let first = srv.process(x, &dt);
    hist.push(json!({"T_from_X": x.to_string(), "result": first.kind()}));
    if first.outgoing().is_none() {
        out.count("history_pressure_void_T_not_answered");
        out.eval(mix(&[0x19F2, run_seed]), false);
        return;
    }
    if garbage_flood {
        let n = 2048 + r.urange(1, 200);
        let mut answered_garbage = 0u64;
        for j in 0..n {
            let mut data = Box::new([0u8; 1024]);
            r.fill(&mut data[..]);
            let mut xnonce = [0u8; 24];
            r.fill(&mut xnonce);
            let d = OPacket::Request { version_info: nsim::VERSION_INFO, protocol_id: srv.protocol_id, expire_timestamp: srv.now.as_secs() + 600, xnonce, data }
                .encode(srv.protocol_id, None)
                .expect("request encode");
            let from = nsim::addr4(60 + (j / 250) as u8, (j % 250) as u8, 45_000);
            if srv.process(from, &d).outgoing().is_some() {
                answered_garbage += 1;
            }
        }
        hist.push(json!({"unauthenticated_requests_after_T": n, "answered": answered_garbage}));
        out.count("history_pressure_runs_with_unauthenticated_flood");
        if answered_garbage > 0 {
            return fail(out, "C19/reply-to-invalid/unauthenticated-request", format!("{} of {} requests with random bytes in place of a token were answered", answered_garbage, n), &hist);
        }
    }
    let extra = r.urange(1, 3);
    for j in 0..extra {
        if r.chance(1, 2) {
            srv.update(Duration::from_millis(r.range(1, 300)));
        }
        let m = mint_for(r, &srv, 2_000_000 + j as u64, 15, 600);
        let from = nsim::addr4(8, j as u8, 30_000 + j as u16);
        let res = srv.process(from, &request_of(&m));
        hist.push(json!({"fresh_token_from": from.to_string(), "result": res.kind()}));
    }
    let res = srv.process(y, &dt);
    hist.push(json!({"T_replayed_from_Y": y.to_string(), "result": res.kind()}));
    out.count("history_pressure_runs");
    out.count("in_scope_datagrams");
    out.eval(mix(&[0x19F3, run_seed]), true);
    if let Some((dst, reply)) = res.outgoing() {
        return fail(
            out,
            "C19/reply-to-invalid/token-used-from-other-address",
            format!("after {} other tokens: token T was answered at {}, {} fresh tokens later its request replayed from {} was answered with {} bytes to {} ({})", n_fill, x, extra, y, reply.len(), dst, res.kind()),
            &hist,
        );
    }
    out.count("noreply.token-used-from-other-address.after-history-pressure");
    if out.samples.len() < out.max_samples {
        out.sample(json!({"mode": "history-pressure", "run_seed": format!("{:#x}", run_seed), "fill_tokens": n_fill, "fresh_tokens_between": extra}));
    }
}

/// A response is valid only while its token is: an address presents a token (sometimes a long-lived one first and then
/// a short-lived one, which takes over the half-open session), the clock passes the expiry of the token whose
/// challenge is then answered, and that response - correctly sealed, echoing the genuine challenge - must get no
/// answer. A timely response in the same setting must (the control that keeps the run meaningful).
fn late_response_run(ctx: &Ctx, out: &mut Outcome, run_seed: u64, r: &mut Rng) {
    use super::netproto_util::{challenge_of, response_bytes};
    let maxc = r.urange(1, 3);
    let mut srv = new_srv(r, maxc, 1, false);
    let protocol = srv.protocol_id;
    let a = client_addr(r, 77);
    let mut hist: Vec<Value> = Vec::new();
    let supersede = r.chance(1, 2);
    if supersede {
        let same_id = r.chance(1, 2);
        let m0 = mint_for(r, &srv, if same_id { 500 } else { 499 }, 15, 600);
        let res = srv.process(a, &request_of(&m0));
        hist.push(json!({"step": "long-lived token (600 s) presented first", "result": res.kind()}));
    }
    let life = r.range(2, 4);
    let m = mint_for(r, &srv, 500, 15, life);
    let res = srv.process(a, &request_of(&m));
    hist.push(json!({"step": format!("token with {} s to live presented", life), "result": res.kind()}));
    let Some(blob) = res.outgoing().and_then(|(_, rep)| challenge_of(rep, protocol, &m.private.server_to_client_key)) else {
        out.count("late_response_runs_void");
        out.eval(mix(&[0x1A7E, run_seed]), false);
        return;
    };
    let late = r.chance(2, 3);
    let total_ms = if late { (life * 1000) + r.range(0, 1500) } else { r.range(0, (life - 1) * 1000) };
    let step = *r.pick(&[total_ms.max(1), 1000, 100, 16]);
    let mut left = total_ms;
    while left > 0 {
        let d = step.min(left);
        srv.update(Duration::from_millis(d));
        left -= d;
    }
    let expired = srv.now.as_secs() >= m.expire;
    let resp = response_bytes(protocol, 1, &m.private.client_to_server_key, &blob);
    let res = srv.process(a, &resp);
    hist.push(json!({"step": format!("clock advanced {} ms in steps of {} ms, response presented", total_ms, step), "token_expired": expired, "result": res.kind()}));
    out.count("in_scope_datagrams");
    out.eval(mix(&[0x1A7F, run_seed, expired as u64]), true);
    if expired {
        out.count("late_response_after_expiry");
        if supersede {
            out.count("late_response_after_expiry_superseding_token");
        }
        if let Some((dst, reply)) = res.outgoing() {
            out.violation(
                ctx,
                "C19/reply-to-invalid/response-for-expired-token",
                "datagrams that carry neither a valid connect token nor a valid response get no answer",
                format!("the response to the challenge of a token that expired at server second {} was presented at second {} and answered with {} bytes to {} ({})", m.expire, srv.now.as_secs(), reply.len(), dst, res.kind()),
                json!({"property": "C19", "engine": ctx.engine, "run_seed": format!("{:#x}", run_seed), "mode": "late-response", "steps": hist}),
            );
        }
    } else {
        out.count("late_response_control_timely");
        if !matches!(res, SResult::Connected { .. }) {
            out.count("late_response_control_not_connected");
        }
    }
}

/// A response is consumed by the session it establishes. An address completes a handshake (request, challenge, response),
/// the session ends within the life time of the token (the server application disconnects it, the client's Disconnect
/// datagram arrives, or it times out), and then the recorded response datagram - genuine, correctly sealed, echoing
/// the genuine challenge - arrives again from that address (late duplicate, or a replay by whoever saw it). The
/// address has no completed handshake any more and no half-open one either: no answer, no session, and nothing is
/// sent to it at the following updates. Controls: the same datagram replayed while the session is still up (ignored
/// as well), and a fresh request afterwards is challenged again.
fn stale_response_run(ctx: &Ctx, out: &mut Outcome, run_seed: u64, r: &mut Rng) {
    use super::netproto_util::{challenge_of, response_bytes, sealed};
    let maxc = r.urange(1, 3);
    let mut srv = new_srv(r, maxc, 1, false);
    let protocol = srv.protocol_id;
    let a = client_addr(r, 78);
    let mut hist: Vec<Value> = Vec::new();
    let fail = |out: &mut Outcome, sig: &str, detail: String, hist: &Vec<Value>| {
        out.violation(
            ctx,
            sig,
            "datagrams that carry neither a valid connect token nor a valid response get no answer; nothing goes to an address without a completed handshake unasked",
            detail,
            json!({"property": "C19", "engine": ctx.engine, "run_seed": format!("{:#x}", run_seed), "mode": "stale-response", "steps": hist}),
        );
    };
    let tau = *r.pick(&[1i32, 2, 5]);
    let id = 600 + r.below(50);
    let m = mint_for(r, &srv, id, tau, 600);
    let res = srv.process(a, &request_of(&m));
    let Some(blob) = res.outgoing().and_then(|(_, rep)| challenge_of(rep, protocol, &m.private.server_to_client_key)) else {
        out.count("stale_response_runs_void");
        out.eval(mix(&[0x57A1, run_seed]), false);
        return;
    };
    let resp = response_bytes(protocol, 1, &m.private.client_to_server_key, &blob);
    let res = srv.process(a, &resp);
    hist.push(json!({"step": "request, challenge, response", "result": res.kind()}));
    if !matches!(res, SResult::Connected { .. }) {
        out.count("stale_response_runs_void");
        out.eval(mix(&[0x57A1, run_seed]), false);
        return;
    }
    // control: the duplicate of the response while the session is up
    if r.chance(1, 2) {
        let res = srv.process(a, &resp);
        hist.push(json!({"step": "response duplicated while the session is up", "result": res.kind()}));
        out.count("stale_response_duplicate_while_connected");
    }
    srv.update(Duration::from_millis(r.range(0, 400)));
    let how = r.below(3);
    let ended = match how {
        0 => {
            let res = srv.disconnect(id);
            hist.push(json!({"step": "server.disconnect(id)", "result": res.kind()}));
            matches!(res, SResult::Disconnected { .. })
        }
        1 => {
            let d = sealed(&OPacket::Disconnect, protocol, 2, &m.private.client_to_server_key);
            let res = srv.process(a, &d);
            hist.push(json!({"step": "Disconnect datagram of the client", "result": res.kind()}));
            matches!(res, SResult::Disconnected { .. })
        }
        _ => {
            let mut gone = false;
            for _ in 0..(tau as u64 * 10 + 20) {
                srv.update(Duration::from_millis(100));
                if matches!(srv.update_client(id), SResult::Disconnected { .. }) {
                    gone = true;
                    break;
                }
            }
            hist.push(json!({"step": "silence until the session timed out", "timed_out": gone, "server_now_ms": srv.now.as_millis() as u64}));
            gone
        }
    };
    if !ended || !srv.s.clients_id().is_empty() {
        out.count("stale_response_runs_void");
        out.eval(mix(&[0x57A2, run_seed, how]), false);
        return;
    }
    if r.chance(1, 2) {
        srv.update(Duration::from_millis(r.range(1, 3000)));
    }
    let copies = r.urange(1, 3);
    for c in 0..copies {
        let res = srv.process(a, &resp);
        hist.push(json!({"step": format!("recorded response replayed from the same address (copy {})", c + 1), "result": res.kind()}));
        out.count("in_scope_datagrams");
        out.count("stale_response_after_session_ended");
        let back = !srv.s.clients_id().is_empty();
        if res.outgoing().is_some() || matches!(res, SResult::Connected { .. }) || back {
            let (dst, len) = res.outgoing().map(|(d, b)| (d.to_string(), b.len())).unwrap_or(("-".into(), 0));
            return fail(
                out,
                "C19/reply-to-invalid/replayed-response-after-session-ended",
                format!("the session of {} ended ({}); its recorded response replayed from {} was answered with {} bytes to {} ({}), clients now {:?}", id, ["server.disconnect", "client Disconnect datagram", "time-out"][how as usize], a, len, dst, res.kind(), srv.s.clients_id()),
                &hist,
            );
        }
        // nothing is owed to that address at the next updates either
        srv.update(Duration::from_millis(r.range(100, 600)));
        let res = srv.update_client(id);
        if res.outgoing().is_some() {
            return fail(
                out,
                "C19/unsolicited-datagram/after-replayed-response",
                format!("after the replayed response of an ended session the server sends {} to that address at its next update", res.kind()),
                &hist,
            );
        }
    }
    out.eval(mix(&[0x57A3, run_seed, how, copies as u64]), true);
    out.count(&format!("noreply.replayed-response-after-{}", ["server-disconnect", "client-disconnect", "time-out"][how as usize]));
    // control: the address can start over with a fresh request
    if r.chance(1, 2) {
        let m2 = mint_for(r, &srv, id, tau, 600);
        let res = srv.process(a, &request_of(&m2));
        if res.outgoing().is_some() {
            out.count("stale_response_control_fresh_request_challenged");
        } else {
            out.count("stale_response_control_fresh_request_not_answered");
        }
    }
    if out.samples.len() < out.max_samples {
        out.sample(json!({"mode": "stale-response", "run_seed": format!("{:#x}", run_seed), "ended_by": how, "copies": copies}));
    }
}
