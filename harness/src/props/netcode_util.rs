//! Shared helpers of the renetcode property modules C07 / C17 / C19: honest handshake steps with
//! every datagram handed back to the caller, token byte layout, datagram mutation primitives.
//! (Own file instead of an edit of `nsim.rs`, see AGENT_GUIDE rule 9.)

use crate::nsim::{self, mint, Cli, Minted, OPacket, SResult, Srv};
use crate::rng::Rng;
use serde_json::{json, Value};
use std::net::SocketAddr;
use std::time::Duration;

/// Wire size of a connection request: prefix + version(13) + protocol(8) + expiry(8) + nonce(24) + sealed token(1024).
pub const REQUEST_LEN: usize = 1078;
pub const MAX_DATAGRAM: usize = 1400;

/// Offsets inside a request datagram.
pub mod req_off {
    pub const VERSION: usize = 1;
    pub const PROTOCOL: usize = 14;
    pub const EXPIRE: usize = 22;
    pub const XNONCE: usize = 30;
    pub const DATA: usize = 54;
}

/// Offsets inside a serialized `ConnectToken` (ConnectToken::write order).
pub mod tok_off {
    pub const CLIENT_ID: usize = 0;
    pub const VERSION: usize = 8;
    pub const PROTOCOL: usize = 21;
    pub const CREATE: usize = 29;
    pub const EXPIRE: usize = 37;
    pub const XNONCE: usize = 45;
    pub const PRIVATE: usize = 69;
    pub const TIMEOUT: usize = 1093;
    pub const NUM_ADDRS: usize = 1097;
    pub const FIRST_ADDR_TYPE: usize = 1101;
}

pub fn new_srv(r: &mut Rng, max_clients: usize, n_addrs: usize, v6: bool) -> Srv {
    let mut key = [0u8; 32];
    r.fill(&mut key);
    let protocol_id = r.next_u64();
    let port = 5000 + r.below(1000) as u16;
    let addrs: Vec<SocketAddr> = (0..n_addrs.max(1))
        .map(|i| if v6 { nsim::addr6(0x100 + i as u16, port) } else { nsim::addr4(0, i as u8, port) })
        .collect();
    let now = Duration::from_secs(1_000 + r.below(100_000));
    Srv::new(now, max_clients, protocol_id, addrs, key, true)
}

pub fn client_addr(r: &mut Rng, n: u64) -> SocketAddr {
    if r.chance(1, 8) {
        // an IPv4-mapped IPv6 source (what a dual-stack socket reports for an IPv4 peer): a different SocketAddr from
        // the plain IPv4 one, answers go back to exactly this form
        let v4 = std::net::Ipv4Addr::new(10, 1 + (n / 200) as u8, (n % 200) as u8, 1);
        return SocketAddr::new(std::net::IpAddr::V6(v4.to_ipv6_mapped()), 20_000 + (n % 20_000) as u16);
    }
    if r.chance(1, 10) {
        // a link-local IPv6 source carries a scope id (and a socket may report a flow label): part of the SocketAddr
        // the datagram came from, so part of the address the session belongs to and answers go to
        let ip = std::net::Ipv6Addr::new(0xfe80, 0, 0, 0, 0, 0, (n >> 16) as u16, n as u16);
        let flow = if r.chance(1, 3) { r.range(1, 1 << 20) as u32 } else { 0 };
        let scope = if flow == 0 || r.chance(1, 2) { r.range(1, 9) as u32 } else { 0 };
        return SocketAddr::V6(std::net::SocketAddrV6::new(ip, 20_000 + (n % 20_000) as u16, flow, scope));
    }
    if r.chance(1, 4) {
        nsim::addr6(0x1000 + n as u16, 20_000 + (n % 20_000) as u16)
    } else {
        nsim::addr4(1 + (n / 200) as u8, (n % 200) as u8, 20_000 + (n % 20_000) as u16)
    }
}

pub fn mint_for(r: &mut Rng, srv: &Srv, client_id: u64, timeout: i32, expire_s: u64) -> Minted {
    mint(r, srv.now.as_secs(), srv.protocol_id, expire_s, client_id, timeout, &srv.addrs, None, &srv.key)
}

pub fn new_cli(r: &mut Rng, srv: &Srv, client_id: u64, addr: SocketAddr, timeout: i32, expire_s: u64) -> Result<Cli, String> {
    // a quarter of the clients hold a token made by the library's own generator (ConnectToken::generate: keys and nonce
    // from OS randomness), the others one minted by the harness with seeded keys
    let m = if r.chance(1, 4) {
        nsim::mint_lib(srv.now.as_secs(), srv.protocol_id, expire_s, client_id, timeout, &srv.addrs, None, &srv.key).unwrap_or_else(|| mint_for(r, srv, client_id, timeout, expire_s))
    } else {
        mint_for(r, srv, client_id, timeout, expire_s)
    };
    // the client's own clock does not share an origin with the server's in a third of the cases
    let client_clock = match r.below(6) {
        0 => Duration::from_millis(r.below(5000)),
        1 => srv.now + Duration::from_secs(3600 + r.below(1_000_000)),
        _ => srv.now,
    };
    Cli::new(client_clock, m, addr)
}

/// The (unsealed) connection request datagram a client would send for this token.
pub fn request_of(m: &Minted) -> Vec<u8> {
    OPacket::Request {
        version_info: nsim::VERSION_INFO,
        protocol_id: m.token.protocol_id,
        expire_timestamp: m.token.expire_timestamp,
        xnonce: m.token.xnonce,
        data: Box::new(m.token.private_data),
    }
    .encode(m.token.protocol_id, None)
    .expect("request encode")
}

/// Lets the client's clock run until it emits its next datagram (at most ~400 ms of virtual time).
pub fn cli_emit(cli: &mut Cli) -> Result<Vec<u8>, String> {
    for _ in 0..4 {
        if let Some((b, _to)) = cli.update(Duration::from_millis(130)) {
            return Ok(b);
        }
    }
    Err("client emitted nothing within 520 ms".into())
}

/// Request delivered, challenge handed back (not given to the client). Server: pending; client: requesting.
pub fn to_pending(srv: &mut Srv, cli: &mut Cli) -> Result<(Vec<u8>, Vec<u8>), String> {
    let req = cli_emit(cli)?;
    if req.first().map(|b| b & 0xF) != Some(0) {
        return Err("first client datagram is not a request".into());
    }
    match srv.process(cli.addr, &req) {
        SResult::Send { addr, bytes } if addr == cli.addr => Ok((req, bytes)),
        other => Err(format!("request not answered with a challenge: {}", other.kind())),
    }
}

/// Challenge consumed, response handed back (not given to the server). Server: pending; client: responding.
pub fn to_responding(srv: &mut Srv, cli: &mut Cli) -> Result<(Vec<u8>, Vec<u8>, Vec<u8>), String> {
    let (req, chal) = to_pending(srv, cli)?;
    if cli.process(&chal).is_some() {
        return Err("challenge surfaced a payload".into());
    }
    let resp = cli_emit(cli)?;
    if resp.first().map(|b| b & 0xF) != Some(3) {
        return Err(format!("client did not emit a response after the challenge (prefix {:?})", resp.first()));
    }
    Ok((req, chal, resp))
}

/// Datagrams of one honest handshake in order: request, challenge, response, connect keep-alive.
pub struct Wire {
    pub request: Vec<u8>,
    pub challenge: Vec<u8>,
    pub response: Vec<u8>,
    pub keepalive: Vec<u8>,
}

pub fn finish_connect(srv: &mut Srv, cli: &mut Cli, resp: &[u8]) -> Result<Vec<u8>, String> {
    match srv.process(cli.addr, resp) {
        SResult::Connected { client_id, addr, bytes, .. } if addr == cli.addr && client_id == cli.minted.token.client_id => {
            cli.process(&bytes);
            if !cli.c.is_connected() {
                return Err("client not connected after the connect keep-alive".into());
            }
            Ok(bytes)
        }
        other => Err(format!("response not answered with ClientConnected: {}", other.kind())),
    }
}

pub fn connect(srv: &mut Srv, cli: &mut Cli) -> Result<Wire, String> {
    let (request, challenge, response) = to_responding(srv, cli)?;
    let keepalive = finish_connect(srv, cli, &response)?;
    Ok(Wire {
        request,
        challenge,
        response,
        keepalive,
    })
}

/// One genuine payload client -> server must surface unchanged with the right client id.
pub fn genuine_up(srv: &mut Srv, cli: &mut Cli, payload: &[u8]) -> Result<(), String> {
    let (_, d) = cli.payload(payload)?;
    match srv.process(cli.addr, &d) {
        SResult::Payload { client_id, bytes } if client_id == cli.minted.token.client_id && bytes == payload => Ok(()),
        other => Err(format!("genuine client payload not surfaced by the server: {}", other.kind())),
    }
}

/// One genuine payload server -> client must surface unchanged.
pub fn genuine_down(srv: &mut Srv, cli: &mut Cli, payload: &[u8]) -> Result<(), String> {
    let (addr, d) = srv.payload_for(cli.minted.token.client_id, payload)?;
    if addr != cli.addr {
        return Err("server payload addressed elsewhere".into());
    }
    match cli.process(&d) {
        Some(p) if p == payload => Ok(()),
        Some(_) => Err("genuine server payload surfaced with other bytes".into()),
        None => Err("genuine server payload not surfaced by the client".into()),
    }
}

pub fn flip_bit(d: &mut [u8], bit: usize) {
    d[bit / 8] ^= 1 << (bit % 8);
}

pub fn type_name(prefix: u8) -> &'static str {
    match prefix & 0xF {
        0 => "request",
        1 => "denied",
        2 => "challenge",
        3 => "response",
        4 => "keepalive",
        5 => "payload",
        6 => "disconnect",
        _ => "invalid-type",
    }
}

/// Hex of a datagram for witnesses (full: replays must not depend on the generator).
pub fn dg_json(d: &[u8]) -> Value {
    json!({"len": d.len(), "hex": crate::rng::hex(d)})
}

/// Another key / protocol id for "opens under nothing else" checks.
pub fn other_key(k: &[u8; 32]) -> [u8; 32] {
    let mut o = *k;
    o[7] ^= 0x40;
    o
}

/// Host lists that do not name the server but come close to it: same IP with another port, same port on a
/// neighbouring IP (one bit away), the IPv4-mapped IPv6 form of a public IPv4 address with another port, or
/// an unrelated host. None of the returned addresses equals a public address of the server.
pub fn near_hosts(r: &mut Rng, public: &[SocketAddr]) -> Vec<SocketAddr> {
    use std::net::IpAddr;
    let p = *r.pick(public);
    let mut v: Vec<SocketAddr> = Vec::new();
    let n = 1 + r.usize_below(3);
    while v.len() < n {
        let cand = match r.below(5) {
            0 => SocketAddr::new(p.ip(), p.port().wrapping_add(1 + r.below(3) as u16)),
            1 => SocketAddr::new(p.ip(), p.port() ^ (1 << r.below(16))),
            2 => match p.ip() {
                IpAddr::V4(a) => {
                    let mut o = a.octets();
                    o[r.usize_below(4)] ^= 1 << r.below(8);
                    SocketAddr::new(IpAddr::V4(o.into()), p.port())
                }
                IpAddr::V6(a) => {
                    let mut o = a.octets();
                    o[r.usize_below(16)] ^= 1 << r.below(8);
                    SocketAddr::new(IpAddr::V6(o.into()), p.port())
                }
            },
            3 => match p.ip() {
                IpAddr::V4(a) => SocketAddr::new(IpAddr::V6(a.to_ipv6_mapped()), p.port().wrapping_add(1)),
                IpAddr::V6(_) => SocketAddr::new(p.ip(), p.port().wrapping_sub(1)),
            },
            _ => nsim::addr4(250, r.below(200) as u8, 1 + r.below(60_000) as u16),
        };
        if !public.contains(&cand) && cand.port() != 0 {
            v.push(cand);
        }
    }
    v
}
