//! C05 Only a valid, unexpired, untampered connect token from its own address connects
//! (DESIGN section 4 / appendix B: token ledger + challenge ledger).
//!
//! Signature classes (one per way a `ClientConnected` can be illegitimate):
//!   C05/connected/addr-not-sender                  reported address differs from the datagram's source
//!   C05/connected/unreported                       connected set grew without a ClientConnected result
//!   C05/connected/trigger-not-a-response           the triggering datagram is not a Response known to the ledger
//!   C05/connected/challenge-issued-for-other-id    echoed challenge was issued for another client id (F10)
//!   C05/connected/challenge-from-other-server      echoed challenge was issued by another server instance
//!   C05/connected/challenge-never-issued           echoed challenge blob was never issued (corrupted / forged)
//!   C05/connected/unknown-client-id                no minted token carries the reported id
//!   C05/connected/user-data-not-of-token           no token with that id carries the reported user data
//!   C05/connected/invalid-token/<why>              token is foreign-key / foreign-protocol / wrong-host
//!   C05/connected/token-not-presented-from-address no request with that token came from the address
//!   C05/connected/expired-token                    every request from that address came at floor(t) >= expire
//!   C05/connected/token-used-from-other-address    token was first used from a different address
//!   C05/panic/<class>

use super::netproto_util::{a, challenge_of, report_panic, request_bytes, response_blob, response_bytes, rkey, Blob, Hist};
use crate::nsim::{addr4, addr6, mint, open, Cli, Minted, OPacket, SResult, Srv};
use crate::outcome::{Ctx, Outcome, PropInfo};
use crate::rng::{fnv1a, Fnv, Rng};
use crate::watchdog::guarded;
use serde_json::json;
use std::collections::HashMap;
use std::net::SocketAddr;
use std::time::Duration;

pub static INFO: PropInfo = PropInfo {
    id: "C05",
    level: "exploration",
    rule: "one evaluation = one run against a fresh secure server (plus a second server instance with the same key, protocol id and address for stale challenges): honest NetcodeClient handshakes and hand-driven handshakes, then the scripted attacker repertoire (tokens presented at server times floor(t) = expire-1 / expire / expire+1; every single-field corruption of the request: version, protocol id, expiry, nonce, sealed token head / middle / MAC, zeroed token, plus sampled single-bit flips; tokens sealed under a foreign key, for a foreign protocol id (public field and / or sealed AAD), listing only foreign hosts; a token replayed from a second address before and after the first address completed; responses from an unknown address and from an address half-open for another token; challenges cross-used between sessions the attacker owns, including two tokens with the same client id and different user data; challenges of the other server instance; corrupted challenges; observed honest datagrams replayed from other addresses; a response delivered after the server clock passed the token's expiry in one step or in sub-second steps of 1..999 ms), then 40..160 seeded random request / response / time-advance / disconnect operations over all tokens, addresses and collected challenges. Every ClientConnected is judged against the token ledger (who was minted what, which request came from where at which server time) and the challenge ledger (which blob this server issued in answer to a request of which client id; blobs are recovered by opening replies with the token's server-to-client key). One run in 12 has a FLOOD script: a token completes a handshake from X and the session ends, more than 2048 well-formed requests with random bytes in place of the sealed token arrive from other addresses, then the recorded request and response are replayed from Y (the record 'used from X' must have survived). One script presents a 2 s token while it is valid (sometimes completing and ending the session, sometimes repeating the request), lets it expire and then sends, from the same address, the same request with the header expiry rewritten into the future (alone, with the nonce changed, with sealed bytes changed while the trailing MAC stays) and the unchanged one, each followed by a response. Non-trivial = at least one honest connect and at least 10 refused attack attempts in the run; distinct = distinct fingerprints of the (operation, result kind) history. A sixth of the fresh addresses are IPv6 link-local addresses with a zone (scope id), each followed by its twin - the same ip and port on another link - which is a different address for every rule above.",
    assumptions: &[
        "AEAD unforgeability assumed; the attacker only uses keys of tokens it was legitimately issued and datagrams it observed",
        "fewer than 2048 distinct tokens per server instance (token-entry table never evicts)",
        "'already used from a different address' is read leniently: a connect is accepted if its address is the first from which the token was presented OR the first whose request the server answered",
        "a request carries token T iff its nonce, sealed bytes and expiry equal T's; altered framing (prefix high nibble, trailing bytes, version / protocol fields of the request) leaves the token untampered, so a connect after such a request is not counted as a violation (the statement speaks about the token)",
    ],
    gates: &[
        ("honest_connects", 200),
        ("manual_connects", 200),
        ("accepted.expire_minus_1", 50),
        ("refused.expired_at_expire", 50),
        ("refused.expired_after", 50),
        ("refused.corrupt_field", 400),
        ("refused.bitflip", 400),
        ("refused.foreign_key", 50),
        ("refused.foreign_protocol", 100),
        ("refused.wrong_host", 50),
        ("refused.token_replay_other_address", 100),
        ("refused.response_other_address", 100),
        ("refused.cross_challenge", 50),
        ("refused.cross_challenge_same_id", 50),
        ("refused.stale_challenge_other_instance", 50),
        ("refused.corrupt_challenge", 100),
        ("refused.observed_replay", 50),
        ("late_response_ignored", 50),
        ("late_response_subsecond_steps", 30),
        ("late_response_after_superseded_long_lived_token", 30),
    ],
    engines_quick: &["e1"],
    engines_thorough: &["e1"],
    run,
};

pub fn run(ctx: &Ctx, out: &mut Outcome) {
    super::run_loop(ctx, out, 12_000, 600_000, 5, one_run);
}

struct Tok {
    m: Minted,
    /// protocol id bound into the sealed part (AAD)
    aad_protocol: u64,
    req: Vec<u8>,
}

impl Tok {
    fn id(&self) -> u64 {
        self.m.private.client_id
    }
    fn c2s(&self) -> [u8; 32] {
        self.m.private.client_to_server_key
    }
    fn s2c(&self) -> [u8; 32] {
        self.m.private.server_to_client_key
    }
}

struct World {
    srv: Vec<Srv>,
    protocol: u64,
    key: [u8; 32],
    saddr: SocketAddr,
    toks: Vec<Tok>,
    /// (server, token) -> presentations (from, server time)
    presented: HashMap<(usize, usize), Vec<(SocketAddr, Duration)>>,
    first_presented: HashMap<(usize, usize), SocketAddr>,
    first_answered: HashMap<(usize, usize), SocketAddr>,
    /// server -> blob -> client id it was issued for
    issued: Vec<HashMap<(u64, Vec<u8>), u64>>,
    blobs: Vec<(usize, Blob)>, // (token it was issued to, blob) as collected by the attacker on server 0
    hist: Hist,
    fp: Fnv,
    run_seed: u64,
    next_addr: u16,
    last_addr: Option<SocketAddr>,
    host_of_last_addr_reused: bool,
    next_id: u64,
    refused: u64,
    honest: u64,
    stop: bool,
    link_local_twins: u64,
}

impl World {
    fn fresh_addr(&mut self, r: &mut Rng) -> SocketAddr {
        self.next_addr += 1;
        if r.chance(1, 4) && self.next_addr > 1 {
            // same host as the previous address, another port (two peers behind one NAT)
            self.host_of_last_addr_reused = true;
            match self.last_addr {
                Some(SocketAddr::V4(v)) => return SocketAddr::new(std::net::IpAddr::V4(*v.ip()), 6000 + self.next_addr),
                Some(SocketAddr::V6(v)) => return SocketAddr::new(std::net::IpAddr::V6(*v.ip()), 7000 + self.next_addr),
                None => {}
            }
        }
        if r.chance(1, 6) {
            // IPv6 link-local peers: the zone (scope id) is part of where a datagram came from. A link-local address is
            // followed, the next time, by its twin: same ip and port on another link - a different address
            if let Some(SocketAddr::V6(v)) = self.last_addr {
                if v.scope_id() != 0 {
                    let t = SocketAddr::V6(std::net::SocketAddrV6::new(*v.ip(), v.port(), 0, v.scope_id() + 1));
                    self.last_addr = Some(t);
                    self.link_local_twins += 1;
                    return t;
                }
            }
            let ip = std::net::Ipv6Addr::new(0xfe80, 0, 0, 0, 0, 0, 1, self.next_addr);
            let x = SocketAddr::V6(std::net::SocketAddrV6::new(ip, 7000 + self.next_addr, 0, 2));
            self.last_addr = Some(x);
            return x;
        }
        let x = if r.chance(1, 5) {
            addr6(self.next_addr, 7000 + self.next_addr)
        } else {
            addr4(2, (self.next_addr % 250) as u8, 6000 + self.next_addr)
        };
        self.last_addr = Some(x);
        x
    }
    fn fresh_id(&mut self) -> u64 {
        self.next_id += 1;
        self.next_id
    }
    fn now_s(&self) -> u64 {
        self.srv[0].now.as_secs()
    }
    /// Mints a token valid for server 0 unless the overrides say otherwise.
    #[allow(clippy::too_many_arguments)]
    fn mint(&mut self, r: &mut Rng, id: u64, expire: u64, key: Option<[u8; 32]>, aad_protocol: Option<u64>, public_protocol: Option<u64>, hosts: Option<Vec<SocketAddr>>) -> usize {
        let create = self.now_s().saturating_sub(5).min(expire.saturating_sub(1));
        let key = key.unwrap_or(self.key);
        let aad = aad_protocol.unwrap_or(self.protocol);
        let hosts = hosts.unwrap_or_else(|| vec![self.saddr]);
        let mut m = mint(r, create, aad, expire - create, id, 15, &hosts, None, &key);
        if let Some(p) = public_protocol {
            m.token.protocol_id = p;
        }
        let req = request_bytes(&m.token);
        self.toks.push(Tok { m, aad_protocol: aad, req });
        self.toks.len() - 1
    }
    fn invalid_reason(&self, t: &Tok) -> Option<&'static str> {
        if t.m.sealed_under != self.key {
            Some("foreign-key")
        } else if t.aad_protocol != self.protocol {
            Some("foreign-protocol")
        } else if !t.m.private.server_addresses.iter().flatten().any(|x| *x == self.saddr) {
            Some("wrong-host")
        } else {
            None
        }
    }
}

fn blob_key(b: &Blob) -> (u64, Vec<u8>) {
    (b.0, b.1.to_vec())
}

/// Delivers one datagram to server `si`, keeps the ledgers, judges a resulting connection.
fn deliver(w: &mut World, ctx: &Ctx, out: &mut Outcome, si: usize, from: SocketAddr, bytes: &[u8], tag: &str) -> SResult {
    if w.stop {
        return SResult::None;
    }
    // what is this datagram? (content based: harmless changes of framing do not matter)
    let mut req_tok: Option<usize> = None;
    if let Some((_, OPacket::Request { version_info, protocol_id, expire_timestamp, xnonce, data })) = open(bytes, w.protocol, None) {
        req_tok = w.toks.iter().position(|t| {
            // what authenticates the private token: nonce, sealed bytes and the expiry bound as AAD;
            // the version and protocol fields of the request are framing, not part of the token
            let _ = (version_info, protocol_id);
            t.m.token.expire_timestamp == expire_timestamp
                && t.m.token.xnonce == xnonce
                && t.m.token.private_data[..] == data[..]
        });
    }
    let mut resp: Option<Blob> = None;
    if bytes.first().is_some_and(|b| b & 0xF == 3) {
        for t in w.toks.iter() {
            if let Some(b) = response_blob(bytes, w.protocol, &t.c2s()) {
                resp = Some(b);
                break;
            }
        }
    }
    let before = w.srv[si].s.connected_clients();
    let now = w.srv[si].now;
    let res = match guarded("NetcodeServer::process_packet", bytes, || w.srv[si].process(from, bytes)) {
        Ok(r) => r,
        Err(c) => {
            report_panic(ctx, out, "C05", "NetcodeServer::process_packet", bytes, &c, w.run_seed, "run", &w.hist);
            w.stop = true;
            return SResult::None;
        }
    };
    let after = w.srv[si].s.connected_clients();
    w.fp.bytes(tag.as_bytes());
    w.fp.bytes(res.kind().as_bytes());
    w.hist.push(format!(
        "t={:.3} srv{} from {} {} (request of token {:?}, response {}) -> {}",
        now.as_secs_f64(),
        si,
        a(from),
        tag,
        req_tok,
        resp.as_ref().map(|b| format!("blob#{}", b.0)).unwrap_or_else(|| "-".into()),
        res.kind()
    ));
    if let Some(ti) = req_tok {
        w.presented.entry((si, ti)).or_default().push((from, now));
        w.first_presented.entry((si, ti)).or_insert(from);
        if let Some((dst, reply)) = res.outgoing() {
            if dst == from {
                w.first_answered.entry((si, ti)).or_insert(from);
                let (s2c, id) = (w.toks[ti].s2c(), w.toks[ti].id());
                if let Some(b) = challenge_of(reply, w.protocol, &s2c) {
                    w.issued[si].insert(blob_key(&b), id);
                    out.count("challenges_issued");
                    if si == 0 {
                        w.blobs.push((ti, b));
                    }
                }
            }
        }
    }
    if req_tok.is_none() {
        // a reply to something the ledger does not recognise as a token's request: still a challenge
        // this server issued, attributed to the token whose key opens it
        if let Some((dst, reply)) = res.outgoing() {
            if dst == from && !matches!(res, SResult::Connected { .. }) {
                for t in w.toks.iter() {
                    if let Some(b) = challenge_of(reply, w.protocol, &t.s2c()) {
                        w.issued[si].insert(blob_key(&b), t.id());
                        out.count("challenges_issued_for_unrecognised_request");
                        break;
                    }
                }
            }
        }
    }
    let mut bad: Option<(String, String)> = None;
    match &res {
        SResult::Connected { client_id, addr, user_data, .. } => {
            out.count("connected_events");
            bad = judge(w, si, from, now, *client_id, *addr, user_data, resp.as_ref());
        }
        _ => {
            if after > before {
                bad = Some(("C05/connected/unreported".into(), format!("connected_clients() went from {} to {} without a ClientConnected result", before, after)));
            }
        }
    }
    if let Some((sig, detail)) = bad {
        out.violation(
            ctx,
            &sig,
            "a client is reported connected only after a valid, unexpired, untampered token from its own address and a response from the same address echoing a challenge issued for that client id",
            detail,
            json!({
                "property": "C05", "engine": ctx.engine, "run_seed": format!("{:#x}", w.run_seed),
                "trigger": {"server": si, "from": a(from), "presentation": tag, "datagram_hex": crate::rng::hex(bytes)},
                "history": w.hist.json(),
            }),
        );
        w.stop = true;
    }
    res
}

#[allow(clippy::too_many_arguments)]
fn judge(w: &World, si: usize, from: SocketAddr, now: Duration, id: u64, addr: SocketAddr, ud: &[u8; 256], resp: Option<&Blob>) -> Option<(String, String)> {
    if addr != from {
        return Some(("C05/connected/addr-not-sender".into(), format!("ClientConnected names {} but the datagram came from {}", a(addr), a(from))));
    }
    let Some(blob) = resp else {
        return Some(("C05/connected/trigger-not-a-response".into(), format!("client {} connected by a datagram that is not a response sealed under any issued token key", id)));
    };
    match w.issued[si].get(&blob_key(blob)) {
        Some(for_id) if *for_id == id => {}
        Some(for_id) => {
            return Some((
                "C05/connected/challenge-issued-for-other-id".into(),
                format!("ClientConnected{{id {}, addr {}}} triggered by a response echoing challenge #{} that this server issued for client id {}", id, a(addr), blob.0, for_id),
            ));
        }
        None => {
            let other = (0..w.issued.len()).any(|k| k != si && w.issued[k].contains_key(&blob_key(blob)));
            return Some(if other {
                ("C05/connected/challenge-from-other-server".into(), format!("client {} connected with a challenge issued by another server instance", id))
            } else {
                ("C05/connected/challenge-never-issued".into(), format!("client {} connected with a challenge blob this server never issued", id))
            });
        }
    }
    let with_id: Vec<usize> = (0..w.toks.len()).filter(|i| w.toks[*i].id() == id).collect();
    if with_id.is_empty() {
        return Some(("C05/connected/unknown-client-id".into(), format!("no token was minted for client id {}", id)));
    }
    let cands: Vec<usize> = with_id.iter().copied().filter(|i| w.toks[*i].m.private.user_data == *ud).collect();
    if cands.is_empty() {
        return Some((
            "C05/connected/user-data-not-of-token".into(),
            format!("ClientConnected{{id {}}} reports user data {:x} which no token of that id carries", id, fnv1a(ud)),
        ));
    }
    // one candidate must satisfy everything; otherwise report the reason of the most advanced one
    let mut best: (u32, String, String) = (0, String::new(), String::new());
    for ti in cands {
        let t = &w.toks[ti];
        let fail: (u32, String, String) = if let Some(why) = w.invalid_reason(t) {
            (1, format!("C05/connected/invalid-token/{why}"), format!("client {} connected with token #{} which is {}", id, ti, why))
        } else {
            let pres = w.presented.get(&(si, ti)).cloned().unwrap_or_default();
            let from_addr: Vec<&(SocketAddr, Duration)> = pres.iter().filter(|p| p.0 == addr).collect();
            if from_addr.is_empty() {
                (2, "C05/connected/token-not-presented-from-address".into(), format!("client {} connected at {} but token #{} (same id and user data) was never presented from there", id, a(addr), ti))
            } else if !from_addr.iter().any(|p| p.1.as_secs() < t.m.expire) {
                (3, "C05/connected/expired-token".into(), format!("token #{} (expire {}) was presented from {} only at server seconds {:?}", ti, t.m.expire, a(addr), from_addr.iter().map(|p| p.1.as_secs()).collect::<Vec<_>>()))
            } else if now.as_secs() >= t.m.expire {
                // the token is expired from second `expire` on (a request presented then is refused); half-open sessions
                // end when their token expires, so a late response cannot turn an expired token into a connection
                (3, "C05/connected/expired-token-at-response".into(), format!("token #{} expired at {} but its response connected at server second {}", ti, t.m.expire, now.as_secs()))
            } else if w.first_presented.get(&(si, ti)) != Some(&addr) && w.first_answered.get(&(si, ti)) != Some(&addr) {
                (4, "C05/connected/token-used-from-other-address".into(), format!("token #{} was first used from {:?}, now connected from {}", ti, w.first_presented.get(&(si, ti)).map(|x| a(*x)), a(addr)))
            } else {
                return None;
            }
        };
        if fail.0 > best.0 {
            best = fail;
        }
    }
    Some((best.1, best.2))
}

fn request(w: &mut World, ctx: &Ctx, out: &mut Outcome, si: usize, ti: usize, from: SocketAddr, tag: &str) -> Option<Blob> {
    let req = w.toks[ti].req.clone();
    let res = deliver(w, ctx, out, si, from, &req, tag);
    let s2c = w.toks[ti].s2c();
    res.outgoing().filter(|(dst, _)| *dst == from).and_then(|(_, b)| challenge_of(b, w.protocol, &s2c))
}

/// Response from `from`, sealed under token `seal`'s key, echoing `blob`. True if it connected.
fn respond(w: &mut World, ctx: &Ctx, out: &mut Outcome, si: usize, from: SocketAddr, seal: usize, blob: &Blob, tag: &str) -> bool {
    let d = response_bytes(w.protocol, 1, &w.toks[seal].c2s(), blob);
    matches!(deliver(w, ctx, out, si, from, &d, tag), SResult::Connected { .. })
}

fn refused(w: &mut World, out: &mut Outcome, class: &str, connected: bool) {
    if !connected && !w.stop {
        out.count(&format!("refused.{class}"));
        w.refused += 1;
    }
}

fn disconnect(w: &mut World, si: usize, id: u64) {
    if w.srv[si].s.is_client_connected(id) {
        let _ = w.srv[si].disconnect(id);
        w.hist.push(format!("srv{} disconnect({})", si, id));
    }
}

fn honest_connect(w: &mut World, ctx: &Ctx, out: &mut Outcome, r: &mut Rng) -> Option<(usize, SocketAddr, Vec<Vec<u8>>)> {
    let id = w.fresh_id();
    let exp = w.now_s() + 30;
    let ti = w.mint(r, id, exp, None, None, None, None);
    let addr = w.fresh_addr(r);
    let mut cli = match Cli::new(w.srv[0].now, w.toks[ti].m.clone(), addr) {
        Ok(c) => c,
        Err(e) => {
            out.inconclusive(&format!("C05: honest client construction failed: {e}"));
            return None;
        }
    };
    let dt = Duration::from_millis(*r.pick(&[10u64, 50, 100]));
    let mut sent = Vec::new();
    for _ in 0..40 {
        w.srv[0].update(dt);
        if let Some((b, to)) = cli.update(dt) {
            if to == w.saddr {
                sent.push(b.clone());
                let res = deliver(w, ctx, out, 0, addr, &b, "honest-client");
                if let Some((dst, reply)) = res.outgoing() {
                    if dst == addr {
                        cli.process(reply);
                    }
                }
            }
        }
        if w.stop {
            return None;
        }
        if cli.c.is_connected() && w.srv[0].s.is_client_connected(id) {
            out.count("honest_connects");
            w.honest += 1;
            return Some((ti, addr, sent));
        }
    }
    out.count("honest_connect_failed");
    None
}

pub fn one_run(ctx: &Ctx, out: &mut Outcome, run_seed: u64) {
    let mut r = Rng::new(run_seed);
    let protocol = r.next_u64();
    let key = rkey(&mut r);
    let saddr = addr4(0, 0, 5000);
    let now = Duration::from_millis(2_000_000 + r.below(1000));
    let maxc = *r.pick(&[4usize, 8, 16, 64]);
    let mut w = World {
        srv: vec![Srv::new(now, maxc, protocol, vec![saddr], key, true), Srv::new(now, maxc, protocol, vec![saddr], key, true)],
        protocol,
        key,
        saddr,
        toks: Vec::new(),
        presented: HashMap::new(),
        first_presented: HashMap::new(),
        first_answered: HashMap::new(),
        issued: vec![HashMap::new(), HashMap::new()],
        blobs: Vec::new(),
        hist: Hist::default(),
        fp: Fnv::new(),
        run_seed,
        next_addr: 0,
        last_addr: None,
        host_of_last_addr_reused: false,
        next_id: 1000 + r.below(1000),
        refused: 0,
        honest: 0,
        stop: false,
        link_local_twins: 0,
    };

    // the scripted repertoire in a seeded order
    let mut scripts: Vec<u32> = (0..14).collect();
    if r.chance(1, 12) {
        scripts.push(14);
    }
    r.shuffle(&mut scripts);
    scripts.insert(0, 100); // an honest connect first: the attacker observes it
    let mut observed: Option<(usize, SocketAddr, Vec<Vec<u8>>)> = None;
    for sc in scripts {
        if w.stop {
            break;
        }
        // free slots between scripts so that a full server is not the reason of a refusal
        for id in w.srv[0].s.clients_id() {
            if r.chance(2, 3) || w.srv[0].s.connected_clients() + 3 >= maxc {
                disconnect(&mut w, 0, id);
            }
        }
        let exp = w.now_s() + 30;
        match sc {
            100 => observed = honest_connect(&mut w, ctx, out, &mut r),
            0 => {
                honest_connect(&mut w, ctx, out, &mut r);
            }
            1 => {
                // hand-driven honest handshake: the attacker's crafting path is a working handshake
                let id = w.fresh_id();
                let t = w.mint(&mut r, id, exp, None, None, None, None);
                let x = w.fresh_addr(&mut r);
                if let Some(b) = request(&mut w, ctx, out, 0, t, x, "manual-request") {
                    if respond(&mut w, ctx, out, 0, x, t, &b, "manual-response") {
                        out.count("manual_connects");
                    }
                }
            }
            2 => {
                // expiry boundary: floor(t) = expire-1 connects, = expire and = expire+1 do not
                let s = w.now_s();
                let mut first: Option<(usize, SocketAddr, u64)> = None;
                for delta in [1i64, 0, -1] {
                    let id = w.fresh_id();
                    let t = w.mint(&mut r, id, (s as i64 + delta) as u64, None, None, None, None);
                    let x = w.fresh_addr(&mut r);
                    let ch = request(&mut w, ctx, out, 0, t, x, "expiry-request");
                    let mut conn = false;
                    if let Some(b) = &ch {
                        conn = respond(&mut w, ctx, out, 0, x, t, b, "expiry-response");
                    } else if let Some((_, b)) = w.blobs.last().cloned() {
                        conn = respond(&mut w, ctx, out, 0, x, t, &b, "expiry-response-with-owned-challenge");
                    }
                    match delta {
                        1 => {
                            if conn {
                                out.count("accepted.expire_minus_1");
                            }
                            first = Some((t, x, id));
                        }
                        0 => refused(&mut w, out, "expired_at_expire", conn || ch.is_some()),
                        _ => refused(&mut w, out, "expired_after", conn || ch.is_some()),
                    }
                }
                // one second later the first token, from the same address, is expired as well
                if let Some((t, x, id)) = first {
                    disconnect(&mut w, 0, id);
                    w.srv[0].update(Duration::from_millis(1000));
                    w.srv[1].update(Duration::from_millis(1000));
                    w.hist.push("srv0 update(1000 ms)".into());
                    let again = request(&mut w, ctx, out, 0, t, x, "expired-now-request").is_some();
                    refused(&mut w, out, "expired_at_expire", again);
                }
            }
            3 => {
                // every single-field corruption of the request
                let id = w.fresh_id();
                let t = w.mint(&mut r, id, exp, None, None, None, None);
                let req = w.toks[t].req.clone();
                // layout: prefix 1 | version 13 | protocol 8 | expire 8 | xnonce 24 | data 1024
                let mut variants: Vec<(&str, Vec<u8>)> = Vec::new();
                let mut flip = |name: &'static str, pos: usize, mask: u8| {
                    let mut v = req.clone();
                    v[pos] ^= mask;
                    variants.push((name, v));
                };
                flip("version", 1 + r.usize_below(13), 1 << r.below(8));
                flip("protocol", 14 + r.usize_below(8), 1 << r.below(8));
                flip("expire+1", 22, 1);
                flip("expire-high", 22 + r.urange(1, 7), 1 << r.below(8));
                flip("xnonce", 30 + r.usize_below(24), 1 << r.below(8));
                flip("token-head", 54, 1 << r.below(8));
                flip("token-middle", 54 + r.urange(1, 1006), 1 << r.below(8));
                flip("token-mac", 54 + 1008 + r.usize_below(16), 1 << r.below(8));
                let mut z = req.clone();
                for b in z[54..].iter_mut() {
                    *b = 0;
                }
                variants.push(("token-zeroed", z));
                let mut tr = req.clone();
                tr.truncate(r.urange(18, req.len() - 1));
                variants.push(("truncated", tr));
                for (name, v) in variants {
                    let x = w.fresh_addr(&mut r);
                    let res = deliver(&mut w, ctx, out, 0, x, &v, &format!("corrupt-{name}"));
                    let answered = res.outgoing().is_some();
                    let mut conn = false;
                    let own = res.outgoing().and_then(|(_, rep)| challenge_of(rep, w.protocol, &w.toks[t].s2c()));
                    if let Some(b) = own.or_else(|| w.blobs.last().map(|x| x.1.clone())) {
                        conn = respond(&mut w, ctx, out, 0, x, t, &b, "response-after-corrupt-request");
                    }
                    if answered {
                        out.count("corrupt_request_answered");
                    }
                    refused(&mut w, out, "corrupt_field", conn || answered);
                }
                // sampled single-bit flips anywhere
                for _ in 0..12 {
                    let mut v = req.clone();
                    let bit = r.usize_below(8 * v.len());
                    v[bit / 8] ^= 1 << (bit % 8);
                    let x = w.fresh_addr(&mut r);
                    let res = deliver(&mut w, ctx, out, 0, x, &v, "bitflip-request");
                    if let Some(b) = res.outgoing().and_then(|(_, rep)| challenge_of(rep, w.protocol, &w.toks[t].s2c())) {
                        // legitimate only if the flip left the token untouched (framing bits); the oracle decides
                        out.count("bitflip_request_answered");
                        respond(&mut w, ctx, out, 0, x, t, &b, "response-after-bitflip-request");
                        disconnect(&mut w, 0, id);
                    } else {
                        refused(&mut w, out, "bitflip", false);
                    }
                }
                // the pristine token still works afterwards (observation only)
                let x = w.fresh_addr(&mut r);
                if !w.first_presented.contains_key(&(0, t)) {
                    if let Some(b) = request(&mut w, ctx, out, 0, t, x, "pristine-after-corruptions") {
                        if respond(&mut w, ctx, out, 0, x, t, &b, "pristine-response") {
                            out.count("connect_after_corrupt_variants");
                        }
                    }
                }
            }
            4 => {
                // foreign key / foreign protocol (three flavours) / wrong host list
                let fk = rkey(&mut r);
                let other_host = vec![addr4(0, 1, 5000), addr4(0, 0, 5001)];
                // one bit of any of the eight bytes of the protocol id (the sealed data must bind all of it)
                let fp = protocol ^ (1u64 << r.below(64));
                let specs: Vec<(&str, Option<[u8; 32]>, Option<u64>, Option<u64>, Option<Vec<SocketAddr>>)> = vec![
                    ("foreign_key", Some(fk), None, None, None),
                    ("foreign_protocol", None, Some(fp), None, None),
                    ("foreign_protocol", None, Some(fp), Some(protocol), None),
                    ("foreign_protocol", None, None, Some(fp), None),
                    ("wrong_host", None, None, None, Some(other_host)),
                    ("wrong_host", None, None, None, Some(super::netcode_util::near_hosts(&mut r, &[w.saddr]))),
                ];
                for (class, k, aadp, pubp, hosts) in specs {
                    let id = w.fresh_id();
                    let pubp = pubp.or(aadp);
                    let t = w.mint(&mut r, id, exp, k, aadp, pubp, hosts);
                    let x = w.fresh_addr(&mut r);
                    let ch = request(&mut w, ctx, out, 0, t, x, class);
                    let mut conn = false;
                    if let Some(b) = ch.clone().or_else(|| w.blobs.last().map(|x| x.1.clone())) {
                        conn = respond(&mut w, ctx, out, 0, x, t, &b, "response-after-invalid-token");
                    }
                    refused(&mut w, out, class, conn || ch.is_some());
                }
            }
            5 => {
                // token replayed from a second address, before and after the first one completed
                let id = w.fresh_id();
                let t = w.mint(&mut r, id, exp, None, None, None, None);
                let (x, y) = (w.fresh_addr(&mut r), w.fresh_addr(&mut r));
                if let Some(bx) = request(&mut w, ctx, out, 0, t, x, "token-first-address") {
                    let wait = *r.pick(&[0u64, 10, 300, 1100]);
                    if wait > 0 {
                        w.srv[0].update(Duration::from_millis(wait));
                        w.srv[1].update(Duration::from_millis(wait));
                        w.hist.push(format!("srv0 update({} ms)", wait));
                    }
                    let ch = request(&mut w, ctx, out, 0, t, y, "token-second-address");
                    let c1 = respond(&mut w, ctx, out, 0, y, t, ch.as_ref().unwrap_or(&bx), "response-second-address");
                    refused(&mut w, out, "token_replay_other_address", c1);
                    if r.chance(1, 2) {
                        respond(&mut w, ctx, out, 0, x, t, &bx, "response-first-address");
                        if r.chance(1, 2) {
                            disconnect(&mut w, 0, id);
                        }
                        let ch = request(&mut w, ctx, out, 0, t, y, "token-second-address-after-connect");
                        let c2 = respond(&mut w, ctx, out, 0, y, t, ch.as_ref().unwrap_or(&bx), "response-second-address-after-connect");
                        refused(&mut w, out, "token_replay_other_address", c2);
                    }
                }
            }
            6 => {
                // response from another address: unknown, and half-open for another token of the attacker
                let (i1, i2) = (w.fresh_id(), w.fresh_id());
                let t1 = w.mint(&mut r, i1, exp, None, None, None, None);
                let t2 = w.mint(&mut r, i2, exp, None, None, None, None);
                let (x, z, u) = (w.fresh_addr(&mut r), w.fresh_addr(&mut r), w.fresh_addr(&mut r));
                if let Some(b1) = request(&mut w, ctx, out, 0, t1, x, "request") {
                    let c = respond(&mut w, ctx, out, 0, u, t1, &b1, "response-from-unknown-address");
                    refused(&mut w, out, "response_other_address", c);
                    if request(&mut w, ctx, out, 0, t2, z, "request-other-token").is_some() {
                        let c = respond(&mut w, ctx, out, 0, z, t1, &b1, "response-from-other-halfopen-address-own-key");
                        refused(&mut w, out, "response_other_address", c);
                    }
                }
            }
            7 => {
                // F10 shape: challenges cross-used between two half-open sessions the attacker owns
                let (i1, i2) = (w.fresh_id(), w.fresh_id());
                let t1 = w.mint(&mut r, i1, exp, None, None, None, None);
                let t2 = w.mint(&mut r, i2, exp, None, None, None, None);
                let (x, z) = (w.fresh_addr(&mut r), w.fresh_addr(&mut r));
                let b1 = request(&mut w, ctx, out, 0, t1, x, "request-id1");
                let b2 = request(&mut w, ctx, out, 0, t2, z, "request-id2");
                if let (Some(_b1), Some(b2)) = (b1, b2) {
                    let c = respond(&mut w, ctx, out, 0, x, t1, &b2, "cross-challenge");
                    refused(&mut w, out, "cross_challenge", c);
                }
                // one address presenting two tokens: the reply to the second is a challenge for the second id
                let (i3, i4) = (w.fresh_id(), w.fresh_id());
                let t3 = w.mint(&mut r, i3, exp, None, None, None, None);
                let t4 = w.mint(&mut r, i4, exp, None, None, None, None);
                let y = w.fresh_addr(&mut r);
                if request(&mut w, ctx, out, 0, t3, y, "request-id3").is_some() {
                    if let Some(b4) = request(&mut w, ctx, out, 0, t4, y, "request-id4-same-address") {
                        let c = respond(&mut w, ctx, out, 0, y, t3, &b4, "cross-challenge-same-address");
                        refused(&mut w, out, "cross_challenge", c);
                    }
                }
            }
            8 => {
                // two tokens with the same client id and different user data, half-open at two addresses
                let id = w.fresh_id();
                let ta = w.mint(&mut r, id, exp, None, None, None, None);
                let tb = w.mint(&mut r, id, exp, None, None, None, None);
                let (x, y) = (w.fresh_addr(&mut r), w.fresh_addr(&mut r));
                let ba = request(&mut w, ctx, out, 0, ta, x, "request-id-token-a");
                let bb = request(&mut w, ctx, out, 0, tb, y, "request-id-token-b");
                if let (Some(_), Some(bb)) = (ba, bb) {
                    let c = respond(&mut w, ctx, out, 0, x, ta, &bb, "cross-challenge-same-id");
                    refused(&mut w, out, "cross_challenge_same_id", c);
                }
            }
            9 => {
                // stale challenge from another server instance (same key, protocol, address)
                let id = w.fresh_id();
                let t = w.mint(&mut r, id, exp, None, None, None, None);
                let x = w.fresh_addr(&mut r);
                let stale = request(&mut w, ctx, out, 1, t, x, "request-at-other-instance");
                let fresh = request(&mut w, ctx, out, 0, t, x, "request");
                if let (Some(stale), Some(fresh)) = (stale, fresh) {
                    let c = respond(&mut w, ctx, out, 0, x, t, &stale, "stale-challenge");
                    refused(&mut w, out, "stale_challenge_other_instance", c);
                    if r.chance(1, 2) {
                        respond(&mut w, ctx, out, 0, x, t, &fresh, "response");
                    }
                }
            }
            10 => {
                // corrupted challenges
                let id = w.fresh_id();
                let t = w.mint(&mut r, id, exp, None, None, None, None);
                let x = w.fresh_addr(&mut r);
                if let Some(b) = request(&mut w, ctx, out, 0, t, x, "request") {
                    for k in 0..4 {
                        let mut bad = b.clone();
                        match k {
                            0 => bad.0 = bad.0.wrapping_add(1),
                            1 => bad.1[r.usize_below(8)] ^= 1 << r.below(8),
                            2 => bad.1[8 + r.usize_below(256)] ^= 1 << r.below(8),
                            _ => bad.1[284 + r.usize_below(16)] ^= 1 << r.below(8),
                        }
                        let c = respond(&mut w, ctx, out, 0, x, t, &bad, "corrupt-challenge");
                        refused(&mut w, out, "corrupt_challenge", c);
                        if w.srv[0].snapshot().pending.iter().all(|p| p.0 != x) {
                            out.count("pending_dropped_by_bad_response");
                            break;
                        }
                    }
                }
            }
            13 => {
                // a token the server has seen (and answered) while it was valid does not stay authenticated: after its
                // expiry the same request with a rewritten header (expiry pushed into the future, nonce or sealed
                // bytes changed while the trailing MAC stays) comes from the same address, followed by a response
                let id = w.fresh_id();
                let e = w.now_s() + 2;
                let t = w.mint(&mut r, id, e, None, None, None, None);
                let x = w.fresh_addr(&mut r);
                let first = request(&mut w, ctx, out, 0, t, x, "short-lived-request-while-valid");
                if first.is_some() && r.chance(1, 2) {
                    // sometimes the genuine handshake completes and the session ends again
                    if respond(&mut w, ctx, out, 0, x, t, first.as_ref().unwrap(), "short-lived-response-while-valid") {
                        disconnect(&mut w, 0, id);
                    }
                }
                if r.chance(1, 2) {
                    // repeats while valid (what a waiting client does)
                    let _ = request(&mut w, ctx, out, 0, t, x, "short-lived-request-repeated");
                }
                let ms = *r.pick(&[2000u64, 2500, 4000]);
                w.srv[0].update(Duration::from_millis(ms));
                w.srv[1].update(Duration::from_millis(ms));
                w.hist.push(format!("srv0/1 update({} ms): the token is expired", ms));
                let req = w.toks[t].req.clone();
                let mut variants: Vec<(&str, Vec<u8>)> = Vec::new();
                let mut v = req.clone();
                let future = (w.now_s() + 1000).to_le_bytes();
                v[22..30].copy_from_slice(&future);
                variants.push(("expiry-rewritten", v.clone()));
                v[30 + r.usize_below(24)] ^= 1 << r.below(8);
                variants.push(("expiry-and-nonce-rewritten", v));
                let mut v = req.clone();
                v[22..30].copy_from_slice(&future);
                v[54 + r.usize_below(1008)] ^= 1 << r.below(8);
                variants.push(("expiry-rewritten-sealed-bytes-changed", v));
                variants.push(("unchanged-after-expiry", req.clone()));
                for (name, v) in variants {
                    let res = deliver(&mut w, ctx, out, 0, x, &v, &format!("seen-while-valid-{name}"));
                    let answered = res.outgoing().is_some();
                    let own = res.outgoing().and_then(|(_, rep)| challenge_of(rep, w.protocol, &w.toks[t].s2c()));
                    let mut conn = false;
                    if let Some(b) = own.or(first.clone()) {
                        conn = respond(&mut w, ctx, out, 0, x, t, &b, "response-after-forged-expiry");
                    }
                    if answered {
                        out.count("forged_expiry_request_answered");
                    }
                    refused(&mut w, out, "forged_expiry_after_valid_sighting", conn);
                }
            }
            14 => {
                // the record "token T was used from X" survives any number of requests that carry no valid token: T
                // completes a handshake from X, the session ends, more than 2048 well-formed but unauthenticated
                // requests arrive (random bytes in place of the sealed token, distinct trailing MACs), then T's recorded
                // request and response are replayed from Y
                let id = w.fresh_id();
                let t = w.mint(&mut r, id, exp + 600, None, None, None, None);
                let x = w.fresh_addr(&mut r);
                let Some(b) = request(&mut w, ctx, out, 0, t, x, "flood-victim-request") else { continue };
                let connected = respond(&mut w, ctx, out, 0, x, t, &b, "flood-victim-response");
                if connected {
                    disconnect(&mut w, 0, id);
                }
                w.srv[0].update(Duration::from_millis(1000 + r.below(2000)));
                w.srv[1].update(Duration::from_millis(1000));
                let n = 2048 + r.urange(1, 150);
                let mut answered = 0;
                w.hist.push(format!("{} requests with random bytes in place of the sealed token follow (distinct addresses)", n));
                for j in 0..n {
                    let mut data = Box::new([0u8; 1024]);
                    r.fill(&mut data[..]);
                    let mut xnonce = [0u8; 24];
                    r.fill(&mut xnonce);
                    let d = OPacket::Request { version_info: crate::nsim::VERSION_INFO, protocol_id: w.protocol, expire_timestamp: w.now_s() + 600, xnonce, data }
                        .encode(w.protocol, None)
                        .expect("request encode");
                    let from = addr4(70 + (j / 250) as u8, (j % 250) as u8, 47_000);
                    // straight to the server: 2000 more history lines would only bury the witness
                    if w.srv[0].process(from, &d).outgoing().is_some() {
                        answered += 1;
                    }
                }
                out.count("unauthenticated_flood_scripts");
                if answered > 0 {
                    out.count("unauthenticated_flood_requests_answered");
                }
                let y = w.fresh_addr(&mut r);
                let again = request(&mut w, ctx, out, 0, t, y, "flood-victim-request-replayed-from-other-address");
                let mut conn = false;
                if let Some(b2) = again.clone().or(Some(b.clone())) {
                    conn = respond(&mut w, ctx, out, 0, y, t, &b2, "flood-victim-response-replayed-from-other-address");
                }
                refused(&mut w, out, "replay_from_other_address_after_unauthenticated_flood", conn || again.is_some());
            }
            11 => {
                // datagrams of an honest client observed on the wire, replayed from another address
                if let Some((ti, addr, sent)) = observed.clone() {
                    let id = w.toks[ti].id();
                    if r.chance(1, 2) {
                        disconnect(&mut w, 0, id);
                    }
                    let y = w.fresh_addr(&mut r);
                    let mut conn = false;
                    for d in sent.iter() {
                        conn |= matches!(deliver(&mut w, ctx, out, 0, y, d, "observed-replayed-from-other-address"), SResult::Connected { .. });
                    }
                    refused(&mut w, out, "observed_replay", conn);
                    let _ = addr;
                }
            }
            _ => {
                // pending entry outlives nothing: request, let the token expire, respond
                let id = w.fresh_id();
                let e = w.now_s() + 1;
                let t = w.mint(&mut r, id, e, None, None, None, None);
                let x = w.fresh_addr(&mut r);
                // sometimes the same address first presented another, long-lived token (a client that restarted with a
                // fresh token): the half-open session then belongs to the short-lived one, expiry included
                if r.chance(1, 2) {
                    let id0 = if r.chance(1, 2) { id } else { w.fresh_id() };
                    let e0 = w.now_s() + 60;
                    let t0 = w.mint(&mut r, id0, e0, None, None, None, None);
                    let _ = request(&mut w, ctx, out, 0, t0, x, "request-long-lived-first");
                    out.count("late_response_after_superseded_long_lived_token");
                }
                if let Some(b) = request(&mut w, ctx, out, 0, t, x, "request-short-lived") {
                    // the clock passes the expiry in one step or in many sub-second steps (frame-sized updates)
                    let step = *r.pick(&[2100u64, 1050, 700, 100, 16, 999, 1]);
                    // 1000 ms lands inside the expiry second itself, 2100 ms beyond it
                    let total = *r.pick(&[1000u64, 2100]);
                    if total == 1000 {
                        out.count("late_response_in_expiry_second");
                    }
                    let mut left = total;
                    while left > 0 {
                        let d = step.min(left);
                        w.srv[0].update(Duration::from_millis(d));
                        w.srv[1].update(Duration::from_millis(d));
                        left -= d;
                    }
                    w.hist.push(format!("srv update {} ms in steps of {} ms", total, step));
                    if step < 1000 {
                        out.count("late_response_subsecond_steps");
                    }
                    let c = respond(&mut w, ctx, out, 0, x, t, &b, "response-after-pending-expired");
                    if !c {
                        out.count("late_response_ignored");
                    }
                }
            }
        }
    }

    // random exploration over everything collected so far
    let nops = r.range(40, 160);
    let mut addrs: Vec<SocketAddr> = (0..6).map(|_| w.fresh_addr(&mut r)).collect();
    for (k, v) in w.first_presented.iter() {
        if k.0 == 0 && addrs.len() < 14 {
            addrs.push(*v);
        }
    }
    addrs.sort();
    let exp = w.now_s() + 20;
    let mut mine: Vec<usize> = Vec::new();
    for k in 0..6 {
        let id = if k >= 4 { w.toks[mine[k - 4]].id() } else { w.fresh_id() };
        mine.push(w.mint(&mut r, id, exp, None, None, None, None));
    }
    let all: Vec<usize> = (0..w.toks.len()).collect();
    for _ in 0..nops {
        if w.stop || ctx.over_budget() {
            break;
        }
        match r.below(10) {
            0..=3 => {
                let t = if r.chance(3, 4) { *r.pick(&mine) } else { *r.pick(&all) };
                let x = *r.pick(&addrs);
                request(&mut w, ctx, out, 0, t, x, "random-request");
                out.count("random.request");
            }
            4..=7 => {
                if w.blobs.is_empty() {
                    continue;
                }
                let x = *r.pick(&addrs);
                // seal with the key of the token half-open at x when there is one (otherwise any)
                let pend = w.srv[0].snapshot().pending;
                let seal = pend
                    .iter()
                    .find(|p| p.0 == x)
                    .and_then(|p| mine.iter().copied().filter(|t| w.toks[*t].id() == p.1).last())
                    .filter(|_| r.chance(4, 5))
                    .unwrap_or_else(|| *r.pick(&mine));
                let n = w.blobs.len();
                let b = w.blobs[if r.chance(1, 2) { n - 1 - r.usize_below(n.min(6)) } else { r.usize_below(n) }].1.clone();
                if respond(&mut w, ctx, out, 0, x, seal, &b, "random-response") {
                    out.count("random.connected");
                }
                out.count("random.response");
            }
            8 => {
                let ms = *r.pick(&[10u64, 16, 100, 300, 300, 999, 1000, 2500]);
                w.srv[0].update(Duration::from_millis(ms));
                w.hist.push(format!("srv0 update({} ms)", ms));
            }
            _ => {
                let ids = w.srv[0].s.clients_id();
                if !ids.is_empty() {
                    let id = *r.pick(&ids);
                    disconnect(&mut w, 0, id);
                }
            }
        }
    }

    if w.honest == 0 && !w.stop {
        out.inconclusive("C05: no honest connect in a run (a server refusing everything would pass)");
    }
    out.max("tokens_per_server", w.toks.len() as u64);
    if w.link_local_twins > 0 {
        out.add("addresses_differing_in_the_ipv6_zone_only", w.link_local_twins);
    }
    if w.host_of_last_addr_reused {
        out.count("runs_with_same_host_other_port");
    }
    let nontrivial = w.honest > 0 && w.refused >= 10;
    out.eval(w.fp.finish(), nontrivial);
    if nontrivial && out.samples.len() < out.max_samples {
        out.sample(json!({
            "run_seed": format!("{:#x}", run_seed), "tokens": w.toks.len(), "refused_attempts": w.refused, "honest_connects": w.honest,
            "operations": w.hist.total, "first_operations": w.hist.head.iter().take(10).collect::<Vec<_>>(),
        }));
    }
}
