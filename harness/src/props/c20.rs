//! C20 the real UDP netcode transports keep message layer and handshake layer in lock-step,
//! across an in-path relay that drops / duplicates / reorders / replays / corrupts datagrams.

use crate::nsim;
use crate::outcome::{Ctx, Outcome, PropInfo};
use crate::payload;
use crate::rng::{mix, Fnv, Rng};
use crate::watchdog;
use bytes::Bytes;
use renet::{ChannelConfig, ConnectionConfig, DisconnectReason, RenetClient, RenetServer, SendType, ServerEvent};
use renet_netcode::{ClientAuthentication, NetcodeClientTransport, NetcodeServerTransport, ServerAuthentication, ServerConfig};
use serde_json::json;
use std::collections::{BTreeMap, BTreeSet, HashMap};
use std::net::{SocketAddr, UdpSocket};
use std::time::Duration;

pub static INFO: PropInfo = PropInfo {
    id: "C20",
    level: "exploration",
    rule: "one evaluation = one session of the real NetcodeServerTransport and 1-5 NetcodeClientTransports over 127.0.0.1 UDP sockets, single-threaded with virtual durations, through an in-path relay (one front socket the clients believe is the server, one back socket per client) that applies a seeded schedule to the real datagrams: drop, duplicate, delay / reorder, replay of old datagrams, bit corruption; applications submit messages on all three channel kinds both ways, disconnect from either side / either layer at seeded ticks, and reconnect with the same client id; secure and unsecure authentication; in a third of the secure runs the connect tokens live 2-8 s only, so sessions outlive the token they were established with (a client whose token ran out before it connected is owed nothing). Oracles: right after every NetcodeServerTransport::update the server has no disconnected-but-present connection, the message layer's connected ids equal the ids the transport has an address for, and both counts agree; ServerEvents per id alternate Connected/Disconnected starting with Connected; every application- or peer-initiated disconnect is visible on the other side within timeout + 1 s of virtual time; every obtained message is a byte-identical submission of the same client / channel, in order on ordered channels and at most once on reliable ones; in interference-only runs (every timeout window sees a genuine datagram delivered each way) no session ends unless an application asked for it; every datagram seen by the relay is <= 1400 bytes. Non-trivial = the relay interfered (drop/dup/delay/replay/corrupt) AND at least one client connected AND at least one disconnect was propagated; distinct = fingerprints of the session history (connects, disconnects, message counts). Half of the same-id reconnects of secure runs reach the server from the SAME address as the previous session (the relay keeps its socket: a NAT mapping that is still there), and the relay replays the recorded connection request of the previous token (still valid, sealed for this server) into the new session up to three times: it is not this session's business and ends nothing. Client transports count time from their own origin (sometimes an hour or a day ahead of the server). One client in eight runs is MISCONFIGURED: built with one send channel more than the server knows; its first message on that channel makes the server's message layer drop the connection while the transport is reading the socket, and right after that very update both layers must agree. In a quarter of the runs a STRANGER (no token, no handshake) sends the server's socket one to four datagrams every tick, zero-length ones and a single byte: they belong to nobody and hold nobody up. In a fifth of the hostile runs one client is HASTY: the relay holds its Response datagrams back, its application disconnects as soon as one has left, and the relay releases the responses together with the Disconnect datagram - the server sees the completed handshake and its end within one transport update and must report ClientConnected before ClientDisconnected. In half of the clean-relay runs one client (with an id of its own) is MUTED: the relay drops every server-to-client session datagram for it, so the server holds its session while the client is still answering the challenge; its application then disconnects (client or transport API) and the server side must be gone within 6 ticks. A quarter of the runs end their fault phase with a SERVER SHUTDOWN: 0-2 message-layer kicks (RenetServer::disconnect) are left pending and NetcodeServerTransport::disconnect_all is called in the same frame; the netcode layer must be empty at once, every session gets its ClientDisconnected and every client ends. At the end of every run the last event per id must agree with both layers. A third of the runs also have a HOST PLAYER: a local client of the same RenetServer (new_local_client, pumped with process_local_client every tick after the transport's send_packets) exchanging ordered messages with the server; it has no netcode session (excluded from the lock-step comparison), must never be reported disconnected, and its ordered streams must be complete and in order at the end of the run. One run in 16 is a VANISHED-SERVER run instead: one client (its UDP socket connected to the server's address in 2 of 3 runs) and a server transport, direct; after some traffic the server transport is dropped (socket closed) and the client, still being updated and still sending, must be disconnected within timeout + 1 s of virtual time. During the fault phase the client limit is changed at run time now and then (set_max_clients(1..8), also below the number connected): the lock-step comparison must keep holding, nobody loses a session for it. A quarter of the runs with two or more clients are CROWDED: one slot too few at first, so somebody is denied; the relay holds half of the ConnectionDenied datagrams back, the server application frees a slot at tick 10, and a client that got in afterwards is shown its stale denial, which must not end its session. One run in 20 is a TWO-SERVERS run: a token lists two servers sharing the private key on one host; the first (behind a relay socket) accepts the client and streams, but everything after its challenge is held back; the client fails over to the second server; then the held datagrams of the first are delivered from the first address: the client application must obtain only what the second server submitted. One run in 24 has TIMEOUTS DISABLED (token timeout -1, -5 or i32::MIN): one client and the server transports, direct; after some traffic one side is not updated for 1.5-8 s of the other side's virtual time; nobody may be disconnected, no ClientDisconnected may be reported, and ordered messages submitted after the pause arrive both ways. An identified unreliable message is obtained at most once across the full stack (its datagrams are generated once and netcode surfaces each at most once).",
    assumptions: &[
        "single-threaded endpoints, loopback delivery is effectively synchronous; a datagram the relay misses arrives one tick later (a legal delay)",
        "bounds are on virtual time (durations passed to update), never wall-clock",
        "the relay does not replay a client's handshake datagrams (request / response): doing so legitimately starts a new session for a still valid token, which the per-generation ledgers do not model",
    ],
    gates: &[
        ("lockstep_checked", 2000),
        ("clients_connected", 100),
        ("disconnect_by_server_app", 5),
        ("disconnect_by_client_app", 5),
        ("disconnect_by_client_transport", 3),
        ("disconnect_propagated", 20),
        ("reconnect_same_id", 3),
        ("relay_dropped", 100),
        ("relay_duplicated", 50),
        ("relay_replayed", 20),
        ("relay_corrupted", 20),
        ("e2e_messages_obtained", 2000),
        ("interference_only_runs", 10),
        ("clean_relay_runs", 5),
        ("runs_with_same_id_twin", 20),
        ("silenced_client_timed_out", 5),
        ("disconnect_during_handshake_with_server_session", 5),
        ("shutdown_disconnect_all", 20),
        ("client_limit_changed_at_run_time", 50),
        ("stale_denied_shown_to_connected_client", 3),
        ("client_limit_lowered_below_connected", 5),
        ("host_player_liveness_checked", 50),
        ("vanished_server_runs_connected_socket", 20),
        ("two_servers_stale_datagrams_released", 20),
        ("shutdown_message_layer_kick_pending", 10),
    ],
    engines_quick: &["e1"],
    engines_thorough: &["e1", "e3"],
    run,
};

pub fn run(ctx: &Ctx, out: &mut Outcome) {
    super::run_loop(ctx, out, 2400, 100_000, 20, one_run);
}

const CH_U: u8 = 0;
const CH_RU: u8 = 1;
const CH_RO: u8 = 2;

fn conn_cfg(resend_ms: u64) -> ConnectionConfig {
    let chans = vec![
        ChannelConfig { channel_id: CH_U, max_memory_usage_bytes: 2 << 20, send_type: SendType::Unreliable },
        ChannelConfig { channel_id: CH_RU, max_memory_usage_bytes: 2 << 20, send_type: SendType::ReliableUnordered { resend_time: Duration::from_millis(resend_ms) } },
        ChannelConfig { channel_id: CH_RO, max_memory_usage_bytes: 2 << 20, send_type: SendType::ReliableOrdered { resend_time: Duration::from_millis(resend_ms) } },
    ];
    ConnectionConfig {
        available_bytes_per_tick: 60_000,
        server_channels_config: chans.clone(),
        client_channels_config: chans,
    }
}

#[derive(Default)]
struct Ledger {
    subs: Vec<Vec<u8>>,
    cursor: usize,
    obtained: BTreeSet<usize>,
}

struct Peer {
    transport: NetcodeClientTransport,
    client: RenetClient,
    id: u64,
    addr: SocketAddr,
    back: UdpSocket,
    generation: u32,
    /// the first connection request this client sent (recorded by the relay)
    first_request: Option<Vec<u8>>,
    /// the recorded request of the previous generation, which reached the server from the same relay socket (the same
    /// peer address: a reconnect through the same NAT mapping) with another, still valid token
    prev_request: Option<Vec<u8>>,
    prev_request_replays: u32,
    /// this client was built with one send channel more than the server knows (a version mismatch): the first message on
    /// it makes the server's message layer drop the connection while the transport is reading the socket
    misconfigured: bool,
    /// application-level state
    app_closed: bool,
    closed_at_ms: Option<u64>,
    closed_by: &'static str,
    token_expire_s: u64,
    connected_seen: bool,
    /// ClientConnected events seen for this generation; a second one means the server re-established
    /// a session from stale (delayed / duplicated) handshake datagrams of a still valid token, which
    /// the netcode protocol allows; the per-generation ledgers do not model that second session
    connect_events: u32,
    resurrected: bool,
    server_gone_seen: bool,
    client_gone_seen: bool,
    /// ledgers: [dir][ch]
    led: [[Ledger; 3]; 2],
    last_genuine_delivered_ms: [u64; 2],
    /// last genuine server->client keep-alive put on its way undisturbed: while the client is still answering the
    /// challenge only a keep-alive lets it progress, however many payloads arrive
    last_keepalive_forwarded_ms: u64,
    tag: u64,
}

const HOST_ID: u64 = 9_000_001;

struct Host {
    client: RenetClient,
    /// ordered channel both ways: [0] host -> server, [1] server -> host
    subs: [Vec<Vec<u8>>; 2],
    got: [usize; 2],
}

struct InFlight {
    at: u64,
    to_server: bool,
    peer: usize,
    generation: u32,
    bytes: Vec<u8>,
    genuine: bool,
    /// handed to the destination socket before everything else of its tick (the receiver has just emptied its
    /// socket, so the kernel cannot drop it for a full receive buffer however much the rest of the tick carries)
    first: bool,
}

struct World {
    server: RenetServer,
    st: NetcodeServerTransport,
    front: UdpSocket,
    server_addr: SocketAddr,
    peers: Vec<Peer>,
    flight: Vec<InFlight>,
    history: Vec<(bool, usize, Vec<u8>)>,
    now_ms: u64,
    tick: u64,
    log: Vec<String>,
    protocol: u64,
    key: [u8; 32],
    secure: bool,
    timeout_s: i32,
    /// life time of the connect tokens of this run: it bounds the handshake, never the session established with it
    token_life_s: u64,
    resend_ms: u64,
    /// per id: last event was Connected?
    ev_state: HashMap<u64, bool>,
    server_closed: HashMap<u64, (u64, &'static str)>,
    /// (peer, generation): the relay black-holes every genuine server->client datagram of this peer
    /// (as if the Disconnect and everything after it were lost) and keeps replaying a stale handshake
    /// datagram to it instead
    silenced: Option<(usize, u32)>,
    /// clean-relay scenario: every server->client session datagram (keep-alive, payload, disconnect) for this peer is
    /// dropped, so the server holds its session while the client is still answering the challenge
    muted: Option<usize>,
    /// a client whose responses the relay holds back until its Disconnect datagram shows up: the server then sees the
    /// completed handshake and the disconnect within one transport update
    hasty: Option<usize>,
    hasty_held: Vec<Vec<u8>>,
    /// a host that holds no token: it sends the server's socket empty (zero-length) and one-byte datagrams every tick
    stranger: Option<(UdpSocket, u64)>,
    misconfigured_id: Option<u64>,
    /// a host player: a LOCAL client of the same RenetServer (listen-server setup); it has no netcode session
    host: Option<Host>,
    /// ConnectionDenied datagrams the relay held back (peer, generation, bytes): the client keeps asking, gets in
    /// when a slot frees, and is then shown the stale denial
    withheld_denied: Vec<(usize, u32, Vec<u8>)>,
    /// peers that were shown a stale ConnectionDenied while connected (peer -> tick)
    stale_denied_shown: HashMap<usize, u64>,
    /// first server->client datagram seen per (peer, generation): a handshake reply (challenge)
    stale: HashMap<(usize, u32), Vec<u8>>,
}

fn bind() -> std::io::Result<UdpSocket> {
    let s = UdpSocket::bind("127.0.0.1:0")?;
    s.set_nonblocking(true)?;
    Ok(s)
}

impl World {
    fn log(&mut self, s: String) {
        if self.log.len() > 300 {
            self.log.drain(0..150);
        }
        self.log.push(format!("t{} {}", self.tick, s));
    }

    fn new_peer(&mut self, r: &mut Rng, id: u64, generation: u32) -> Result<Peer, String> {
        let sock = bind().map_err(|e| e.to_string())?;
        let addr = sock.local_addr().map_err(|e| e.to_string())?;
        let back = bind().map_err(|e| e.to_string())?;
        let front_addr = self.front.local_addr().map_err(|e| e.to_string())?;
        let now = Duration::from_millis(self.now_ms);
        let auth = if self.secure {
            let m = nsim::mint(r, self.now_ms / 1000, self.protocol, self.token_life_s, id, self.timeout_s, &[front_addr], None, &self.key);
            ClientAuthentication::Secure { connect_token: m.token }
        } else {
            ClientAuthentication::Unsecure {
                protocol_id: self.protocol,
                client_id: id,
                server_addr: front_addr,
                user_data: None,
            }
        };
        // a client transport counts time from wherever its application likes (here: sometimes an hour or a day ahead)
        let now = now + Duration::from_secs(*r.pick(&[0u64, 0, 3600, 86_400]));
        let transport = NetcodeClientTransport::new(now, auth, sock).map_err(|e| format!("{:?}", e))?;
        // one client in eight of generation 0 is misconfigured (never the muted / hasty one, never a twin)
        let misconfigured = generation == 0 && self.misconfigured_id == Some(id);
        let client = if misconfigured {
            let mut cfg = conn_cfg(self.resend_ms);
            cfg.client_channels_config.push(ChannelConfig { channel_id: 9, max_memory_usage_bytes: 1 << 16, send_type: SendType::ReliableOrdered { resend_time: Duration::from_millis(100) } });
            RenetClient::new(cfg)
        } else {
            RenetClient::new(conn_cfg(self.resend_ms))
        };
        Ok(Peer {
            transport,
            client,
            id,
            addr,
            back,
            generation,
            first_request: None,
            prev_request: None,
            prev_request_replays: 0,
            misconfigured,
            app_closed: false,
            closed_at_ms: None,
            closed_by: "",
            token_expire_s: self.now_ms / 1000 + self.token_life_s,
            connected_seen: false,
            connect_events: 0,
            resurrected: false,
            server_gone_seen: false,
            client_gone_seen: false,
            led: Default::default(),
            last_genuine_delivered_ms: [self.now_ms; 2],
            last_keepalive_forwarded_ms: 0,
            tag: r.next_u64(),
        })
    }
}

struct RelayCfg {
    loss: u64,
    dup: u64,
    delay: u64,
    max_delay: u64,
    replay: u64,
    corrupt: u64,
    interference_only: bool,
}

fn viol(ctx: &Ctx, out: &mut Outcome, w: &World, run_seed: u64, sig: &str, clause: &str, detail: String) {
    if ctx.replay_seed.is_some() {
        for l in w.log.iter().rev().take(40).rev() {
            eprintln!("    {l}");
        }
    }
    out.violation(
        ctx,
        sig,
        clause,
        detail,
        json!({"property": "C20", "engine": ctx.engine, "run_seed": format!("{:#x}", run_seed), "tick": w.tick, "now_ms": w.now_ms,
               "secure": w.secure, "timeout_s": w.timeout_s, "log_tail": w.log.iter().rev().take(80).rev().collect::<Vec<_>>()}),
    );
}

pub fn one_run(ctx: &Ctx, out: &mut Outcome, run_seed: u64) {
    let res = watchdog::catch(|| one_run_inner(ctx, out, run_seed));
    if let Err(c) = res {
        out.violation(
            ctx,
            &format!("C20/panic/{}", c.class),
            "the full stack runs without panicking",
            format!("panic in the UDP session: {} at {}", c.msg, c.loc),
            json!({"property": "C20", "engine": ctx.engine, "run_seed": format!("{:#x}", run_seed)}),
        );
    }
}

/// The server process vanishes (its socket is closed) while a client is connected. Nothing authentic arrives any
/// more, so the client must end through its timeout - also when its UDP socket is a *connected* one, on which the
/// operating system reports the ICMP "port unreachable" answers to its keep-alives as errors of the next receive
/// call (what every UDP socket does on Windows with WSAECONNRESET).
fn vanished_server_run(ctx: &Ctx, out: &mut Outcome, run_seed: u64, r: &mut Rng) {
    let timeout_s: i32 = *r.pick(&[2i32, 3]);
    let dt: u64 = *r.pick(&[16u64, 50, 100]);
    let connected_socket = r.chance(2, 3);
    let mut key = [0u8; 32];
    r.fill(&mut key);
    let protocol = r.next_u64();
    let (ssock, csock) = match (bind(), bind()) {
        (Ok(a), Ok(b)) => (a, b),
        _ => return out.inconclusive("C20: cannot bind loopback UDP sockets"),
    };
    let server_addr = ssock.local_addr().unwrap();
    if connected_socket && csock.connect(server_addr).is_err() {
        return out.inconclusive("C20: cannot connect the client's UDP socket");
    }
    let mut st = match NetcodeServerTransport::new(
        ServerConfig { current_time: Duration::ZERO, max_clients: 2, protocol_id: protocol, public_addresses: vec![server_addr], authentication: ServerAuthentication::Secure { private_key: key } },
        ssock,
    ) {
        Ok(s) => s,
        Err(e) => return out.inconclusive(&format!("C20: server transport: {e}")),
    };
    let mut server = RenetServer::new(conn_cfg(100));
    let id = 4711u64;
    let m = nsim::mint(r, 0, protocol, 600, id, timeout_s, &[server_addr], None, &key);
    let mut ct = match NetcodeClientTransport::new(Duration::ZERO, ClientAuthentication::Secure { connect_token: m.token }, csock) {
        Ok(t) => t,
        Err(e) => return out.inconclusive(&format!("C20: client transport: {:?}", e)),
    };
    let mut client = RenetClient::new(conn_cfg(100));
    let d = Duration::from_millis(dt);
    let mut log: Vec<String> = vec![format!("timeout {} s, tick {} ms, client socket connected: {}", timeout_s, dt, connected_socket)];
    let mut now_ms = 0u64;
    let mut up = false;
    for _ in 0..200 {
        now_ms += dt;
        server.update(d);
        let _ = st.update(d, &mut server);
        client.update(d);
        let _ = ct.update(d, &mut client);
        st.send_packets(&mut server);
        let _ = ct.send_packets(&mut client);
        if client.is_connected() && server.is_connected(id) {
            up = true;
            break;
        }
    }
    if !up {
        out.count("vanished_server_runs_void_no_session");
        out.eval(mix(&[0x7A, run_seed]), false);
        return;
    }
    // a little traffic both ways, then the server is gone
    for k in 0..r.range(2, 20) {
        now_ms += dt;
        client.send_message(CH_RO, Bytes::from(payload::make(1, 0, CH_RO, 0, k, 40, 1)));
        server.send_message(id, CH_RO, Bytes::from(payload::make(1, 1, CH_RO, 0, k, 40, 1)));
        server.update(d);
        let _ = st.update(d, &mut server);
        client.update(d);
        let _ = ct.update(d, &mut client);
        st.send_packets(&mut server);
        let _ = ct.send_packets(&mut client);
    }
    if !client.is_connected() {
        out.count("vanished_server_runs_void_no_session");
        out.eval(mix(&[0x7A, run_seed]), false);
        return;
    }
    drop(st);
    drop(server);
    let vanished_at = now_ms;
    log.push(format!("t={} ms: the server transport is dropped (socket closed)", now_ms));
    out.count("vanished_server_runs");
    if connected_socket {
        out.count("vanished_server_runs_connected_socket");
    }
    let chatty = r.chance(1, 2);
    log.push(format!("application after that: {}", if chatty { "keeps sending" } else { "idle" }));
    let deadline = vanished_at + timeout_s as u64 * 1000 + 1000 + 3 * dt;
    let mut io_errors = 0u64;
    while now_ms <= deadline {
        now_ms += dt;
        // a chatty application produces several datagrams per tick (a failing send then swallows the pending socket
        // error), an idle one only the single acknowledgement packet of the message layer
        if chatty && !client.is_disconnected() {
            client.send_message(CH_U, Bytes::from(vec![1u8; 30]));
        }
        if connected_socket {
            // real time for the loopback ICMP answer to the previous send to be queued on the socket (virtual time
            // decides, this only orders two kernel events)
            std::thread::sleep(Duration::from_micros(300));
        }
        client.update(d);
        if let Err(e) = ct.update(d, &mut client) {
            if format!("{:?}", e).contains("IO") || format!("{e}").to_lowercase().contains("refused") {
                io_errors += 1;
            }
            if std::env::var("RV_C20_DEBUG").is_ok() {
                eprintln!("update err {:?}", e);
            }
        }
        if let Err(e) = ct.send_packets(&mut client) {
            if std::env::var("RV_C20_DEBUG").is_ok() {
                eprintln!("send err {:?}", e);
            }
        }
        if client.is_disconnected() && ct.disconnect_reason().is_some() {
            out.count("vanished_server_client_timed_out");
            out.add("vanished_server_io_errors_seen", io_errors);
            out.eval(mix(&[0x7B, run_seed, io_errors.min(3)]), true);
            return;
        }
    }
    log.push(format!("t={} ms: client still connected (renet connected={}, netcode reason {:?}); {} transport updates returned an IO error", now_ms, client.is_connected(), ct.disconnect_reason(), io_errors));
    out.violation(
        ctx,
        &format!("C20/timeout-missed/client-transport/server-vanished/{}", if connected_socket { "connected-socket" } else { "unconnected-socket" }),
        "a session whose peer is gone ends on the surviving side through its timeout",
        format!("the server vanished at {} ms; at {} ms (timeout {} s) the client still reports connected; {} of its transport updates returned an IO error before advancing the netcode client's clock", vanished_at, now_ms, timeout_s, io_errors),
        json!({"property": "C20", "engine": ctx.engine, "run_seed": format!("{:#x}", run_seed), "mode": "vanished-server", "log": log}),
    );
}

/// A connect token with timeouts DISABLED (timeout_seconds < 0): one client and the server transports, direct. After
/// some traffic one side stops being updated for 1.5 - 8 s of the other side's virtual time (a suspended process, a
/// long frame) while the other side keeps running, so nothing authentic arrives there for far longer than any usual
/// timeout. Nobody asked for a disconnect and there is no timeout to run into: the session must still be there on both
/// sides, and messages submitted after the pause arrive.
fn timeouts_disabled_run(ctx: &Ctx, out: &mut Outcome, run_seed: u64, r: &mut Rng) {
    let timeout_s: i32 = *r.pick(&[-1i32, -1, -5, i32::MIN]);
    let dt: u64 = *r.pick(&[16u64, 50, 100]);
    let mut key = [0u8; 32];
    r.fill(&mut key);
    let protocol = r.next_u64();
    let (ssock, csock) = match (bind(), bind()) {
        (Ok(a), Ok(b)) => (a, b),
        _ => return out.inconclusive("C20: cannot bind loopback UDP sockets"),
    };
    let server_addr = ssock.local_addr().unwrap();
    let mut st = match NetcodeServerTransport::new(
        ServerConfig { current_time: Duration::ZERO, max_clients: 2, protocol_id: protocol, public_addresses: vec![server_addr], authentication: ServerAuthentication::Secure { private_key: key } },
        ssock,
    ) {
        Ok(s) => s,
        Err(e) => return out.inconclusive(&format!("C20: server transport: {e}")),
    };
    let mut server = RenetServer::new(conn_cfg(100));
    let id = 4712u64;
    let m = nsim::mint(r, 0, protocol, 600, id, timeout_s, &[server_addr], None, &key);
    let mut ct = match NetcodeClientTransport::new(Duration::ZERO, ClientAuthentication::Secure { connect_token: m.token }, csock) {
        Ok(t) => t,
        Err(e) => return out.inconclusive(&format!("C20: client transport: {:?}", e)),
    };
    let mut client = RenetClient::new(conn_cfg(100));
    let d = Duration::from_millis(dt);
    let mut log: Vec<String> = vec![format!("token timeout {} s (disabled), tick {} ms", timeout_s, dt)];
    let mut now_ms = 0u64;
    let mut events: Vec<String> = Vec::new();
    macro_rules! step {
        ($srv:expr, $cli:expr) => {{
            now_ms += dt;
            if $srv {
                server.update(d);
                let _ = st.update(d, &mut server);
                while let Some(e) = server.get_event() {
                    events.push(format!("t={} {:?}", now_ms, e));
                }
            }
            if $cli {
                client.update(d);
                let _ = ct.update(d, &mut client);
            }
            if $srv {
                st.send_packets(&mut server);
            }
            if $cli {
                let _ = ct.send_packets(&mut client);
            }
            // loopback delivery is asynchronous in principle: give the kernel a moment (virtual time decides)
            std::thread::sleep(Duration::from_micros(50));
        }};
    }
    let mut up = false;
    for _ in 0..200 {
        step!(true, true);
        if client.is_connected() && server.is_connected(id) {
            up = true;
            break;
        }
    }
    if !up {
        out.count("timeouts_disabled_runs_void_no_session");
        out.eval(mix(&[0x7C, run_seed]), false);
        return;
    }
    for k in 0..r.range(2, 20) {
        client.send_message(CH_RO, Bytes::from(payload::make(1, 0, CH_RO, 0, k, 40, 1)));
        server.send_message(id, CH_RO, Bytes::from(payload::make(1, 1, CH_RO, 0, k, 40, 1)));
        step!(true, true);
    }
    while client.receive_message(CH_RO).is_some() {}
    while server.receive_message(id, CH_RO).is_some() {}
    let pause_client = r.chance(1, 2);
    let pause_ms = r.range(1500, 8000);
    log.push(format!("t={} ms: the {} is not updated for {} ms of the other side's time", now_ms, if pause_client { "client" } else { "server" }, pause_ms));
    let until = now_ms + pause_ms;
    while now_ms < until {
        step!(pause_client, !pause_client);
    }
    log.push(format!("t={} ms: both sides run again", now_ms));
    let marker_up = payload::make(1, 0, CH_RO, 0, 900, 48, 2);
    let marker_down = payload::make(1, 1, CH_RO, 0, 901, 48, 2);
    let mut got = (false, false);
    let mut sent = false;
    for _ in 0..(2000 / dt + 40) {
        step!(true, true);
        if !sent && client.is_connected() && server.is_connected(id) {
            client.send_message(CH_RO, Bytes::from(marker_up.clone()));
            server.send_message(id, CH_RO, Bytes::from(marker_down.clone()));
            sent = true;
        }
        while let Some(m) = server.receive_message(id, CH_RO) {
            got.0 |= m[..] == marker_up[..];
        }
        while let Some(m) = client.receive_message(CH_RO) {
            got.1 |= m[..] == marker_down[..];
        }
        if got == (true, true) || client.is_disconnected() || !server.is_connected(id) {
            break;
        }
    }
    out.count("timeouts_disabled_runs");
    out.count(if pause_client { "timeouts_disabled_runs_client_paused" } else { "timeouts_disabled_runs_server_paused" });
    out.eval(mix(&[0x7D, run_seed, pause_client as u64]), true);
    let ok = client.is_connected() && server.is_connected(id) && got == (true, true) && !events.iter().any(|e| e.contains("ClientDisconnected"));
    if !ok {
        log.push(format!(
            "t={} ms: client connected={} (renet reason {:?}, netcode reason {:?}); server has the client={}; markers obtained (up, down)={:?}; server events {:?}",
            now_ms, client.is_connected(), client.disconnect_reason(), ct.disconnect_reason(), server.is_connected(id), got, events
        ));
        let side = if !server.is_connected(id) || events.iter().any(|e| e.contains("ClientDisconnected")) { "server" } else if !client.is_connected() { "client" } else { "messages-after-the-pause-not-delivered" };
        out.violation(
            ctx,
            &format!("C20/healthy-session-ended/timeouts-disabled/{}", side),
            "interference never disconnects an otherwise healthy session other than through timeouts (and this token disables them)",
            format!("token timeout {} (disabled): after a pause of {} ms of the {} the session is not intact", timeout_s, pause_ms, if pause_client { "client" } else { "server" }),
            json!({"property": "C20", "engine": ctx.engine, "run_seed": format!("{:#x}", run_seed), "mode": "timeouts-disabled", "log": log}),
        );
    }
}

/// A token lists two servers that share the private key (same host, two ports). The first one - reached through a
/// small relay socket - accepts the client and streams to it, but everything it sends after the challenge is held
/// back, so the client fails over to the second server and connects there. Then the first server's held datagrams
/// are delivered after all (from the first address). They belong to another connection: the client application must
/// obtain only what the second server submitted.
fn two_servers_run(ctx: &Ctx, out: &mut Outcome, run_seed: u64, r: &mut Rng) {
    let timeout_s: i32 = *r.pick(&[1i32, 2]);
    let dt: u64 = *r.pick(&[16u64, 50]);
    let mut key = [0u8; 32];
    r.fill(&mut key);
    let protocol = r.next_u64();
    let (s1sock, s2sock, relay, csock) = match (bind(), bind(), bind(), bind()) {
        (Ok(a), Ok(b), Ok(c), Ok(d)) => (a, b, c, d),
        _ => return out.inconclusive("C20: cannot bind loopback UDP sockets"),
    };
    let (s1_addr, s2_addr, relay_addr, c_addr) = (s1sock.local_addr().unwrap(), s2sock.local_addr().unwrap(), relay.local_addr().unwrap(), csock.local_addr().unwrap());
    let mk = |addr: SocketAddr, sock: UdpSocket| {
        NetcodeServerTransport::new(
            ServerConfig { current_time: Duration::ZERO, max_clients: 4, protocol_id: protocol, public_addresses: vec![addr], authentication: ServerAuthentication::Secure { private_key: key } },
            sock,
        )
    };
    // server ONE is known to clients by the relay's address
    let (mut st1, mut st2) = match (mk(relay_addr, s1sock), mk(s2_addr, s2sock)) {
        (Ok(a), Ok(b)) => (a, b),
        _ => return out.inconclusive("C20: server transports"),
    };
    let mut srv1 = RenetServer::new(conn_cfg(100));
    let mut srv2 = RenetServer::new(conn_cfg(100));
    let id = 815u64;
    let m = nsim::mint(r, 0, protocol, 600, id, timeout_s, &[relay_addr, s2_addr], None, &key);
    let mut ct = match NetcodeClientTransport::new(Duration::ZERO, ClientAuthentication::Secure { connect_token: m.token }, csock) {
        Ok(t) => t,
        Err(e) => return out.inconclusive(&format!("C20: client transport: {:?}", e)),
    };
    let mut client = RenetClient::new(conn_cfg(100));
    let d = Duration::from_millis(dt);
    let mut held: Vec<Vec<u8>> = Vec::new();
    let mut from_two: Vec<Vec<u8>> = Vec::new();
    let mut buf = [0u8; 2048];
    let mut log: Vec<String> = vec![format!("server ONE behind relay {}, server TWO at {}, client {}, timeout {} s, tick {} ms", relay_addr, s2_addr, c_addr, timeout_s, dt)];
    let mut released = false;
    let mut connected_two_at: Option<u64> = None;
    let ticks = (timeout_s as u64 * 1000 * 3 + 3000) / dt;
    for tick in 0..ticks {
        // applications: both servers stream to the client as soon as they hold its session
        if srv1.is_connected(id) && !released {
            srv1.send_message(id, CH_U, Bytes::from(payload::make(1, 1, CH_U, 1, tick, 60, 0x0E1)));
            srv1.send_message(id, CH_RO, Bytes::from(payload::make(1, 1, CH_RO, 1, tick, 60, 0x0E1)));
        }
        if srv2.is_connected(id) {
            for ch in [CH_U, CH_RO] {
                let b = payload::make(2, 1, ch, 2, from_two.len() as u64, 60, 0x0E2);
                from_two.push(b.clone());
                srv2.send_message(id, ch, Bytes::from(b));
            }
        }
        srv1.update(d);
        srv2.update(d);
        let _ = st1.update(d, &mut srv1);
        let _ = st2.update(d, &mut srv2);
        client.update(d);
        let _ = ct.update(d, &mut client);
        st1.send_packets(&mut srv1);
        st2.send_packets(&mut srv2);
        let _ = ct.send_packets(&mut client);
        // the relay in front of server ONE
        while let Ok((n, from)) = relay.recv_from(&mut buf) {
            if from == c_addr {
                let _ = relay.send_to(&buf[..n], s1_addr);
            } else if from == s1_addr {
                if n > 0 && (buf[0] & 0xF) == 2 {
                    let _ = relay.send_to(&buf[..n], c_addr); // the challenge gets through
                } else if held.len() < 400 {
                    held.push(buf[..n].to_vec());
                }
            }
        }
        if client.is_connected() && srv2.is_connected(id) && connected_two_at.is_none() {
            connected_two_at = Some(tick);
            log.push(format!("tick {tick}: client connected to server TWO; {} datagrams of server ONE are held back", held.len()));
        }
        // a little later the held datagrams of server ONE arrive after all, from the first address
        if let Some(t0) = connected_two_at {
            if !released && tick >= t0 + 3 {
                released = true;
                out.count("two_servers_stale_datagrams_released");
                out.add("two_servers_stale_datagrams", held.len() as u64);
                for b in held.iter() {
                    let _ = relay.send_to(b, c_addr);
                }
            }
        }
        for ch in [CH_U, CH_RO] {
            while let Some(msg) = client.receive_message(ch) {
                out.count("two_servers_messages_obtained");
                out.eval(mix(&[0x25, run_seed, crate::rng::fnv1a(&msg)]), true);
                if !from_two.iter().any(|x| x[..] == msg[..]) {
                    let h = payload::parse(&msg);
                    log.push(format!("tick {tick}: obtained on channel {ch} a message that server TWO never submitted (header {:?})", h.map(|h| (h.conn, h.flags, h.idx))));
                    out.violation(
                        ctx,
                        "C20/e2e/obtained-from-other-server",
                        "every message an application obtains from a connection was submitted by the peer of that same connection",
                        format!("the client, connected to the second server of its token, obtained a {}-byte message that only the first server (another connection, same token keys, other address) had submitted", msg.len()),
                        json!({"property": "C20", "engine": ctx.engine, "run_seed": format!("{:#x}", run_seed), "mode": "two-servers", "log": log}),
                    );
                    return;
                }
            }
        }
        if released && tick >= connected_two_at.unwrap() + 12 {
            break;
        }
    }
    if connected_two_at.is_some() {
        out.count("two_servers_runs");
    } else {
        out.count("two_servers_runs_void");
        out.eval(mix(&[0x26, run_seed]), false);
    }
}

fn one_run_inner(ctx: &Ctx, out: &mut Outcome, run_seed: u64) {
    let mut r = Rng::new(run_seed);
    // own random stream, so that the other scenarios keep theirs
    if ctx.replay_mode.as_deref() == Some("timeouts-disabled") || (ctx.replay_mode.is_none() && mix(&[0x70FF, run_seed]) % 24 == 0) {
        let mut pr = Rng::new(run_seed ^ 0x70FF_D15A);
        return timeouts_disabled_run(ctx, out, run_seed, &mut pr);
    }
    if ctx.replay_mode.as_deref() == Some("vanished-server") || (ctx.replay_mode.is_none() && r.below(16) == 0) {
        return vanished_server_run(ctx, out, run_seed, &mut r);
    }
    if ctx.replay_mode.as_deref() == Some("two-servers") || (ctx.replay_mode.is_none() && r.below(20) == 0) {
        return two_servers_run(ctx, out, run_seed, &mut r);
    }
    let secure = r.chance(3, 4);
    let timeout_s: i32 = if secure { *r.pick(&[2i32, 3, 5]) } else { 15 };
    let dt: u64 = *r.pick(&[16u64, 50, 100]);
    let resend_ms = *r.pick(&[0u64, 100, 300]);
    let interference_only = r.chance(1, 3);
    let relay = if interference_only {
        RelayCfg { loss: r.range(0, 20), dup: r.range(10, 60), delay: r.range(10, 60), max_delay: r.range(1, 8), replay: r.range(5, 30), corrupt: r.range(5, 30), interference_only }
    } else {
        RelayCfg { loss: r.range(0, 40), dup: r.range(0, 40), delay: r.range(0, 50), max_delay: r.range(1, 15), replay: r.range(0, 15), corrupt: r.range(0, 15), interference_only }
    };
    let clean_relay = !interference_only && r.chance(1, 5);
    let relay = if clean_relay { RelayCfg { loss: 0, dup: 0, delay: 0, max_delay: 1, replay: 0, corrupt: 0, interference_only: false } } else { relay };
    if interference_only {
        out.count("interference_only_runs");
    }
    if clean_relay {
        out.count("clean_relay_runs");
    }
    let mut key = [0u8; 32];
    r.fill(&mut key);
    let protocol = r.next_u64();
    let (front, ssock) = match (bind(), bind()) {
        (Ok(a), Ok(b)) => (a, b),
        _ => {
            out.inconclusive("C20: cannot bind loopback UDP sockets");
            return;
        }
    };
    let front_addr = front.local_addr().unwrap();
    let server_addr = ssock.local_addr().unwrap();
    let max_clients = r.urange(2, 6);
    let st = match NetcodeServerTransport::new(
        ServerConfig {
            current_time: Duration::ZERO,
            max_clients,
            protocol_id: protocol,
            public_addresses: vec![front_addr],
            authentication: if secure { ServerAuthentication::Secure { private_key: key } } else { ServerAuthentication::Unsecure },
        },
        ssock,
    ) {
        Ok(s) => s,
        Err(e) => {
            out.inconclusive(&format!("C20: server transport: {e}"));
            return;
        }
    };
    let mut w = World {
        server: RenetServer::new(conn_cfg(resend_ms)),
        st,
        front,
        server_addr,
        peers: Vec::new(),
        flight: Vec::new(),
        history: Vec::new(),
        now_ms: 0,
        tick: 0,
        log: Vec::new(),
        protocol,
        key,
        secure,
        timeout_s,
        token_life_s: if secure && (run_seed >> 7) % 3 == 0 { 2 + (run_seed >> 11) % 7 } else { 600 },
        resend_ms,
        ev_state: HashMap::new(),
        server_closed: HashMap::new(),
        silenced: None,
        muted: None,
        hasty: None,
        hasty_held: Vec::new(),
        stranger: None,
        misconfigured_id: None,
        host: None,
        withheld_denied: Vec::new(),
        stale_denied_shown: HashMap::new(),
        stale: HashMap::new(),
    };
    if r.chance(1, 3) {
        let client = w.server.new_local_client(HOST_ID);
        w.host = Some(Host { client, subs: [Vec::new(), Vec::new()], got: [0, 0] });
        out.count("runs_with_host_player");
    }
    let n_clients = r.urange(1, max_clients.min(5));
    if n_clients >= 2 && (run_seed >> 21) % 8 == 0 {
        w.misconfigured_id = Some(100 + (n_clients - 1) as u64);
        out.count("runs_with_a_misconfigured_client");
    }
    for k in 0..n_clients {
        match w.new_peer(&mut r, 100 + k as u64, 0) {
            Ok(p) => w.peers.push(p),
            Err(e) => {
                out.inconclusive(&format!("C20: client transport: {e}"));
                return;
            }
        }
    }
    // sometimes a second client presents another token for the SAME client id from another address at
    // the same time: at most one of the two may be connected at any moment, in both layers
    if r.chance(1, 4) {
        let id = w.peers[0].id;
        match w.new_peer(&mut r, id, 0) {
            Ok(p) => {
                w.peers.push(p);
                out.count("runs_with_same_id_twin");
            }
            Err(e) => {
                out.inconclusive(&format!("C20: twin client transport: {e}"));
                return;
            }
        }
    }
    // clean relay, sometimes: one client (with an id of its own) never hears the server's session datagrams; its
    // application gives up while the client is still in the response step and the server already has the session
    if clean_relay && r.chance(1, 2) {
        let unique: Vec<usize> = (0..w.peers.len()).filter(|k| w.peers.iter().filter(|p| p.id == w.peers[*k].id).count() == 1).collect();
        if !unique.is_empty() {
            w.muted = Some(*r.pick(&unique));
            out.count("runs_with_muted_client");
        }
    }
    if !interference_only && w.muted.is_none() && r.chance(1, 5) {
        let unique: Vec<usize> = (0..w.peers.len()).filter(|k| w.peers.iter().filter(|p| p.id == w.peers[*k].id).count() == 1).collect();
        if !unique.is_empty() {
            w.hasty = Some(*r.pick(&unique));
            out.count("runs_with_hasty_client");
        }
    }
    if (run_seed >> 13) % 4 == 0 {
        if let Ok(s) = bind() {
            w.stranger = Some((s, 1 + (run_seed >> 17) % 4));
            out.count("runs_with_a_stranger_sending_empty_datagrams");
        }
    }
    // crowded: one slot fewer than clients at first (somebody is denied; the relay holds some denials back), a slot is
    // freed a little later by the server application
    let crowded = n_clients >= 2 && r.chance(1, 4);
    if crowded {
        w.st.set_max_clients(n_clients - 1);
        out.count("crowded_runs");
    }
    let shutdown_run = r.chance(1, 4);
    let total_ticks = r.range(60, if ctx.thorough() { 600 } else { 260 });
    let settle_from = total_ticks; // after this: relay is clean, no new actions
    let timeout_ms = timeout_s as u64 * 1000;
    let end_tick = total_ticks + (timeout_ms + 2000) / dt + 20;
    let mut fp = Fnv::new();
    let mut relay_acted = false;
    let mut propagated = 0u64;
    let mut connected_total = 0u64;
    let mut buf = [0u8; 2048];
    let mut pending_closed_checks: Vec<(usize, u32, u64, &'static str)> = Vec::new(); // (peer, generation, deadline_ms, who)

    while w.tick < end_tick {
        w.tick += 1;
        w.now_ms += dt;
        let faults_on = w.tick <= settle_from;

        // ---- application actions -------------------------------------------------------------
        if faults_on {
            for k in 0..w.peers.len() {
                let id = w.peers[k].id;
                if w.peers[k].app_closed {
                    // maybe reconnect with the same id once the old session is gone on the server
                    if r.chance(1, 30) && !w.server.is_connected(id) && w.st.client_addr(id).is_none() && w.peers[k].closed_at_ms.map_or(false, |t| w.now_ms > t + timeout_ms + 1500) {
                        // generations are unique per id (twins of one id may both reconnect, one after the other)
                        let g = w.peers.iter().filter(|p| p.id == id).map(|p| p.generation).max().unwrap_or(0) + 1;
                        match w.new_peer(&mut r, id, g) {
                            Ok(p) => {
                                w.log(format!("reconnect id {} generation {}", id, g));
                                let old = std::mem::replace(&mut w.peers[k], p);
                                out.count("reconnect_same_id");
                                // in half of the reconnects the new client reaches the server from the same address as the
                                // old one (the relay keeps its socket: a NAT mapping that is still there)
                                if w.secure && r.chance(1, 2) {
                                    w.peers[k].back = old.back;
                                    w.peers[k].prev_request = old.first_request;
                                    out.count("reconnect_same_id_from_the_same_address");
                                }
                            }
                            Err(e) => {
                                out.inconclusive(&format!("C20: reconnect: {e}"));
                                return;
                            }
                        }
                    }
                    continue;
                }
                if w.hasty == Some(k) && w.peers[k].generation == 0 {
                    // the application gives up right after its first responses left: the relay releases them together
                    // with the Disconnect datagram
                    if !w.hasty_held.is_empty() && w.peers[k].transport.disconnect_reason().is_none() {
                        let who = if r.chance(1, 2) {
                            w.peers[k].client.disconnect();
                            "client_app"
                        } else {
                            w.peers[k].transport.disconnect();
                            "client_transport"
                        };
                        out.count("disconnect_during_handshake_batched_with_the_response");
                        w.log(format!("DISCONNECT id {} by {} right after its response left (relay delivers response and disconnect together)", id, who));
                        let p = &mut w.peers[k];
                        p.app_closed = true;
                        p.closed_at_ms = Some(w.now_ms);
                        p.closed_by = who;
                        pending_closed_checks.push((k, p.generation, u64::MAX, who));
                        fp.u64(0xD15E ^ id);
                    }
                    continue;
                }
                if w.muted == Some(k) && w.peers[k].generation == 0 {
                    // the application disconnects during the handshake, once the server has accepted the session
                    let has_session = w.st.client_addr(id).is_some() && w.st.client_addr(id) == w.peers[k].back.local_addr().ok();
                    if has_session && w.peers[k].client.is_connecting() && w.peers[k].transport.disconnect_reason().is_none() && r.chance(1, 4) {
                        let who = if r.chance(1, 2) {
                            w.peers[k].client.disconnect();
                            "client_app"
                        } else {
                            w.peers[k].transport.disconnect();
                            "client_transport"
                        };
                        out.count("disconnect_during_handshake_with_server_session");
                        w.log(format!("DISCONNECT id {} by {} while the client is still in the response step (server session exists)", id, who));
                        let p = &mut w.peers[k];
                        p.app_closed = true;
                        p.closed_at_ms = Some(w.now_ms);
                        p.closed_by = who;
                        // clean relay towards the server: the disconnect datagram arrives in order
                        pending_closed_checks.push((k, p.generation, w.now_ms + 6 * dt, who));
                        fp.u64(0xD15D ^ id);
                    }
                    continue;
                }
                if w.peers[k].misconfigured && w.peers[k].generation == 0 && !w.peers[k].app_closed && w.peers[k].client.is_connected() && w.server.is_connected(id) && r.chance(1, 6) {
                    w.peers[k].client.send_message(9, Bytes::from(vec![9u8; 20]));
                    out.count("message_on_a_channel_the_server_does_not_have");
                    w.log(format!("id {} sends on channel 9, which the server does not have: the server's message layer will drop it", id));
                    let p = &mut w.peers[k];
                    p.app_closed = true;
                    p.closed_at_ms = Some(w.now_ms);
                    p.closed_by = "server_message_layer";
                    pending_closed_checks.push((k, p.generation, u64::MAX, "server_message_layer"));
                    fp.u64(0xD15F ^ id);
                    continue;
                }
                let connected_both = w.peers[k].client.is_connected() && w.server.is_connected(id);
                // an on-path party replays the connection request of the previous session's token (still valid, sealed
                // for this server, sent from this very address) while the new session is up: it is not this session's
                // business and ends nothing
                if connected_both && w.peers[k].prev_request.is_some() && w.peers[k].prev_request_replays < 3 && r.chance(1, 15) {
                    let b = w.peers[k].prev_request.clone().unwrap();
                    w.peers[k].prev_request_replays += 1;
                    let g = w.peers[k].generation;
                    w.flight.push(InFlight { at: w.tick, to_server: true, peer: k, generation: g, bytes: b, genuine: false, first: false });
                    out.count("stale_request_of_previous_token_replayed_into_the_new_session");
                    w.log(format!("relay replays the connection request of id {}'s previous token from the same address", id));
                    relay_acted = true;
                }
                // the server application starts sending as soon as it holds the session (ClientConnected), which may be
                // before the client has seen the keep-alive that completes its handshake
                let holds_session = w.server.is_connected(id) && w.st.client_addr(id).is_some() && w.st.client_addr(id) == w.peers[k].back.local_addr().ok();
                let server_early = holds_session && w.peers[k].client.is_connecting() && !w.peers[k].connected_seen;
                if connected_both || server_early {
                    // submissions both ways
                    for dir in 0..2u8 {
                        if server_early && dir == 0 {
                            continue;
                        }
                        // what the server application sends "to id" goes to the peer that holds the session of that id
                        // (a twin of the same id may be a zombie: its server side timed out, a sibling reconnected)
                        if dir == 1 && !holds_session {
                            continue;
                        }
                        if server_early {
                            out.count("server_submissions_before_client_connected");
                        }
                        for _ in 0..r.range(0, 2) {
                            let ch = *r.pick(&[CH_U, CH_RU, CH_RO]);
                            let len = payload::pick_len(&mut r, 5000, false);
                            let ok = if dir == 0 { w.peers[k].client.can_send_message(ch, len) } else { w.server.can_send_message(id, ch, len) };
                            if !ok {
                                continue;
                            }
                            let p = &mut w.peers[k];
                            let idx = p.led[dir as usize][ch as usize].subs.len() as u64;
                            let b = payload::make(k as u8, dir, ch, p.generation as u8, idx, len, p.tag);
                            p.led[dir as usize][ch as usize].subs.push(b.clone());
                            if dir == 0 {
                                p.client.send_message(ch, Bytes::from(b));
                            } else {
                                w.server.send_message(id, ch, Bytes::from(b));
                            }
                        }
                    }
                    // disconnects
                    if connected_both && r.chance(1, 90) {
                        let who = match r.below(3) {
                            0 => {
                                w.server.disconnect(id);
                                // sometimes: the Disconnect datagram and everything after it is lost and an
                                // on-path party keeps replaying a stale handshake datagram to the client
                                let g = w.peers[k].generation;
                                if w.silenced.is_none() && secure && !clean_relay && w.stale.contains_key(&(k, g)) && w.tick + (timeout_ms + 2500) / dt < settle_from && r.chance(1, 2) {
                                    w.silenced = Some((k, g));
                                    out.count("silenced_with_stale_handshake_replay");
                                    w.log(format!("SILENCE server->client for peer {} and replay its stale handshake datagram", k));
                                }
                                "server_app"
                            }
                            1 => {
                                w.peers[k].client.disconnect();
                                "client_app"
                            }
                            _ => {
                                w.peers[k].transport.disconnect();
                                "client_transport"
                            }
                        };
                        out.count(&format!("disconnect_by_{}", who));
                        w.log(format!("DISCONNECT id {} by {}", id, who));
                        let p = &mut w.peers[k];
                        p.app_closed = true;
                        p.closed_at_ms = Some(w.now_ms);
                        p.closed_by = who;
                        // On a clean relay the disconnect datagram arrives: both sides must be gone within a
                        // few ticks. Otherwise (drops, and delayed or replayed genuine datagrams that may
                        // legitimately refresh a timeout) the deadline is the end of the run: the relay is
                        // clean and silent for more than timeout + 2 s before that.
                        let deadline = if clean_relay { w.now_ms + 6 * dt } else { u64::MAX };
                        pending_closed_checks.push((k, p.generation, deadline, who));
                        fp.u64(0xD15C ^ id);
                    }
                }
            }
        }

        // ---- crowded run: the server application frees a slot, then the limit goes back up ---------------------
        if crowded && w.tick == 10 {
            let mut ids: Vec<u64> = w.server.clients_id().into_iter().filter(|id| *id != HOST_ID).collect();
            ids.sort_unstable();
            if let Some(id) = ids.first().copied() {
                // the peer that holds the session of that id (a twin with the same id may exist)
                let session_addr = w.st.client_addr(id);
                if let Some(k) = w.peers.iter().position(|p| p.id == id && !p.app_closed && session_addr.is_some() && p.back.local_addr().ok() == session_addr) {
                    w.server.disconnect(id);
                    w.log(format!("crowded run: DISCONNECT id {} by server_app to free a slot", id));
                    let p = &mut w.peers[k];
                    p.app_closed = true;
                    p.closed_at_ms = Some(w.now_ms);
                    p.closed_by = "server_app";
                    pending_closed_checks.push((k, p.generation, u64::MAX, "server_app"));
                }
            }
        }
        // ---- a client that got in after a held-back denial is shown that stale datagram ----------------------------
        if !w.withheld_denied.is_empty() {
            let mut keep = Vec::new();
            let items = std::mem::take(&mut w.withheld_denied);
            for (k, g, bytes) in items {
                let live = k < w.peers.len() && w.peers[k].generation == g && !w.peers[k].app_closed;
                if live && w.peers[k].client.is_connected() && w.peers[k].connected_seen {
                    out.count("stale_denied_shown_to_connected_client");
                    w.log(format!("RELAY delivers the ConnectionDenied it held back to peer {} (now connected)", k));
                    let at = w.tick;
                    w.flight.push(InFlight { at, to_server: false, peer: k, generation: g, bytes, genuine: false, first: false });
                    w.stale_denied_shown.insert(k, w.tick);
                } else if live && !w.peers[k].client.is_disconnected() {
                    keep.push((k, g, bytes));
                }
            }
            w.withheld_denied = keep;
        }
        // ---- the operator changes the client limit at run time (raise or lower; nobody is ever kicked for it) ---
        if faults_on && r.chance(1, 150) {
            let n = r.urange(1, 8);
            w.st.set_max_clients(n);
            out.count("client_limit_changed_at_run_time");
            if n < w.st.connected_clients() {
                out.count("client_limit_lowered_below_connected");
            }
            w.log(format!("set_max_clients({}) with {} connected", n, w.st.connected_clients()));
        }
        // ---- host player: game logic submits before the transports run (frame order: logic, update, send) -----
        if faults_on && w.host.is_some() {
            let World { server, host, .. } = &mut w;
            let h = host.as_mut().unwrap();
            for dir in 0..2usize {
                if r.chance(1, 2) {
                    let len = payload::pick_len(&mut r, 3000, false).max(24);
                    let b = payload::make(200, dir as u8, CH_RO, 0, h.subs[dir].len() as u64, len, 0x4057);
                    h.subs[dir].push(b.clone());
                    if dir == 0 {
                        h.client.send_message(CH_RO, Bytes::from(b));
                    } else {
                        server.send_message(HOST_ID, CH_RO, Bytes::from(b));
                    }
                }
            }
        }
        // ---- server shutdown at the end of the fault phase (some runs) ----------------------------------
        // The application kicks 0-2 clients at the message layer and, in the same frame, closes everything through the
        // transport (NetcodeServerTransport::disconnect_all, "use this when closing/exiting games"): both layers must
        // be empty right away, every session gets its ClientDisconnected, every client learns of it.
        if shutdown_run && w.tick == settle_from {
            let mut ids: Vec<u64> = w.server.clients_id().into_iter().filter(|id| *id != HOST_ID).collect();
            ids.sort_unstable();
            let n_kick = r.urange(0, 2).min(ids.len());
            for id in ids.iter().take(n_kick) {
                w.server.disconnect(*id);
                out.count("shutdown_message_layer_kick_pending");
            }
            w.log(format!("SHUTDOWN: {} message-layer kicks pending, then transport.disconnect_all", n_kick));
            w.st.disconnect_all(&mut w.server);
            out.count("shutdown_disconnect_all");
            let left_netcode = w.st.connected_clients();
            let still: Vec<u64> = w.peers.iter().map(|p| p.id).filter(|id| w.st.client_addr(*id).is_some()).collect();
            if left_netcode != 0 || !still.is_empty() {
                viol(ctx, out, &w, run_seed, "C20/shutdown/netcode-session-left", "a disconnect decided by either layer ends the session on both sides", format!("after disconnect_all the netcode layer still holds {} session(s) {:?} ({} message-layer kicks were pending)", left_netcode, still, n_kick));
                return;
            }
            for k in 0..w.peers.len() {
                if !w.peers[k].app_closed {
                    let p = &mut w.peers[k];
                    p.app_closed = true;
                    p.closed_at_ms = Some(w.now_ms);
                    p.closed_by = "server_shutdown";
                    if p.connected_seen {
                        pending_closed_checks.push((k, p.generation, u64::MAX, "server_shutdown"));
                    }
                }
            }
        }
        // ---- silenced peer: stale handshake replays must not postpone its timeout ------------------
        if let Some((k, g)) = w.silenced {
            if w.peers[k].generation != g || !faults_on {
                w.silenced = None;
            } else {
                let every = ((timeout_ms / 3) / dt).max(1);
                if w.tick % every == 0 {
                    if let Some(b) = w.stale.get(&(k, g)).cloned() {
                        out.count("stale_handshake_replays_injected");
                        let at = w.tick;
                        w.flight.push(InFlight { at, to_server: false, peer: k, generation: g, bytes: b, genuine: false, first: false });
                    }
                }
                let gone = w.peers[k].client.is_disconnected() && w.peers[k].transport.disconnect_reason().is_some();
                if gone {
                    out.count("silenced_client_timed_out");
                    w.silenced = None;
                } else if w.now_ms > w.peers[k].last_genuine_delivered_ms[1] + timeout_ms + 1000 + 3 * dt {
                    let id = w.peers[k].id;
                    let last = w.peers[k].last_genuine_delivered_ms[1];
                    viol(
                        ctx,
                        out,
                        &w,
                        run_seed,
                        "C20/timeout-postponed-by-replayed-handshake/client",
                        "a disconnect decided by the server ends the session on the client side too (through its timeout when the disconnect datagram is lost); replayed datagrams do not postpone it",
                        format!("client {}: the last genuine server datagram was delivered at {} ms, only replays of a stale handshake datagram since; at {} ms (timeout {} s) the client still reports connected", id, last, w.now_ms, timeout_s),
                    );
                    return;
                }
            }
        }
        // ---- transports --------------------------------------------------------------------------
        // the application advances the message layer, then the transport (README usage order)
        w.server.update(Duration::from_millis(dt));
        if let Err(e) = w.st.update(Duration::from_millis(dt), &mut w.server) {
            out.inconclusive(&format!("C20: server transport update io error: {e}"));
            return;
        }
        // (a) lock-step right after the server transport's update
        out.count("lockstep_checked");
        let disc = w.server.disconnections_id();
        if !disc.is_empty() {
            viol(ctx, out, &w, run_seed, "C20/lockstep/disconnected-connection-left-behind", "both layers agree right after NetcodeServerTransport::update", format!("RenetServer still holds disconnected connections {:?} after the transport update", disc));
            return;
        }
        let mut renet_ids: Vec<u64> = w.server.clients_id().into_iter().filter(|id| *id != HOST_ID).collect();
        renet_ids.sort_unstable();
        let host_n = w.host.is_some() as usize;
        let known: BTreeSet<u64> = w.peers.iter().map(|p| p.id).collect();
        let mut netcode_ids: Vec<u64> = known.iter().copied().filter(|id| w.st.client_addr(*id).is_some()).collect();
        netcode_ids.sort_unstable();
        if renet_ids != netcode_ids || w.server.connected_clients() != w.st.connected_clients() + host_n {
            viol(
                ctx,
                out,
                &w,
                run_seed,
                "C20/lockstep/connected-sets-differ",
                "the clients the message layer reports connected are exactly those whose netcode handshake completed and has not ended",
                format!("message layer {:?} ({}), netcode layer {:?} ({})", renet_ids, w.server.connected_clients(), netcode_ids, w.st.connected_clients()),
            );
            return;
        }
        // (b) events
        while let Some(ev) = w.server.get_event() {
            let (id, connected, reason) = match ev {
                ServerEvent::ClientConnected { client_id } => (client_id, true, None),
                ServerEvent::ClientDisconnected { client_id, reason } => (client_id, false, Some(reason)),
            };
            if id == HOST_ID {
                if !connected {
                    viol(ctx, out, &w, run_seed, "C20/host-player/disconnected", "across the full stack the channel guarantees still hold", format!("the local host player was reported disconnected: {:?}", reason));
                    return;
                }
                continue;
            }
            let prev = w.ev_state.get(&id).copied();
            let ok = match (prev, connected) {
                (None, true) | (Some(false), true) | (Some(true), false) => true,
                _ => false,
            };
            w.log(format!("EVENT id {} {} {:?}", id, if connected { "Connected" } else { "Disconnected" }, reason));
            if !ok || !known.contains(&id) {
                viol(ctx, out, &w, run_seed, "C20/events/not-alternating", "each connect and disconnect reaches the application exactly once with the right id", format!("event for id {}: connected={} after previous state {:?}", id, connected, prev));
                return;
            }
            w.ev_state.insert(id, connected);
            if connected {
                connected_total += 1;
                out.count("clients_connected");
                fp.u64(0xC0 ^ id);
                // attribute the session to the peer whose (relay back socket) address the transport reports
                let session_addr = w.st.client_addr(id);
                if let Some(p) = w.peers.iter_mut().find(|p| p.id == id && p.back.local_addr().ok() == session_addr) {
                    p.connect_events += 1;
                    if p.connect_events > 1 {
                        p.resurrected = true;
                        out.count("sessions_reestablished_from_stale_handshake");
                    }
                }
            } else {
                w.server_closed.insert(id, (w.now_ms, "event"));
                // the server-side end of a closed peer's session is also witnessed by its event (a twin
                // with the same id may take the slot within the same transport update)
                for p in w.peers.iter_mut().filter(|p| p.id == id && p.app_closed) {
                    p.server_gone_seen = true;
                }
                // a session that ends although nobody asked for it, in an interference-only run
                let asked = w.peers.iter().any(|p| p.id == id && p.app_closed);
                if relay.interference_only && !asked {
                    viol(
                        ctx,
                        out,
                        &w,
                        run_seed,
                        &format!("C20/healthy-session-ended/server/{}", format!("{:?}", reason.unwrap()).split(|c| c == '(' || c == ' ' || c == '{').next().unwrap_or("?")),
                        "interference never disconnects an otherwise healthy session other than through timeouts",
                        format!("server reported ClientDisconnected{{id {}, {:?}}} although no application asked for it and genuine datagrams kept arriving", id, reason),
                    );
                    return;
                }
            }
        }
        for k in 0..w.peers.len() {
            let p = &mut w.peers[k];
            p.client.update(Duration::from_millis(dt));
            let _ = p.transport.update(Duration::from_millis(dt), &mut p.client);
            if p.client.is_connected() && !p.connected_seen {
                p.connected_seen = true;
            }
            // a client that was refused by a full server is gone for good (whatever of its handshake is still in flight may
            // yet give it a server-side session, which then times out): nobody owes it anything
            if !p.app_closed && !p.connected_seen && !w.stale_denied_shown.contains_key(&k) && format!("{:?}", p.transport.disconnect_reason()).contains("ConnectionDenied") {
                p.app_closed = true;
                p.closed_at_ms = Some(w.now_ms);
                p.closed_by = "denied_by_full_server";
                out.count("clients_denied_by_full_server");
            }
            // so is a client whose short-lived token ran out before the handshake got through
            if !p.app_closed && !p.connected_seen && format!("{:?}", p.transport.disconnect_reason()).contains("ConnectTokenExpired") {
                p.app_closed = true;
                p.closed_at_ms = Some(w.now_ms);
                p.closed_by = "token_expired_before_connecting";
                out.count("clients_whose_token_expired_before_connecting");
            }
            if p.connected_seen && !p.app_closed && w.now_ms / 1000 > p.token_expire_s && w.token_life_s < 600 {
                out.count("session_ticks_beyond_token_life");
            }
            // a stale (genuine, but overtaken by events) ConnectionDenied must not end a session that is up
            if w.stale_denied_shown.contains_key(&k) && !p.app_closed && p.connected_seen && format!("{:?}", p.transport.disconnect_reason()).contains("ConnectionDenied") {
                let id = p.id;
                viol(
                    ctx,
                    out,
                    &w,
                    run_seed,
                    "C20/healthy-session-ended/client/stale-connection-denied",
                    "interference never disconnects an otherwise healthy session other than through timeouts",
                    format!("client {} was connected; a ConnectionDenied the server had sent while it was still full (held back by the relay) was delivered afterwards and ended the session", id),
                );
                return;
            }
            // client side ended without anybody asking
            if relay.interference_only && !p.app_closed && p.connected_seen && (p.client.is_disconnected() || p.transport.disconnect_reason().is_some()) {
                let reason = format!("renet {:?} / netcode {:?}", p.client.disconnect_reason(), p.transport.disconnect_reason());
                let id = p.id;
                viol(
                    ctx,
                    out,
                    &w,
                    run_seed,
                    "C20/healthy-session-ended/client",
                    "interference never disconnects an otherwise healthy session other than through timeouts",
                    format!("client {} ended with {} although no application asked for it and genuine datagrams kept arriving", id, reason),
                );
                return;
            }
        }
        // ---- send phase -----------------------------------------------------------------------
        w.st.send_packets(&mut w.server);
        for p in w.peers.iter_mut() {
            let _ = p.transport.send_packets(&mut p.client);
        }
        // ---- host player: the listen server pumps its local client after the transport's send phase ------
        if w.host.is_some() {
            let mut bad: Option<String> = None;
            {
                let World { server, host, .. } = &mut w;
                let h = host.as_mut().unwrap();
                h.client.update(Duration::from_millis(dt));
                let _ = server.process_local_client(HOST_ID, &mut h.client);
                while let Some(m) = h.client.receive_message(CH_RO) {
                    out.count("host_player_messages_obtained");
                    if h.subs[1].get(h.got[1]).map(|x| &x[..]) != Some(&m[..]) {
                        bad = Some(format!("the host player obtained a {}-byte message on the ordered channel that is not message #{} the server sent to it", m.len(), h.got[1]));
                        break;
                    }
                    h.got[1] += 1;
                }
                while let Some(m) = server.receive_message(HOST_ID, CH_RO) {
                    out.count("host_player_messages_obtained");
                    if h.subs[0].get(h.got[0]).map(|x| &x[..]) != Some(&m[..]) {
                        bad = Some(format!("the server obtained under the host player's id a {}-byte message that is not message #{} the host sent", m.len(), h.got[0]));
                        break;
                    }
                    h.got[0] += 1;
                }
            }
            if let Some(d) = bad {
                viol(ctx, out, &w, run_seed, "C20/host-player/ordered-prefix", "across the full stack the channel guarantees still hold", d);
                return;
            }
        }
        // ---- relay ----------------------------------------------------------------------------
        let mut empty_polls = 0;
        while empty_polls < 2 {
            let mut got = false;
            // clients -> front
            loop {
                match w.front.recv_from(&mut buf) {
                    Ok((n, from)) => {
                        got = true;
                        if n > 1400 {
                            viol(ctx, out, &w, run_seed, "C20/datagram>1400", "every datagram fits the 1400-byte receive buffers", format!("client datagram of {} bytes", n));
                            return;
                        }
                        if let Some(k) = w.peers.iter().position(|p| p.addr == from) {
                            let g = w.peers[k].generation;
                            relay_in(&mut w, &mut r, &relay, faults_on, true, k, g, &buf[..n], out, &mut relay_acted);
                        }
                    }
                    Err(_) => break,
                }
            }
            // server -> back sockets
            for k in 0..w.peers.len() {
                loop {
                    match w.peers[k].back.recv_from(&mut buf) {
                        Ok((n, from)) => {
                            got = true;
                            if from != w.server_addr {
                                continue;
                            }
                            if n > 1400 {
                                viol(ctx, out, &w, run_seed, "C20/datagram>1400", "every datagram fits the 1400-byte receive buffers", format!("server datagram of {} bytes", n));
                                return;
                            }
                            let g = w.peers[k].generation;
                            relay_in(&mut w, &mut r, &relay, faults_on, false, k, g, &buf[..n], out, &mut relay_acted);
                        }
                        Err(_) => break,
                    }
                }
            }
            if got {
                empty_polls = 0;
            } else {
                empty_polls += 1;
            }
        }
        // deliver what is due
        // the stranger's datagrams reach the server's socket ahead of this tick's client datagrams: zero-length ones
        // (legal UDP datagrams) and now and then a single byte. They belong to nobody and hold nobody up
        if let Some((sock, k)) = &w.stranger {
            for j in 0..*k {
                let _ = if j == 3 { sock.send_to(&[0x55], w.server_addr) } else { sock.send_to(&[], w.server_addr) };
            }
            out.add("stranger_datagrams_sent", *k);
        }
        // two passes: the datagrams that keep the interference-only relay's promise go out first
        for first_pass in [true, false] {
        let mut i = 0;
        while i < w.flight.len() {
            if w.flight[i].at <= w.tick && (!first_pass || w.flight[i].first) {
                if w.flight[i].first {
                    out.count("relay_promise_datagrams_sent_first");
                }
                let f = w.flight.swap_remove(i);
                if f.peer < w.peers.len() && w.peers[f.peer].generation == f.generation {
                    let p = &mut w.peers[f.peer];
                    if f.to_server {
                        let _ = p.back.send_to(&f.bytes, w.server_addr);
                    } else {
                        let _ = w.front.send_to(&f.bytes, p.addr);
                    }
                    if f.genuine {
                        p.last_genuine_delivered_ms[if f.to_server { 0 } else { 1 }] = w.now_ms;
                    }
                }
            } else {
                i += 1;
            }
        }
        }
        // ---- applications drain ------------------------------------------------------------------
        // server side: per id, attributed to the peer that holds the netcode session of that id
        let ids: BTreeSet<u64> = w.peers.iter().map(|p| p.id).collect();
        for id in ids {
            let session_addr = w.st.client_addr(id);
            let holder = w.peers.iter().position(|p| p.id == id && session_addr.is_some() && p.back.local_addr().ok() == session_addr);
            for ch in [CH_U, CH_RU, CH_RO] {
                while let Some(m) = w.server.receive_message(id, ch) {
                    match holder {
                        Some(k) => {
                            if !check_message(ctx, out, &mut w, run_seed, k, 0, ch, &m) {
                                return;
                            }
                        }
                        None => out.count("e2e_messages_without_session_holder"),
                    }
                }
            }
        }
        for k in 0..w.peers.len() {
            for ch in [CH_U, CH_RU, CH_RO] {
                while let Some(m) = w.peers[k].client.receive_message(ch) {
                    if !check_message(ctx, out, &mut w, run_seed, k, 1, ch, &m) {
                        return;
                    }
                }
            }
        }
        for p in w.peers.iter_mut() {
            if p.app_closed {
                if !w.server.is_connected(p.id) && w.st.client_addr(p.id).is_none() {
                    p.server_gone_seen = true;
                }
                if p.client.is_disconnected() && p.transport.disconnect_reason().is_some() {
                    p.client_gone_seen = true;
                }
            }
        }
        // ---- (c) disconnect propagation deadlines -----------------------------------------------
        let mut j = 0;
        while j < pending_closed_checks.len() {
            let (k, g, deadline, who) = pending_closed_checks[j];
            if w.peers[k].generation != g {
                pending_closed_checks.swap_remove(j);
                continue;
            }
            let id = w.peers[k].id;
            let server_side_gone = w.peers[k].server_gone_seen;
            let client_side_gone = w.peers[k].client_gone_seen;
            if server_side_gone && client_side_gone {
                propagated += 1;
                out.count("disconnect_propagated");
                out.max("disconnect_propagation_ms", w.now_ms.saturating_sub(w.peers[k].closed_at_ms.unwrap_or(w.now_ms)));
                pending_closed_checks.swap_remove(j);
                continue;
            }
            if w.now_ms > deadline {
                viol(
                    ctx,
                    out,
                    &w,
                    run_seed,
                    &format!("C20/disconnect-not-propagated/{}/{}", who, if !server_side_gone { "server-side-still-connected" } else { "client-side-still-connected" }),
                    "a disconnect decided by either layer or either side ends the session on both sides",
                    format!("id {} disconnected by {} at {:?} ms; at {} ms: server side gone = {}, client side gone = {} (renet {:?}, netcode {:?})", id, who, w.peers[k].closed_at_ms, w.now_ms, server_side_gone, client_side_gone, w.peers[k].client.disconnect_reason(), w.peers[k].transport.disconnect_reason()),
                );
                return;
            }
            j += 1;
        }
    }

    // ---- end of run: every disconnect decided anywhere must have ended the session on both sides ----
    for (k, g, _, who) in pending_closed_checks.iter() {
        if w.peers[*k].generation != *g {
            continue;
        }
        let id = w.peers[*k].id;
        let server_side_gone = w.peers[*k].server_gone_seen;
        let client_side_gone = w.peers[*k].client_gone_seen;
        if w.peers[*k].resurrected && !(server_side_gone && client_side_gone) {
            // the server re-established the session from stale handshake datagrams: the client was
            // legitimately taken back before it noticed anything
            out.count("propagation_moot_session_reestablished");
            continue;
        }
        if !(server_side_gone && client_side_gone) {
            viol(
                ctx,
                out,
                &w,
                run_seed,
                &format!("C20/disconnect-not-propagated/{}/{}", who, if !server_side_gone { "server-side-still-connected" } else { "client-side-still-connected" }),
                "a disconnect decided by either layer or either side ends the session on both sides",
                format!("id {} disconnected by {} at {:?} ms; at the end of the run ({} ms, relay clean and silent for {} ms): server side gone = {}, client side gone = {}", id, who, w.peers[*k].closed_at_ms, w.now_ms, (end_tick - settle_from) * dt, server_side_gone, client_side_gone),
            );
            return;
        }
        propagated += 1;
        out.count("disconnect_propagated");
        out.count("disconnect_propagated_by_timeout_or_late");
    }
    // ---- end of run: the host player's ordered streams are complete (its exchange is lossless) ----------
    if let Some(h) = w.host.as_ref() {
        out.count("host_player_liveness_checked");
        for dir in 0..2usize {
            if h.got[dir] != h.subs[dir].len() {
                let d = format!("host player, {}: {} of {} ordered messages obtained at the end of the run (process_local_client ran every tick, after the transport's send_packets)", if dir == 0 { "host -> server" } else { "server -> host" }, h.got[dir], h.subs[dir].len());
                viol(ctx, out, &w, run_seed, "C20/host-player/reliable-not-delivered", "across the full stack the channel guarantees still hold", d);
                return;
            }
        }
    }
    // ---- end of run: the application's view (events) agrees with both layers ---------------------------
    for (id, connected) in w.ev_state.iter() {
        let both = w.server.is_connected(*id) && w.st.client_addr(*id).is_some();
        if *connected != both {
            let (id, connected) = (*id, *connected);
            viol(ctx, out, &w, run_seed, "C20/events/end-state-differs", "each connect and disconnect reaches the application exactly once with the right id", format!("the last event for id {} says connected={} but at the end of the run the layers hold the session: {}", id, connected, both));
            return;
        }
    }
    // ---- end of run: reliable messages of sessions that stayed up must all have arrived ----------
    for k in 0..w.peers.len() {
        let p = &w.peers[k];
        if p.app_closed || p.resurrected || !p.connected_seen || p.client.is_disconnected() || !w.server.is_connected(p.id) {
            continue;
        }
        for dir in 0..2usize {
            let ro = &p.led[dir][CH_RO as usize];
            let ru = &p.led[dir][CH_RU as usize];
            out.count("e2e_liveness_checked");
            if ro.cursor != ro.subs.len() || ru.obtained.len() != ru.subs.len() {
                let dbg = if dir == 0 {
                    format!(
                        "sender unacked RO {:?} RU {:?}; receiver pending acks {:?}, recv mem RO {:?}",
                        p.client.verif_unacked(CH_RO).map(|v| v.into_iter().take(8).collect::<Vec<_>>()),
                        p.client.verif_unacked(CH_RU).map(|v| v.into_iter().take(8).collect::<Vec<_>>()),
                        w.server.verif_connection(p.id).map(|c| c.verif_pending_acks()),
                        w.server.verif_connection(p.id).and_then(|c| c.verif_receive_memory(CH_RO))
                    )
                } else {
                    format!(
                        "sender unacked RO {:?} RU {:?}; receiver pending acks {:?}",
                        w.server.verif_connection(p.id).and_then(|c| c.verif_unacked(CH_RO)).map(|v| v.into_iter().take(8).collect::<Vec<_>>()),
                        w.server.verif_connection(p.id).and_then(|c| c.verif_unacked(CH_RU)).map(|v| v.into_iter().take(8).collect::<Vec<_>>()),
                        p.client.verif_pending_acks()
                    )
                };
                w.log.push(dbg);
                viol(
                    ctx,
                    out,
                    &w,
                    run_seed,
                    "C20/e2e/reliable-not-delivered",
                    "across the full stack the channel guarantees still hold",
                    format!("client {} dir {}: ordered {}/{} unordered {}/{} obtained after the relay was clean for {} ms", p.id, dir, ro.cursor, ro.subs.len(), ru.obtained.len(), ru.subs.len(), (end_tick - settle_from) * dt),
                );
                return;
            }
        }
    }
    let mut ends: BTreeMap<u64, String> = BTreeMap::new();
    for p in w.peers.iter() {
        ends.insert(p.id, format!("gen{} closed_by:{} renet:{:?} netcode:{:?}", p.generation, p.closed_by, p.client.disconnect_reason().map(short_reason), p.transport.disconnect_reason()));
        fp.u64(p.led[0][2].subs.len() as u64);
        fp.u64(p.led[1][2].cursor as u64);
    }
    fp.u64(connected_total);
    let nontrivial = relay_acted && connected_total > 0 && propagated > 0;
    out.eval(fp.finish(), nontrivial);
    if nontrivial && out.samples.len() < out.max_samples {
        out.sample(json!({"run_seed": format!("{:#x}", run_seed), "secure": secure, "timeout_s": timeout_s, "dt_ms": dt, "clients": n_clients, "ticks": w.tick,
                          "interference_only": interference_only, "connected_events": connected_total, "disconnects_propagated": propagated, "ends": ends,
                          "log_head": w.log.iter().take(10).collect::<Vec<_>>()}));
    }
}

fn short_reason(r: DisconnectReason) -> String {
    format!("{:?}", r)
}

#[allow(clippy::too_many_arguments)]
fn relay_in(w: &mut World, r: &mut Rng, cfg: &RelayCfg, faults_on: bool, to_server: bool, peer: usize, generation: u32, bytes: &[u8], out: &mut Outcome, acted: &mut bool) {
    let tick = w.tick;
    if !to_server && w.muted == Some(peer) && generation == 0 && !bytes.is_empty() && (bytes[0] & 0xF) >= 4 {
        out.count("relay_muted_session_datagram");
        return;
    }
    if to_server && !bytes.is_empty() && (bytes[0] & 0xF) == 0 && w.peers[peer].first_request.is_none() {
        w.peers[peer].first_request = Some(bytes.to_vec());
    }
    if to_server && w.hasty == Some(peer) && generation == 0 && !bytes.is_empty() {
        match bytes[0] & 0xF {
            3 => {
                if w.hasty_held.len() < 3 {
                    w.hasty_held.push(bytes.to_vec());
                }
                out.count("relay_held_back_response_of_hasty_client");
                return;
            }
            6 if !w.hasty_held.is_empty() => {
                for b in std::mem::take(&mut w.hasty_held) {
                    w.flight.push(InFlight { at: tick, to_server, peer, generation, bytes: b, genuine: true, first: false });
                }
                w.flight.push(InFlight { at: tick, to_server, peer, generation, bytes: bytes.to_vec(), genuine: true, first: false });
                out.count("relay_released_response_and_disconnect_together");
                *acted = true;
                return;
            }
            _ => {}
        }
    }
    if !to_server && !bytes.is_empty() && (bytes[0] & 0xF) == 1 && w.withheld_denied.len() < 8 && r.chance(1, 2) {
        out.count("relay_held_back_connection_denied");
        w.withheld_denied.push((peer, generation, bytes.to_vec()));
        return;
    }
    if !to_server {
        w.stale.entry((peer, generation)).or_insert_with(|| bytes.to_vec());
        if w.silenced == Some((peer, generation)) {
            out.count("relay_blackholed_for_silenced_peer");
            return;
        }
    }
    if std::env::var("RV_C20_DEBUG").is_ok() && !faults_on {
        w.log(format!("relay {} peer {} len {}", if to_server { "->S" } else { "->C" }, peer, bytes.len()));
    }
    // Replay material: client->server datagrams are recorded only once the client is connected.
    // Replaying a client's own connection request + response from its address re-establishes a
    // netcode session for a still valid token (token reuse from the same address is allowed by the
    // netcode standard); after an application-level disconnect that would start a *new* session under
    // the same id, which this oracle (one ledger per client generation) deliberately does not model.
    if !to_server || w.peers[peer].connected_seen {
        if w.history.len() < 512 {
            w.history.push((to_server, peer, bytes.to_vec()));
        } else {
            let i = r.usize_below(512);
            w.history[i] = (to_server, peer, bytes.to_vec());
        }
    }
    if !faults_on {
        w.flight.push(InFlight { at: tick, to_server, peer, generation, bytes: bytes.to_vec(), genuine: true, first: false });
        return;
    }
    let dirx = if to_server { 0 } else { 1 };
    let third = (w.timeout_s as u64 * 1000) / 3;
    // an interference-only relay lets at least one genuine datagram per direction through every timeout/3; for a client
    // that is still answering the challenge that has to be a keep-alive (payloads do not complete its handshake)
    let handshake_keepalive = !to_server && !bytes.is_empty() && (bytes[0] & 0xF) == 4 && !w.peers[peer].client.is_connected();
    let starving = cfg.interference_only
        && (w.now_ms.saturating_sub(w.peers[peer].last_genuine_delivered_ms[dirx]) > third || (handshake_keepalive && w.now_ms.saturating_sub(w.peers[peer].last_keepalive_forwarded_ms) > third));
    if handshake_keepalive && starving {
        w.peers[peer].last_keepalive_forwarded_ms = w.now_ms;
    }
    if !starving && r.chance(cfg.loss, 100) {
        out.count("relay_dropped");
        *acted = true;
    } else {
        let copies = if r.chance(cfg.dup, 100) {
            out.count("relay_duplicated");
            *acted = true;
            r.range(2, 3)
        } else {
            1
        };
        for c in 0..copies {
            let mut delay = 0;
            if !starving && r.chance(cfg.delay, 100) {
                delay = r.range(1, cfg.max_delay);
                *acted = true;
                out.count("relay_delayed");
            }
            if c > 0 {
                delay += r.range(0, cfg.max_delay * 2);
            }
            w.flight.push(InFlight { at: tick + delay, to_server, peer, generation, bytes: bytes.to_vec(), genuine: true, first: starving && c == 0 });
        }
    }
    if r.chance(cfg.replay, 100) && !w.history.is_empty() {
        let (ts, pk, b) = w.history[r.usize_below(w.history.len())].clone();
        // never towards a silenced peer: a replay of a session datagram it never received would be a
        // legitimate first arrival of an authentic packet and refresh its timeout
        if pk < w.peers.len() && !(!ts && w.silenced == Some((pk, w.peers[pk].generation))) {
            let g = w.peers[pk].generation;
            out.count("relay_replayed");
            *acted = true;
            w.flight.push(InFlight { at: tick + r.range(0, 5), to_server: ts, peer: pk, generation: g, bytes: b, genuine: false, first: false });
        }
    }
    if r.chance(cfg.corrupt, 100) {
        let mut b = bytes.to_vec();
        if !b.is_empty() {
            for _ in 0..r.range(1, 3) {
                let i = r.usize_below(b.len());
                b[i] ^= 1 << r.below(8);
            }
            out.count("relay_corrupted");
            *acted = true;
            w.flight.push(InFlight { at: tick + r.range(0, 3), to_server, peer, generation, bytes: b, genuine: false, first: false });
        }
    }
}

/// End-to-end channel oracles on one obtained message. dir 0 = client -> server.
fn check_message(ctx: &Ctx, out: &mut Outcome, w: &mut World, run_seed: u64, k: usize, dir: usize, ch: u8, m: &[u8]) -> bool {
    if w.peers[k].resurrected {
        out.count("e2e_messages_skipped_reestablished_session");
        return true;
    }
    out.count("e2e_messages_obtained");
    let l = &mut w.peers[k].led[dir][ch as usize];
    let problem: Option<(&'static str, String)> = match ch {
        CH_RO => {
            if l.subs.get(l.cursor).map(|s| s.as_slice()) == Some(m) {
                l.cursor += 1;
                None
            } else {
                Some(("ordered-not-prefix", format!("ordered message #{} (len {}) is not submission #{}", l.cursor, m.len(), l.cursor)))
            }
        }
        CH_RU => {
            let idx = match payload::parse(m) {
                Some(id) => {
                    let i = id.idx as usize;
                    if l.subs.get(i).map(|s| s.as_slice()) == Some(m) {
                        Some(i)
                    } else {
                        None
                    }
                }
                None => (0..l.subs.len()).find(|i| !l.obtained.contains(i) && l.subs[*i] == m),
            };
            match idx {
                Some(i) if l.obtained.insert(i) => None,
                Some(i) => Some(("unordered-duplicate", format!("unordered submission #{} obtained twice", i))),
                None => Some(("unordered-fabricated", format!("unordered message of {} bytes matches no submission", m.len()))),
            }
        }
        _ => {
            // an unreliable message travels in datagrams that are generated once (never retransmitted) and netcode
            // surfaces each generated datagram at most once (C04), so across the full stack the "at most as many times
            // as the network delivered its packets" of C03 is "at most once" whatever the relay duplicates or replays
            let (ok, again) = match payload::parse(m) {
                Some(id) => {
                    let i = id.idx as usize;
                    let ok = l.subs.get(i).map(|s| s.as_slice()) == Some(m);
                    (ok, ok && !l.obtained.insert(i))
                }
                None => (l.subs.iter().any(|s| s == m), false),
            };
            if again {
                Some(("unreliable-duplicate", format!("unreliable submission #{} ({} bytes) obtained a second time although every datagram carrying it was generated once", payload::parse(m).map_or(0, |id| id.idx), m.len())))
            } else if ok {
                None
            } else {
                Some(("unreliable-fabricated", format!("unreliable message of {} bytes matches no submission", m.len())))
            }
        }
    };
    if let Some((class, detail)) = problem {
        let id = w.peers[k].id;
        viol(ctx, out, w, run_seed, &format!("C20/e2e/{}", class), "across the full stack the channel guarantees still hold", format!("client {} dir {} ch {}: {}", id, dir, ch, detail));
        return false;
    }
    true
}
