//! C16 wire formats round-trip (renet packets, netcode packets, tokens); an ack packet denotes
//! exactly the recorded set.

use crate::nsim::{self, OPacket};
use crate::outcome::{Ctx, Outcome, PropInfo};
use crate::rng::{hex, Fnv, Rng};
use crate::watchdog;
use bytes::Bytes;
use renet::verif::{Packet, Slice};
use renet::{ConnectionConfig, RenetClient};
use renetcode::ConnectToken;
use serde_json::json;
use std::collections::BTreeSet;
use std::net::SocketAddr;
use std::ops::Range;

pub static INFO: PropInfo = PropInfo {
    id: "C16",
    level: "fault_enumeration",
    rule: "enumerated sub-spaces (exhaustive: true refers to these only): (E1) all 4096 subsets of a 12-element universe of packet sequence numbers, in 3 numberings, as ack sets: codec round trip of the range list, and fed through process_packet (ascending and one seeded shuffled order) to a fresh endpoint whose emitted Ack packet, decoded, must equal the recorded set (hook) and the fed set; and, the reading side, handed as an Ack to an endpoint that has packets base..base+11 in flight (one reliable message each), after which exactly the messages of the packets in the subset must be released (hook); (E2) every netcode packet kind x sequence-length class 0..8 bytes (sequence 0, 1, 2^8k-1, 2^8k) x payload length {0,1,1299,1300}: decode(encode(v)) = (sequence, v) with the crate's codec. Sampled: (S1) random renet packets of every kind with every field on varint boundaries (63/64, 16383/16384, 2^30, 2^62-1), 0..n messages of 0..1200 bytes, sorted non-adjacent range lists of 1..64 ranges incl. single-element ranges and gaps of exactly one: decode(encode(v)) == v; (S2) random and mutated byte strings: if decode(b) = v then decode(encode(v)) = v; (S3) sparse sequence sets of up to 90 ranges fed to an endpoint: emitted Ack == recorded set, subset of the fed set, <= 64 ranges, equal to the fed set whenever it never needed more than 64 ranges; beyond 64 ranges it must contain the highest sequence fed and the one fed last (unless below everything recorded) and, for ascending or descending feeds, equal exactly the 64 highest ranges of the fed set; (S4) connect tokens with 1..32 IPv4/IPv6 addresses (ordinary ones and the special forms of both families: 0.0.0.0, broadcast, loopback, IPv4-mapped and IPv4-compatible IPv6, ::, ::1, link-local, multicast, NAT64, all-ones, uniformly random; ports 0 and 65535) through write/read (also through a reader that hands the bytes out in pieces of 1, 7/64/3/500, one random or six random sizes per call) and seal/open (built through the hook codec, and by ConnectToken::generate with IPv6 scope ids / flow labels set on some addresses), and mutated token bytes through read -> write -> read. Non-trivial = a value with at least one multi-byte varint / non-empty body / >= 2 ranges / >= 2 addresses; distinct = distinct value fingerprints.",
    assumptions: &["values 'the library can build' are generated within the limits the library itself enforces when sending (message <= 1200 bytes in a small packet, slice payload 1..1200, slice index < slice count <= 10^6, <= 64 ack ranges, packet <= 1300 bytes)"],
    gates: &[
        ("ack_subsets_enumerated", 4096),
        ("netcode_grid_cases", 200),
        ("renet_values_roundtripped", 20_000),
        ("renet_bytes_decoded_ok", 2000),
        ("ack_feed_cases", 500),
        ("ack_reading_cases", 4096),
        ("tokens_roundtripped", 200),
        ("lib_tokens_with_scoped_ipv6", 50),
        ("token_bytes_decoded_ok", 200),
        ("ack_ranges_64", 10),
        ("ack_feed_overflowed_monotone", 50),
        ("renet_values_over_255_messages", 100),
    ],
    engines_quick: &["e1"],
    engines_thorough: &["e1", "e2", "e4"],
    run,
};

pub fn run(ctx: &Ctx, out: &mut Outcome) {
    if ctx.replay_seed.is_none() {
        enumerate_ack_subsets(ctx, out);
        enumerate_netcode_grid(ctx, out);
    }
    super::run_loop(ctx, out, 480_000, 12_000_000, 16, one_run);
}

fn enc(p: &Packet) -> Option<Vec<u8>> {
    let mut buf = vec![0u8; 70_000];
    let mut o = octets::OctetsMut::with_slice(&mut buf);
    match watchdog::catch(|| p.to_bytes(&mut o)) {
        Ok(Ok(n)) => {
            buf.truncate(n);
            Some(buf)
        }
        _ => None,
    }
}

fn dec(b: &[u8]) -> Result<Packet, String> {
    let mut o = octets::Octets::with_slice(b);
    match watchdog::catch(|| Packet::from_bytes(&mut o)) {
        Ok(Ok(p)) => Ok(p),
        Ok(Err(e)) => Err(format!("{:?}", e)),
        Err(c) => Err(format!("PANIC {}", c.class)),
    }
}

fn ranges_of(set: &BTreeSet<u64>) -> Vec<Range<u64>> {
    let mut v: Vec<Range<u64>> = Vec::new();
    for &x in set {
        match v.last_mut() {
            Some(l) if l.end == x => l.end = x + 1,
            _ => v.push(x..x + 1),
        }
    }
    v
}

fn empty_packet(seq: u64) -> Vec<u8> {
    enc(&Packet::SmallUnreliable {
        sequence: seq,
        channel_id: 0,
        messages: vec![],
    })
    .expect("encode")
}

fn viol(ctx: &Ctx, out: &mut Outcome, sig: &str, clause: &str, detail: String, extra: serde_json::Value, run_seed: u64, mode: &str) {
    let mut r = json!({"property": "C16", "engine": ctx.engine, "run_seed": format!("{:#x}", run_seed), "mode": mode});
    r["extra"] = extra;
    out.violation(ctx, sig, clause, detail, r);
}

/// Feeds sequences to a fresh endpoint and checks emitted ack == recorded == expected.
fn feed_and_check(ctx: &Ctx, out: &mut Outcome, order: &[u64], run_seed: u64, mode: &str) {
    let mut c = RenetClient::new(ConnectionConfig::default());
    c.set_connected();
    let mut fed: BTreeSet<u64> = BTreeSet::new();
    let mut overflowed = false;
    for &s in order {
        c.process_packet(&empty_packet(s));
        fed.insert(s);
        if ranges_of(&fed).len() > 64 {
            overflowed = true;
        }
    }
    out.count("ack_feed_cases");
    let recorded = c.verif_pending_acks();
    let pkts = c.get_packets_to_send();
    let mut acks: Vec<Vec<Range<u64>>> = Vec::new();
    for b in pkts.iter() {
        if let Ok(Packet::Ack { ack_ranges, .. }) = dec(b) {
            acks.push(ack_ranges);
        }
    }
    if order.is_empty() {
        return;
    }
    if c.is_disconnected() {
        viol(ctx, out, "C16/ack-feed/endpoint-disconnected", "ack packet denotes the recorded set", format!("endpoint disconnected with {:?} while acknowledging {} sequences", c.disconnect_reason(), order.len()), json!({"order_head": order.iter().take(20).collect::<Vec<_>>()}), run_seed, mode);
        return;
    }
    if acks.len() != 1 {
        viol(ctx, out, "C16/ack-feed/no-single-ack-packet", "ack packet denotes the recorded set", format!("{} ack packets emitted", acks.len()), json!({"order_head": order.iter().take(20).collect::<Vec<_>>()}), run_seed, mode);
        return;
    }
    let emitted = &acks[0];
    if emitted.len() >= 64 {
        out.count("ack_ranges_64");
    }
    if *emitted != recorded {
        viol(
            ctx,
            out,
            "C16/ack-packet-differs-from-recorded-set",
            "an acknowledgement packet denotes exactly the set recorded as received",
            format!("recorded {:?}.. emitted {:?}..", recorded.iter().take(6).collect::<Vec<_>>(), emitted.iter().take(6).collect::<Vec<_>>()),
            json!({"order_head": order.iter().take(40).collect::<Vec<_>>(), "recorded": format!("{:?}", recorded), "emitted": format!("{:?}", emitted)}),
            run_seed,
            mode,
        );
        return;
    }
    let expected = ranges_of(&fed);
    if !overflowed {
        if recorded != expected {
            viol(
                ctx,
                out,
                "C16/recorded-set-differs-from-received-set",
                "the recorded set equals the set of sequence numbers received (it never needed more than 64 ranges)",
                format!("expected {:?}.. recorded {:?}..", expected.iter().take(6).collect::<Vec<_>>(), recorded.iter().take(6).collect::<Vec<_>>()),
                json!({"order_head": order.iter().take(40).collect::<Vec<_>>(), "expected": format!("{:?}", expected), "recorded": format!("{:?}", recorded)}),
                run_seed,
                mode,
            );
        }
    } else {
        out.count("ack_feed_overflowed_64");
        // subset of the fed set, <= 64 ranges, contains the newest sequence fed
        let mut ok = recorded.len() <= 64;
        for r in recorded.iter() {
            for x in r.clone() {
                if !fed.contains(&x) {
                    ok = false;
                }
            }
        }
        // "newest 64 ranges": whichever way newest is read (by value or by arrival) the highest sequence fed stays recorded, the
        // sequence fed last stays recorded unless it lies below everything recorded, and for a monotone feed (ascending or
        // descending, where both readings coincide) the recorded set is exactly the 64 highest ranges of the fed set.
        let max_fed = *fed.iter().next_back().unwrap();
        if !recorded.iter().any(|r| r.contains(&max_fed)) {
            ok = false;
        }
        let last = *order.last().unwrap();
        let lowest = recorded.first().map(|r| r.start).unwrap_or(u64::MAX);
        if last > lowest && !recorded.iter().any(|r| r.contains(&last)) {
            ok = false;
        }
        let asc = order.windows(2).all(|w| w[0] < w[1]);
        let desc = order.windows(2).all(|w| w[0] > w[1]);
        if asc || desc {
            out.count("ack_feed_overflowed_monotone");
            let top: Vec<Range<u64>> = expected[expected.len() - 64..].to_vec();
            if recorded != top {
                ok = false;
            }
        }
        if !ok {
            viol(
                ctx,
                out,
                "C16/recorded-set-not-newest-64-ranges",
                "the newest 64 ranges of the received set",
                format!("{} ranges recorded after feeding {} sequences", recorded.len(), order.len()),
                json!({"order_head": order.iter().take(40).collect::<Vec<_>>(), "recorded": format!("{:?}", recorded)}),
                run_seed,
                mode,
            );
        }
    }
}

/// What an acknowledgement packet denotes is also what its reader takes it to denote: a sender with packets
/// base..base+11 in flight (message i travelled in packet base+i) that processes Ack(set) must release exactly the
/// messages whose packet is in the set.
fn ack_reading(ctx: &Ctx, out: &mut Outcome, base: u64, set: &BTreeSet<u64>) {
    let mut c = RenetClient::new(ConnectionConfig::default());
    c.set_connected();
    c.verif_seed_counters(base, 0);
    let ch = 2u8; // default configuration: channel 2 is ReliableOrdered
    let mut seqs: Vec<u64> = Vec::new();
    for i in 0..12u8 {
        c.send_message(ch, Bytes::from(vec![i; 5]));
        for p in c.get_packets_to_send() {
            if let Ok(Packet::SmallReliable { sequence, .. }) = dec(&p) {
                seqs.push(sequence);
            }
        }
    }
    if seqs != (0..12).map(|i| base + i).collect::<Vec<u64>>() {
        out.count("ack_reading_void");
        return;
    }
    // sometimes the Ack also announces a long run far above everything in flight (a receiver that got tens of
    // thousands of later packets): it must not change how the ranges below it are read
    let mut ranges = ranges_of(set);
    let far = base + 12 + 3 + (set.len() as u64 % 5);
    let width = [0u64, 300, 65_536, 70_000, 1 << 33][(set.iter().sum::<u64>() % 5) as usize];
    if width > 0 {
        ranges.push(far..far + width);
        out.count("ack_reading_with_wide_upper_range");
    }
    let ack = Packet::Ack { sequence: 0, ack_ranges: ranges };
    let Some(b) = enc(&ack) else { return };
    c.process_packet(&b);
    out.count("ack_reading_cases");
    let unacked: BTreeSet<u64> = c.verif_unacked(ch).unwrap_or_default().into_iter().collect();
    let expected: BTreeSet<u64> = (0..12u64).filter(|i| !set.contains(&(base + i))).collect();
    if unacked != expected || c.is_disconnected() {
        viol(
            ctx,
            out,
            "C16/ack-packet-read-as-another-set",
            "an acknowledgement packet denotes exactly the set of sequence numbers recorded as received",
            format!("packets {}..{} in flight, Ack denoting {:?} processed: messages still unacknowledged {:?}, expected {:?}", base, base + 11, ranges_of(set), unacked, expected),
            json!({"base": base, "set": format!("{:?}", set)}),
            0,
            "enumerate",
        );
    }
}

fn enumerate_ack_subsets(ctx: &Ctx, out: &mut Outcome) {
    let mut complete = true;
    let mut r = Rng::new(ctx.shard_seed(0xACC));
    for mask in 0u32..4096 {
        if (mask as usize) % ctx.nshards != ctx.shard {
            continue;
        }
        if ctx.over_budget() {
            complete = false;
            break;
        }
        for (base, stride) in [(0u64, 1u64), (60, 1), ((1u64 << 30) - 6, 1)] {
            let set: BTreeSet<u64> = (0..12).filter(|i| mask & (1 << i) != 0).map(|i| base + i as u64 * stride).collect();
            if set.is_empty() {
                continue;
            }
            // codec
            let ranges = ranges_of(&set);
            let v = Packet::Ack { sequence: base, ack_ranges: ranges.clone() };
            match enc(&v).ok_or("encode failed".to_string()).and_then(|b| dec(&b)) {
                Ok(d) if d == v => {}
                other => {
                    viol(ctx, out, "C16/renet-roundtrip/ack", "decode(encode(v)) == v", format!("ack ranges {:?} -> {:?}", ranges, other), json!({"ranges": format!("{:?}", ranges)}), 0, "enumerate");
                }
            }
            // the reading side: an endpoint that sent 12 packets (base .. base+11, one reliable message each) and is
            // handed this Ack must regard exactly the packets of the set as acknowledged
            ack_reading(ctx, out, base, &set);
            // endpoint
            let asc: Vec<u64> = set.iter().copied().collect();
            feed_and_check(ctx, out, &asc, 0, "enumerate");
            let mut sh = asc.clone();
            r.shuffle(&mut sh);
            feed_and_check(ctx, out, &sh, 0, "enumerate");
        }
        out.count("ack_subsets_enumerated");
        out.eval(crate::rng::mix(&[0xACC, mask as u64]), mask.count_ones() >= 2);
    }
    if ctx.shard == 0 {
        out.sample(json!({"mode": "enumerate-ack-subsets", "universe": 12, "subsets": 4096, "numberings": ["0+i", "60+i (crosses the 63/64 varint boundary)", "2^30-6+i (crosses the 2^30 varint boundary)"]}));
    }
    out.exhaustive = Some(out.exhaustive.unwrap_or(true) && complete);
}

fn seq_classes() -> Vec<u64> {
    let mut v = vec![0u64, 1, 2, 255];
    for k in 1..8 {
        v.push((1u64 << (8 * k)) - 1);
        v.push(1u64 << (8 * k));
    }
    v.push(u64::MAX - 1);
    v.push(u64::MAX);
    v
}

fn netcode_roundtrip(ctx: &Ctx, out: &mut Outcome, p: &OPacket, seq: u64, key: &[u8; 32], protocol: u64, run_seed: u64, mode: &str) {
    let crypto = if matches!(p, OPacket::Request { .. }) { None } else { Some((seq, key)) };
    let Some(b) = p.encode(protocol, crypto) else {
        viol(ctx, out, &format!("C16/netcode-roundtrip/encode-failed/{}", p.name()), "decode(encode(v)) == v", format!("encode of {} seq {} failed", p.name(), seq), json!({"kind": p.name(), "sequence": seq}), run_seed, mode);
        return;
    };
    let opened = match watchdog::catch(|| nsim::open(&b, protocol, Some(key))) {
        Ok(o) => o,
        Err(c) => {
            // a panic in the decoder on the library's own output is a round-trip failure too
            viol(ctx, out, &format!("C16/netcode-roundtrip/decode-panicked/{}", p.name()), "decode(encode(v)) == v", format!("decode of {} seq {} panicked: {}", p.name(), seq, c.msg), json!({"kind": p.name(), "sequence": seq, "bytes": hex(&b[..b.len().min(64)])}), run_seed, mode);
            return;
        }
    };
    let expect_seq = if crypto.is_some() { seq } else { 0 };
    match opened {
        Some((s, q)) if s == expect_seq && q == *p => {}
        other => {
            let class = match (&other, p) {
                (None, OPacket::Disconnect | OPacket::Denied) if seq == 0 => "empty-body-seq0".to_string(),
                (None, OPacket::Payload(v)) if seq == 0 && v.is_empty() => "empty-body-seq0".to_string(),
                _ => p.name().to_string(),
            };
            viol(
                ctx,
                out,
                &format!("C16/netcode-roundtrip/{}", class),
                "decode(encode(v)) == v for every netcode packet kind with any sequence number",
                format!("{} with sequence {} encodes to {} bytes which decode to {:?}", p.name(), seq, b.len(), other.map(|(s, q)| (s, q.name()))),
                json!({"kind": p.name(), "sequence": seq, "len": b.len(), "bytes": hex(&b[..b.len().min(64)])}),
                run_seed,
                mode,
            );
        }
    }
}

fn enumerate_netcode_grid(ctx: &Ctx, out: &mut Outcome) {
    let mut r = Rng::new(0x6E7C0DE);
    let mut key = [0u8; 32];
    r.fill(&mut key);
    let protocol = 0x1122_3344_5566_7788;
    let mut i = 0usize;
    for seq in seq_classes() {
        let mut kinds: Vec<OPacket> = vec![
            OPacket::Denied,
            OPacket::Disconnect,
            OPacket::KeepAlive { client_index: 0, max_clients: 0 },
            OPacket::KeepAlive { client_index: u32::MAX, max_clients: 1024 },
            OPacket::Challenge { token_sequence: seq, token_data: Box::new([0xA5; 300]) },
            OPacket::Response { token_sequence: !seq, token_data: Box::new([0x5A; 300]) },
        ];
        for len in [0usize, 1, 1299, 1300] {
            kinds.push(OPacket::Payload(r.bytes(len)));
        }
        kinds.push(OPacket::Request {
            version_info: nsim::VERSION_INFO,
            protocol_id: protocol,
            expire_timestamp: seq,
            xnonce: [7; 24],
            data: Box::new([9; 1024]),
        });
        for p in kinds {
            i += 1;
            if i % ctx.nshards != ctx.shard {
                continue;
            }
            netcode_roundtrip(ctx, out, &p, seq, &key, protocol, 0, "enumerate");
            out.count("netcode_grid_cases");
            out.eval(crate::rng::mix(&[0x6E7, seq, p.type_id() as u64, i as u64]), true);
        }
    }
    if ctx.shard == 0 {
        out.sample(json!({"mode": "enumerate-netcode-grid", "sequence_classes": seq_classes().len(), "kinds": ["denied", "disconnect", "keepalive x2", "challenge", "response", "payload x {0,1,1299,1300}", "request"]}));
    }
}

fn gen_ranges(r: &mut Rng, n: usize) -> Vec<Range<u64>> {
    let mut v = Vec::new();
    let mut x = match r.below(3) {
        0 => r.below(100),
        1 => r.boundary_varint() >> 1,
        _ => 0,
    };
    for _ in 0..n {
        // range lengths also sit on the width boundaries of their varint encoding (a long run of packets received
        // while no acknowledgement of an Ack came back)
        let len = match r.below(5) {
            0 => 1,
            1 => 2,
            2 => *r.pick(&[63u64, 64, 255, 256, 16_383, 16_384, 65_535, 65_536, 65_537, 1 << 20, (1 << 30) + 1, (1 << 32) + 5]),
            _ => 1 + r.below(70),
        };
        if x >= (1 << 62) - len - 2 {
            break;
        }
        v.push(x..x + len);
        let gap = match r.below(6) {
            0 => 1,
            1 => 2,
            2 => 64,
            3 => 16384,
            4 => 1 << 30,
            _ => 1 + r.below(40),
        };
        x = x + len + gap;
    }
    if v.is_empty() {
        v.push(5..6);
    }
    v
}

fn gen_packet(r: &mut Rng) -> Packet {
    let sequence = r.boundary_varint();
    let channel_id = r.below(256) as u8;
    match r.below(6) {
        5 => {
            // hundreds of tiny messages in one packet (the message count needs more than one byte)
            let n = *r.pick(&[255usize, 256, 257, 300, 511, 512, 590]);
            let reliable = r.chance(1, 2);
            if reliable {
                let base = if r.chance(1, 2) { r.below(40) } else { 0 };
                let messages = (0..n).map(|i| (base + (i as u64 % 60), Bytes::from(if r.chance(1, 8) { r.bytes(1) } else { Vec::new() }))).collect::<Vec<_>>();
                // keep it within 1200 payload bytes: ids < 64 take one byte, length one byte
                Packet::SmallReliable { sequence, channel_id, messages }
            } else {
                let messages = (0..n).map(|_| Bytes::from(if r.chance(1, 4) { r.bytes(1) } else { Vec::new() })).collect::<Vec<_>>();
                Packet::SmallUnreliable { sequence, channel_id, messages }
            }
        }
        0 => {
            let n = r.urange(0, 8);
            let mut left = 1200usize;
            let mut messages = Vec::new();
            for _ in 0..n {
                let len = match r.below(4) {
                    0 => 0,
                    1 => r.urange(0, 70).min(left),
                    _ => r.urange(0, left),
                };
                left -= len.min(left);
                messages.push((r.boundary_varint(), Bytes::from(r.bytes(len))));
                if left < 20 {
                    break;
                }
            }
            Packet::SmallReliable { sequence, channel_id, messages }
        }
        1 => {
            let n = r.urange(0, 8);
            let mut left = 1200usize;
            let mut messages = Vec::new();
            for _ in 0..n {
                let len = r.urange(0, left);
                left -= len;
                messages.push(Bytes::from(r.bytes(len)));
                if left < 20 {
                    break;
                }
            }
            Packet::SmallUnreliable { sequence, channel_id, messages }
        }
        2 | 3 => {
            let num_slices = match r.below(4) {
                0 => 2,
                1 => 1_000_000,
                2 => *r.pick(&[63usize, 64, 65, 16383, 16384]),
                _ => r.urange(2, 5000),
            };
            let slice_index = match r.below(3) {
                0 => 0,
                1 => num_slices - 1,
                _ => r.urange(0, num_slices - 1),
            };
            let len = match r.below(3) {
                0 => 1200,
                1 => 1,
                _ => r.urange(1, 1200),
            };
            let slice = Slice {
                message_id: r.boundary_varint(),
                slice_index,
                num_slices,
                payload: Bytes::from(r.bytes(len)),
            };
            if r.chance(1, 2) {
                Packet::ReliableSlice { sequence, channel_id, slice }
            } else {
                Packet::UnreliableSlice { sequence, channel_id, slice }
            }
        }
        _ => {
            let n = *r.pick(&[1usize, 1, 2, 3, 8, 33, 63, 64]);
            Packet::Ack { sequence, ack_ranges: gen_ranges(r, n) }
        }
    }
}

fn packet_fp(p: &Packet) -> (u64, bool) {
    let mut f = Fnv::new();
    let mut nontrivial = p.sequence() >= 64;
    match p {
        Packet::SmallReliable { channel_id, messages, .. } => {
            f.u64(0);
            f.u64(*channel_id as u64);
            for (i, m) in messages {
                f.u64(*i);
                f.u64(m.len() as u64);
            }
            nontrivial |= !messages.is_empty();
        }
        Packet::SmallUnreliable { channel_id, messages, .. } => {
            f.u64(1);
            f.u64(*channel_id as u64);
            for m in messages {
                f.u64(m.len() as u64);
            }
            nontrivial |= !messages.is_empty();
        }
        Packet::ReliableSlice { slice, .. } | Packet::UnreliableSlice { slice, .. } => {
            f.u64(2);
            f.u64(slice.message_id);
            f.u64(slice.slice_index as u64);
            f.u64(slice.num_slices as u64);
            f.u64(slice.payload.len() as u64);
            nontrivial = true;
        }
        Packet::Ack { ack_ranges, .. } => {
            f.u64(4);
            for r in ack_ranges {
                f.u64(r.start);
                f.u64(r.end);
            }
            nontrivial |= ack_ranges.len() >= 2;
        }
    }
    f.u64(p.sequence());
    (f.finish(), nontrivial)
}

fn gen_addrs(r: &mut Rng, n: usize) -> Vec<SocketAddr> {
    use std::net::{IpAddr, Ipv4Addr, Ipv6Addr};
    (0..n)
        .map(|i| {
            let port = match r.below(16) {
                0 => 0,
                1 => 65535,
                _ => r.range(1, 65535) as u16,
            };
            let v4 = |r: &mut Rng| match r.below(8) {
                0 => Ipv4Addr::new(0, 0, 0, 0),
                1 => Ipv4Addr::new(255, 255, 255, 255),
                2 => Ipv4Addr::new(127, 0, 0, 1),
                3 | 4 => Ipv4Addr::from(r.next_u64() as u32),
                _ => Ipv4Addr::new(10, r.below(255) as u8, i as u8, r.below(255) as u8),
            };
            match r.below(12) {
                0..=4 => nsim::addr4(r.below(255) as u8, i as u8, port.max(1)),
                5 => SocketAddr::new(IpAddr::V4(v4(r)), port),
                // the special forms of the IPv6 address space: what is stored is what has to come back, family included
                6 => SocketAddr::new(IpAddr::V6(v4(r).to_ipv6_mapped()), port),
                7 => {
                    let o = v4(r).octets();
                    SocketAddr::new(IpAddr::V6(Ipv6Addr::new(0, 0, 0, 0, 0, 0, u16::from_be_bytes([o[0], o[1]]), u16::from_be_bytes([o[2], o[3]]))), port)
                }
                8 => {
                    let ip = match r.below(6) {
                        0 => Ipv6Addr::LOCALHOST,
                        1 => Ipv6Addr::UNSPECIFIED,
                        2 => Ipv6Addr::new(0xfe80, 0, 0, 0, r.below(65536) as u16, 0, 0, 1),
                        3 => Ipv6Addr::new(0xff02, 0, 0, 0, 0, 0, 0, 1),
                        4 => Ipv6Addr::new(0x64, 0xff9b, 0, 0, 0, 0, r.below(65536) as u16, r.below(65536) as u16),
                        _ => Ipv6Addr::from([0xffu8; 16]),
                    };
                    SocketAddr::new(IpAddr::V6(ip), port)
                }
                9 => SocketAddr::new(IpAddr::V6(Ipv6Addr::from(((r.next_u64() as u128) << 64) | r.next_u64() as u128)), port),
                _ => nsim::addr6(r.below(65536) as u16, port.max(1)),
            }
        })
        .collect()
}

pub fn one_run(ctx: &Ctx, out: &mut Outcome, run_seed: u64) {
    let mut r = Rng::new(run_seed);
    match r.below(20) {
        0..=9 => {
            // S1 renet values
            for _ in 0..8 {
                let v = gen_packet(&mut r);
                let (fp, nt) = packet_fp(&v);
                match enc(&v) {
                    None => {
                        viol(ctx, out, "C16/renet-roundtrip/encode-failed", "decode(encode(v)) == v", format!("encode failed for {}", crate::rsim::brief(&v)), json!({"value": crate::rsim::brief(&v)}), run_seed, "renet-value");
                    }
                    Some(b) => match dec(&b) {
                        Ok(d) if d == v => {
                            out.count("renet_values_roundtripped");
                            match &v {
                                Packet::SmallReliable { messages, .. } if messages.len() > 255 => out.count("renet_values_over_255_messages"),
                                Packet::SmallUnreliable { messages, .. } if messages.len() > 255 => out.count("renet_values_over_255_messages"),
                                _ => {}
                            }
                            out.max("renet_encoded_len", b.len() as u64);
                        }
                        other => {
                            let kind = match &v {
                                Packet::SmallReliable { .. } => "small-reliable",
                                Packet::SmallUnreliable { .. } => "small-unreliable",
                                Packet::ReliableSlice { .. } => "reliable-slice",
                                Packet::UnreliableSlice { .. } => "unreliable-slice",
                                Packet::Ack { .. } => "ack",
                            };
                            viol(
                                ctx,
                                out,
                                &format!("C16/renet-roundtrip/{}", kind),
                                "decode(encode(v)) == v",
                                format!("{} -> {} bytes -> {:?}", crate::rsim::brief(&v), b.len(), other.as_ref().map(crate::rsim::brief)),
                                json!({"value": crate::rsim::brief(&v), "bytes": hex(&b[..b.len().min(80)])}),
                                run_seed,
                                "renet-value",
                            );
                        }
                    },
                }
                out.eval(fp, nt);
            }
        }
        10..=13 => {
            // S2 bytes: decode -> encode -> decode
            for _ in 0..8 {
                let b: Vec<u8> = match r.below(3) {
                    0 => {
                        let n = r.urange(0, 200);
                        let mut b = r.bytes(n);
                        if !b.is_empty() {
                            b[0] = r.below(5) as u8;
                        }
                        b
                    }
                    _ => {
                        let v = gen_packet(&mut r);
                        let mut b = enc(&v).unwrap_or_default();
                        if !b.is_empty() {
                            match r.below(3) {
                                0 => {
                                    let i = r.usize_below(b.len().min(16));
                                    b[i] ^= 1 << r.below(8);
                                }
                                1 => {
                                    let i = r.usize_below(b.len().min(24));
                                    b[i] = r.below(256) as u8;
                                }
                                _ => {
                                    let n = r.urange(0, b.len());
                                    b.truncate(n);
                                }
                            }
                        }
                        b
                    }
                };
                out.count("renet_bytes_tried");
                if let Ok(v) = dec(&b) {
                    out.count("renet_bytes_decoded_ok");
                    let (fp, _) = packet_fp(&v);
                    let again = enc(&v).ok_or("encode failed".to_string()).and_then(|b2| dec(&b2));
                    match again {
                        Ok(d) if d == v => {}
                        other => {
                            viol(
                                ctx,
                                out,
                                "C16/renet-bytes-reencode",
                                "a byte string that decodes successfully re-encodes to bytes that decode to the same value",
                                format!("bytes {} decode to {} but re-encoding gives {:?}", hex(&b[..b.len().min(40)]), crate::rsim::brief(&v), other.as_ref().map(crate::rsim::brief)),
                                json!({"bytes": hex(&b)}),
                                run_seed,
                                "renet-bytes",
                            );
                        }
                    }
                    out.eval(fp, true);
                } else {
                    out.eval(crate::rng::fnv1a(&b), false);
                }
            }
        }
        14..=15 => {
            // S3 sparse sequence sets fed to an endpoint
            let n = *r.pick(&[1usize, 2, 10, 40, 63, 64, 64, 65, 90]);
            let ranges = gen_ranges(&mut r, n);
            let mut order: Vec<u64> = ranges.iter().flat_map(|x| x.clone().take(6)).collect();
            match r.below(3) {
                0 => {}
                1 => order.reverse(),
                _ => r.shuffle(&mut order),
            }
            feed_and_check(ctx, out, &order, run_seed, "ack-feed");
            let mut f = Fnv::new();
            for s in order.iter() {
                f.u64(*s);
            }
            out.eval(f.finish(), n >= 2);
        }
        16..=17 => {
            // netcode values with random sequence numbers and keys
            let mut key = [0u8; 32];
            r.fill(&mut key);
            let protocol = r.next_u64();
            let seq = r.boundary_u64();
            let p = match r.below(6) {
                0 => OPacket::Denied,
                1 => OPacket::Disconnect,
                2 => OPacket::KeepAlive { client_index: r.next_u64() as u32, max_clients: r.next_u64() as u32 },
                3 => {
                    let mut d = [0u8; 300];
                    r.fill(&mut d);
                    OPacket::Challenge { token_sequence: r.boundary_u64(), token_data: Box::new(d) }
                }
                4 => {
                    let mut d = [0u8; 300];
                    r.fill(&mut d);
                    OPacket::Response { token_sequence: r.boundary_u64(), token_data: Box::new(d) }
                }
                _ => {
                    let n = *r.pick(&[0usize, 1, 2, 17, 1299, 1300]);
                    OPacket::Payload(r.bytes(n))
                }
            };
            netcode_roundtrip(ctx, out, &p, seq, &key, protocol, run_seed, "netcode-value");
            out.count("netcode_values_roundtripped");
            out.eval(crate::rng::mix(&[seq, p.type_id() as u64, run_seed]), true);
        }
        _ => tokens(ctx, out, run_seed, &mut r),
    }
}

fn tokens(ctx: &Ctx, out: &mut Outcome, run_seed: u64, r: &mut Rng) {
    let mut key = [0u8; 32];
    r.fill(&mut key);
    let n = r.urange(1, 32);
    let addrs = gen_addrs(r, n);
    let protocol = r.boundary_u64();
    let now = r.below(1 << 40);
    let cid = r.boundary_u64();
    let timeout = *r.pick(&[-1i32, 0, 1, 15, i32::MAX]);
    let expire_in = r.below(100_000) + 1;
    let m = nsim::mint(r, now, protocol, expire_in, cid, timeout, &addrs, None, &key);
    // public token write/read
    let bytes = nsim::token_bytes(&m.token);
    match watchdog::catch(|| ConnectToken::read(&mut &bytes[..])) {
        Ok(Ok(t)) if t == m.token => {
            out.count("tokens_roundtripped");
            out.max("token_addresses", n as u64);
        }
        other => {
            viol(
                ctx,
                out,
                "C16/token-roundtrip/public",
                "connect tokens round-trip through write/read",
                format!("token with {} addresses does not read back equal: {:?}", n, other.map(|r| r.map(|_| "different value").map_err(|e| format!("{:?}", e))).map_err(|c| c.msg)),
                json!({"addresses": n}),
                run_seed,
                "token",
            );
        }
    }
    // the same bytes through a reader that hands them out in pieces (a stream that delivers the token in several
    // segments, a small-buffer reader): `read` takes any io::Read, a short read is not the end of the data
    {
        struct Chunked<'a> {
            data: &'a [u8],
            pos: usize,
            sizes: Vec<usize>,
            k: usize,
        }
        impl std::io::Read for Chunked<'_> {
            fn read(&mut self, buf: &mut [u8]) -> std::io::Result<usize> {
                let want = self.sizes[self.k % self.sizes.len()].max(1);
                self.k += 1;
                let n = want.min(buf.len()).min(self.data.len() - self.pos);
                buf[..n].copy_from_slice(&self.data[self.pos..self.pos + n]);
                self.pos += n;
                Ok(n)
            }
        }
        let sizes: Vec<usize> = match r.below(4) {
            0 => vec![1],
            1 => vec![7, 64, 3, 500],
            2 => vec![r.urange(1, 40)],
            _ => (0..6).map(|_| r.urange(1, 1200)).collect(),
        };
        let mut rd = Chunked { data: &bytes, pos: 0, sizes: sizes.clone(), k: 0 };
        out.count("tokens_read_through_a_chunked_reader");
        match watchdog::catch(|| ConnectToken::read(&mut rd)) {
            Ok(Ok(t)) if t == m.token => {}
            other => {
                viol(
                    ctx,
                    out,
                    "C16/token-roundtrip/public/chunked-reader",
                    "connect tokens round-trip through write/read",
                    format!("token of {} bytes does not read back equal from a reader that returns {:?} bytes per call: {:?}", bytes.len(), sizes, other.map(|r| r.map(|_| "different value").map_err(|e| format!("{:?}", e))).map_err(|c| c.msg)),
                    json!({"addresses": n, "chunk_sizes": sizes}),
                    run_seed,
                    "token",
                );
            }
        }
    }
    // a token from the library's own generator; IPv6 server addresses may carry a scope id / flow label
    // (SocketAddrV6 has both, the token format has neither)
    if r.chance(1, 2) {
        let mut lib_addrs = addrs.clone();
        let mut scoped = false;
        for a in lib_addrs.iter_mut() {
            if let SocketAddr::V6(v6) = a {
                if r.chance(1, 2) {
                    v6.set_scope_id(r.range(1, 40) as u32);
                    scoped = true;
                }
                if r.chance(1, 4) {
                    v6.set_flowinfo(r.range(1, 1 << 20) as u32);
                    scoped = true;
                }
            }
        }
        let gen = watchdog::catch(|| ConnectToken::generate(std::time::Duration::from_secs(now), protocol, expire_in, cid, timeout, lib_addrs.clone(), None, &key));
        if let Ok(Ok(t)) = gen {
            out.count("lib_tokens_generated");
            if scoped {
                out.count("lib_tokens_with_scoped_ipv6");
            }
            let b = nsim::token_bytes(&t);
            match watchdog::catch(|| ConnectToken::read(&mut &b[..])) {
                Ok(Ok(t2)) if t2 == t => {}
                other => {
                    let first_diff = match &other {
                        Ok(Ok(t2)) => t.server_addresses.iter().zip(t2.server_addresses.iter()).find(|(x, y)| x != y).map(|(x, y)| format!("{:?} read back as {:?}", x, y)),
                        _ => None,
                    };
                    viol(
                        ctx,
                        out,
                        if scoped { "C16/token-roundtrip/public/ipv6-scope" } else { "C16/token-roundtrip/public" },
                        "connect tokens round-trip through write/read",
                        format!("a token built by ConnectToken::generate with {} addresses does not read back equal ({:?})", n, first_diff),
                        json!({"addresses": lib_addrs.iter().take(6).map(|a| format!("{:?}", a)).collect::<Vec<_>>()}),
                        run_seed,
                        "token",
                    );
                }
            }
        }
    }
    // private part seal/open
    match renetcode::verif::private_token_decode(&m.token.private_data, protocol, m.expire, &m.token.xnonce, &key) {
        Ok(p) if p == m.private => {
            out.count("private_tokens_roundtripped");
        }
        other => {
            viol(
                ctx,
                out,
                "C16/token-roundtrip/private",
                "connect tokens round-trip through seal/open",
                format!("private token with {} addresses: {:?}", n, other.map(|_| "different value").map_err(|e| format!("{:?}", e))),
                json!({"addresses": n}),
                run_seed,
                "token",
            );
        }
    }
    // mutated public token bytes: read -> write -> read
    for _ in 0..6 {
        let mut b = bytes.clone();
        // the address list starts after id(8) version(13) protocol(8) create(8) expire(8) xnonce(24) private(1024) timeout(4)
        let list = 8 + 13 + 8 + 8 + 8 + 24 + 1024 + 4;
        match r.below(4) {
            0 => {
                // address type byte of some entry
                let mut off = list + 4;
                let k = r.urange(0, n - 1);
                for a in addrs.iter().take(k) {
                    off += if a.is_ipv4() { 1 + 4 + 2 } else { 1 + 16 + 2 };
                }
                if off < b.len() {
                    b[off] = *r.pick(&[0u8, 1, 2, 3]);
                }
            }
            1 => {
                let cnt = *r.pick(&[0u32, 1, n as u32, 31, 32, 33, u32::MAX]);
                b[list..list + 4].copy_from_slice(&cnt.to_le_bytes());
            }
            2 => {
                let i = list + r.usize_below(b.len() - list);
                b[i] ^= 1 << r.below(8);
            }
            _ => {
                let i = r.usize_below(b.len());
                b[i] ^= 1 << r.below(8);
            }
        }
        out.count("token_bytes_tried");
        let first = watchdog::catch(|| ConnectToken::read(&mut &b[..]));
        let Ok(Ok(t1)) = first else {
            continue; // rejected (or panicked: C07 decides that)
        };
        out.count("token_bytes_decoded_ok");
        let b2 = nsim::token_bytes(&t1);
        let second = watchdog::catch(|| ConnectToken::read(&mut &b2[..]));
        match second {
            Ok(Ok(t2)) if t2 == t1 => {}
            other => {
                let holes = t1.server_addresses.iter().take_while(|a| a.is_some()).count() != t1.server_addresses.iter().filter(|a| a.is_some()).count();
                let class = if holes || t1.server_addresses.iter().all(|a| a.is_none()) { "address-list-with-holes" } else { "other" };
                viol(
                    ctx,
                    out,
                    &format!("C16/token-bytes-reencode/{}", class),
                    "a byte string that decodes successfully re-encodes to bytes that decode to the same value",
                    format!("token bytes decode to a value with addresses {:?} that does not survive write/read: {:?}", t1.server_addresses.iter().take(4).collect::<Vec<_>>(), other.map(|r| r.map(|t| format!("{:?}", t.server_addresses.iter().take(4).collect::<Vec<_>>())).map_err(|e| format!("{:?}", e))).map_err(|c| c.msg)),
                    json!({"mutated_region_hex": hex(&b[list..(list + 64).min(b.len())])}),
                    run_seed,
                    "token",
                );
            }
        }
    }
    out.eval(crate::rng::mix(&[run_seed, n as u64]), n >= 2);
    if out.samples.len() < out.max_samples {
        out.sample(json!({"mode": "token", "addresses": addrs.iter().take(3).map(|a| a.to_string()).collect::<Vec<_>>(), "n_addresses": n, "timeout": timeout, "protocol_id": protocol}));
    }
}
