//! Shared helpers of the netcode property modules C04, C05, C10, C18 (not a property itself):
//! request / response crafting through the crate's own codec, challenge recovery, a bounded
//! human-readable history for witnesses and the common panic report.

use crate::nsim::{open, OPacket, VERSION_INFO};
use crate::outcome::{Ctx, Outcome};
use crate::rng::{hex, Rng};
use crate::watchdog::Caught;
use renetcode::ConnectToken;
use serde_json::{json, Value};
use std::net::SocketAddr;

/// Challenge blob as it travels in Challenge and Response packets.
pub type Blob = (u64, Box<[u8; 300]>);

pub fn rkey(r: &mut Rng) -> [u8; 32] {
    let mut k = [0u8; 32];
    r.fill(&mut k);
    k
}

/// The connection request datagram an honest client would send for this token.
pub fn request_bytes(t: &ConnectToken) -> Vec<u8> {
    OPacket::Request {
        version_info: VERSION_INFO,
        protocol_id: t.protocol_id,
        expire_timestamp: t.expire_timestamp,
        xnonce: t.xnonce,
        data: Box::new(t.private_data),
    }
    .encode(t.protocol_id, None)
    .expect("request encode")
}

/// A Response datagram carrying `blob`, sealed under `c2s` with packet sequence `seq`.
pub fn response_bytes(protocol_id: u64, seq: u64, c2s: &[u8; 32], blob: &Blob) -> Vec<u8> {
    OPacket::Response {
        token_sequence: blob.0,
        token_data: blob.1.clone(),
    }
    .encode(protocol_id, Some((seq, c2s)))
    .expect("response encode")
}

/// Opens a server reply with the token's server-to-client key; Some(blob) if it is a Challenge.
pub fn challenge_of(reply: &[u8], protocol_id: u64, s2c: &[u8; 32]) -> Option<Blob> {
    match open(reply, protocol_id, Some(s2c)) {
        Some((_, OPacket::Challenge { token_sequence, token_data })) => Some((token_sequence, token_data)),
        _ => None,
    }
}

/// Opens a client datagram with a client-to-server key; Some(blob) if it is a Response.
pub fn response_blob(dgram: &[u8], protocol_id: u64, c2s: &[u8; 32]) -> Option<Blob> {
    match open(dgram, protocol_id, Some(c2s)) {
        Some((_, OPacket::Response { token_sequence, token_data })) => Some((token_sequence, token_data)),
        _ => None,
    }
}

/// Sealed packet of a replay-protected kind under a session key.
pub fn sealed(p: &OPacket, protocol_id: u64, seq: u64, key: &[u8; 32]) -> Vec<u8> {
    p.encode(protocol_id, Some((seq, key))).expect("sealed encode")
}

/// Bounded operation history kept for the witness file.
#[derive(Default)]
pub struct Hist {
    pub total: u64,
    pub head: Vec<String>,
    pub tail: std::collections::VecDeque<String>,
}

impl Hist {
    pub fn push(&mut self, s: String) {
        self.total += 1;
        if self.head.len() < 40 {
            self.head.push(s);
        } else {
            if self.tail.len() >= 60 {
                self.tail.pop_front();
            }
            self.tail.push_back(s);
        }
    }
    pub fn json(&self) -> Value {
        json!({"operations": self.total, "first": self.head, "last": self.tail.iter().collect::<Vec<_>>()})
    }
}

pub fn short_hex(b: &[u8]) -> String {
    if b.len() <= 48 {
        hex(b)
    } else {
        format!("{}..({} bytes)", hex(&b[..48]), b.len())
    }
}

pub fn a(addr: SocketAddr) -> String {
    addr.to_string()
}

/// Reports a caught panic as a violation of "returns normally" (classified separately from the
/// property's own clauses: signature `<prop>/panic/<class>`).
#[allow(clippy::too_many_arguments)]
pub fn report_panic(ctx: &Ctx, out: &mut Outcome, prop: &str, label: &str, input: &[u8], c: &Caught, run_seed: u64, mode: &str, hist: &Hist) {
    out.count("panics_caught");
    out.violation(
        ctx,
        &format!("{}/panic/{}", prop, c.class),
        "the call returns normally (no panic) on any datagram",
        format!("{} panicked at {}: {}", label, c.loc, c.msg),
        json!({
            "property": prop, "engine": ctx.engine, "run_seed": format!("{:#x}", run_seed), "mode": mode,
            "call": label, "input_hex": hex(input), "history": hist.json(),
        }),
    );
}
