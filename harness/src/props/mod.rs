//! Property registry: one module per property (DESIGN section 4).

use crate::outcome::{Ctx, Outcome, PropInfo};

pub mod c01;
pub mod c02;
pub mod c03;
pub mod c04;
pub mod c05;
pub mod c06;
pub mod c07;
pub mod c08;
pub mod c09;
pub mod c10;
pub mod c11;
pub mod c12;
pub mod c13;
pub mod c14;
pub mod c15;
pub mod c16;
pub mod c17;
pub mod c18;
pub mod c19;
pub mod c20;
pub mod netcode_util;
pub mod netproto_util;

pub fn all() -> Vec<&'static PropInfo> {
    vec![&c01::INFO, &c02::INFO, &c03::INFO, &c04::INFO, &c05::INFO, &c06::INFO, &c07::INFO, &c08::INFO, &c09::INFO, &c10::INFO, &c11::INFO, &c12::INFO, &c13::INFO, &c14::INFO, &c15::INFO, &c16::INFO, &c17::INFO, &c18::INFO, &c19::INFO, &c20::INFO]
}

pub fn find(id: &str) -> Option<&'static PropInfo> {
    all().into_iter().find(|p| p.id == id)
}

/// Standard loop: `quick`/`thorough` total executions split over shards, seeded per run;
/// honours `--replay` (single run seed) and the soft wall-clock budget.
pub fn run_loop(ctx: &Ctx, out: &mut Outcome, quick: u64, thorough: u64, salt: u64, mut one: impl FnMut(&Ctx, &mut Outcome, u64)) {
    if let Some(s) = ctx.replay_seed {
        one(ctx, out, s);
        return;
    }
    let n = ctx.runs(quick, thorough);
    let base = ctx.shard_seed(salt);
    for i in 0..n {
        let run_seed = crate::rng::mix(&[base, i]);
        one(ctx, out, run_seed);
        if out.should_stop() {
            break;
        }
        if ctx.over_budget() {
            out.note(&format!("soft wall-clock budget reached after {} of {} runs in shard {}", i + 1, n, ctx.shard));
            break;
        }
    }
}
