//! Property registry: one module per property (DESIGN section 4).

use crate::outcome::{Ctx, Outcome, PropInfo};

pub mod c01;
pub mod c02;
pub mod c03;
pub mod c04;
pub mod c05;
pub mod c06;
pub mod c07;
pub mod c08;
pub mod c09;
pub mod c10;
pub mod c11;
pub mod c11_host;
pub mod c12;
pub mod c13;
pub mod c14;
pub mod c15;
pub mod c16;
pub mod c17;
pub mod c18;
pub mod c19;
pub mod c20;
pub mod netcode_util;
pub mod netproto_util;

pub fn all() -> Vec<&'static PropInfo> {
    vec![&c01::INFO, &c02::INFO, &c03::INFO, &c04::INFO, &c05::INFO, &c06::INFO, &c07::INFO, &c08::INFO, &c09::INFO, &c10::INFO, &c11::INFO, &c12::INFO, &c13::INFO, &c14::INFO, &c15::INFO, &c16::INFO, &c17::INFO, &c18::INFO, &c19::INFO, &c20::INFO]
}

pub fn find(id: &str) -> Option<&'static PropInfo> {
    all().into_iter().find(|p| p.id == id)
}

/// Standard loop: `quick`/`thorough` total executions split over shards, seeded per run;
/// honours `--replay` (single run seed) and the soft wall-clock budget.
pub fn run_loop(ctx: &Ctx, out: &mut Outcome, quick: u64, thorough: u64, salt: u64, mut one: impl FnMut(&Ctx, &mut Outcome, u64)) {
    if let Some(s) = ctx.replay_seed {
        guarded_run(ctx, out, s, &mut one);
        return;
    }
    let n = ctx.runs(quick, thorough);
    let base = ctx.shard_seed(salt);
    for i in 0..n {
        let run_seed = crate::rng::mix(&[base, i]);
        guarded_run(ctx, out, run_seed, &mut one);
        if out.should_stop() {
            break;
        }
        if ctx.over_budget() {
            out.note(&format!("soft wall-clock budget reached after {} of {} runs in shard {}", i + 1, n, ctx.shard));
            break;
        }
    }
}

/// Runs one execution. A panic that unwinds out of it is attributed: if it was raised inside the library
/// under test or one of its dependencies (source path outside the harness) while the harness was only
/// making API calls of an honest workload, no property can hold on that execution - it is reported as a
/// violation of the property being checked (`<id>/library-panic/<class>`); a panic raised in harness code
/// is a harness bug and makes the run inconclusive.
fn guarded_run(ctx: &Ctx, out: &mut Outcome, run_seed: u64, one: &mut impl FnMut(&Ctx, &mut Outcome, u64)) {
    let res = crate::watchdog::catch(|| one(ctx, out, run_seed));
    if let Err(c) = res {
        let in_harness = c.loc.is_empty() || c.loc.starts_with("src/") || c.loc.contains("/verif/harness/");
        if in_harness {
            out.inconclusive(&format!("harness panic in run {:#x}: {} at {}", run_seed, c.msg, c.loc));
        } else {
            out.violation(
                ctx,
                &format!("{}/library-panic/{}", ctx.prop, c.class),
                "the library does not panic on the calls of an honest application",
                format!("panic inside the library during run {:#x}: {} at {}", run_seed, c.msg, c.loc),
                serde_json::json!({"property": ctx.prop, "engine": ctx.engine, "run_seed": format!("{:#x}", run_seed), "panic": c.msg, "location": c.loc}),
            );
        }
    }
}
