//! C09 channel memory budgets: accounted memory in [0, max], returned after ack / flush /
//! hand-over, stale unreliable fragments dropped after 3 s, no spurious memory disconnect for
//! traffic within budget, no real heap growth across quiescent points.

use crate::link::Profile;
use crate::oracles::{SizeMonitor, UnorderedOracle};
use crate::outcome::{Ctx, Outcome, PropInfo};
use crate::payload;
use crate::rng::{Fnv, Rng};
use crate::rsim::{CfgGen, ChanSpec, DtMode, Ev, Kind, Monitor, Side, Sim, DOWN, UP};
use crate::traffic::{self, CoverageMonitor, Plan};
use crate::watchdog;
use bytes::Bytes;
use renet::verif::Packet;
use renet::{ChannelError, ConnectionConfig, DisconnectReason, RenetClient, RenetServer};
use serde_json::json;
use std::collections::{BTreeSet, HashMap};
use std::time::Duration;

pub static INFO: PropInfo = PropInfo {
    id: "C09",
    level: "exploration",
    rule: "five kinds of evaluation. (A) simulated sessions with small channel budgets (8-64 KB) and long lossy histories, submissions kept 'within budget' (accepted by can_send_message AND bytes submitted-but-not-yet-obtained <= receive budget); the monitor reads, after every arrival / drain / tick, the accounted memory of every channel (send side: public API; receive side: hook) and asserts 0 <= m <= max, that unreliable send memory is back after every flush, that after a full drain an unreliable receive channel accounts at most the fragments that saw a slice less than 3 s before the receiver's last update, that no endpoint disconnects with ReliableChannelMaxMemoryReached, and at a quiescent point (everything obtained and acknowledged, >= 3 s idle, drained) that every channel offers its whole budget and accounts 0 received bytes. (B) heap trend: a lean client/server pair runs 24-48 identical lossy+duplicating cycles; the live heap (counting global allocator) is recorded at the drained quiescent point after each cycle and must not keep growing (growth in both the 2nd and the 3rd third above a constant slack). (C) exact fill: a client/server pair with one budget (1 byte .. 64 KB, multiples and non-multiples of the 1200-byte slice) for both reliable kinds and both roles; without consulting can_send_message the driver submits messages (0 bytes .. several slices; whole slices in half of the runs, any length in the other half) whose lengths add up to exactly the budget, judged by a shadow (sum of the lengths of the messages whose ids are still unacknowledged, hook); at every step can_send_message must accept what the shadow says fits, channel_available_memory must equal budget - shadow, no endpoint may disconnect with ReliableChannelMaxMemoryReached, and after the acknowledgements the whole budget must be back; repeated 3 times per run over clean or lossy links. (D) stale fragment: one slice of a 2-6 slice unreliable message arrives, copies of that packet arrive 1-3 more times within the next 2.9 s, and at the first update after 3 s + one tick the receive side must account 0 bytes for it (copies are not progress). (E) long gap: one sliced reliable message keeps losing a slice while a sliced message and 20..1330 further messages are received (and, unordered, consumed) behind it - more than 1024 of them in half of the runs; then late duplicates of recorded packets arrive (a slice of the consumed sliced message first), the gap closes and everything is drained and acknowledged: the receive side must account 0 bytes, the send side offer the whole budget, nobody be disconnected for memory. A tenth of the simulated sessions of (A) are built with ConnectionConfig::default(). Non-trivial = faults occurred AND at least one duplicate of an already consumed message arrived AND the quiescent point was reached; distinct = distinct event-log fingerprints.",
    assumptions: &[
        "'within budget' window as defined in DESIGN C09, counted in plain bytes since fix F26 (DESIGN 8.3)",
        "heap trend compares successive quiescent points of a steady workload with a 32 KB slack (containers keep capacity)",
    ],
    gates: &[
        ("memory_checks", 10_000),
        ("quiescent_checked", 20),
        ("late_slice_after_delivery", 20),
        ("late_slice_with_older_missing", 1),
        ("unreliable_fragment_expired_checked", 5),
        ("trend_runs_completed", 2),
        ("fill_exact", 50),
        ("stale_fragment_runs", 20),
        ("long_gap_runs", 10),
        ("long_gap_runs_over_1024_messages_behind_the_gap", 3),
    ],
    engines_quick: &["e1", "e2"],
    engines_thorough: &["e1", "e2"],
    run,
};

pub fn run(ctx: &Ctx, out: &mut Outcome) {
    super::run_loop(ctx, out, 640, 36_000, 9, one_run);
}

pub fn one_run(ctx: &Ctx, out: &mut Outcome, run_seed: u64) {
    let mut r = Rng::new(run_seed);
    let mode = match ctx.replay_mode.as_deref() {
        Some("trend") => 1,
        Some("session") => 0,
        Some("fill") => 2,
        Some("stale-fragment") => 3,
        Some("long-gap") => 4,
        _ => match r.below(40) {
            0 => 1,
            1..=8 => 2,
            9 | 10 => 3,
            11 | 12 => 4,
            _ => 0,
        },
    };
    if mode == 1 {
        trend(ctx, out, run_seed, &mut r);
    } else if mode == 2 {
        fill(ctx, out, run_seed, &mut r);
    } else if mode == 3 {
        stale_fragment(ctx, out, run_seed, &mut r);
    } else if mode == 4 {
        long_gap(ctx, out, run_seed, &mut r);
    } else {
        session(ctx, out, run_seed, &mut r);
    }
}

#[derive(Default)]
struct FragInfo {
    last_arrival_ms: u64,
    num_slices: usize,
    have: BTreeSet<usize>,
}

pub struct MemoryOracle {
    clock: HashMap<(usize, u8), u64>, // (conn, side as u8) -> ms at last update
    frags: HashMap<(usize, u8, u8), HashMap<u64, FragInfo>>,
    reported: BTreeSet<String>,
    pub quiescent_ok: bool,
}

impl MemoryOracle {
    pub fn new() -> Self {
        MemoryOracle {
            clock: HashMap::new(),
            frags: HashMap::new(),
            reported: BTreeSet::new(),
            quiescent_ok: false,
        }
    }

    fn side_of_receiver(dir: u8) -> Side {
        if dir == UP {
            Side::Server
        } else {
            Side::Client
        }
    }

    fn report(&mut self, ctx: &Ctx, out: &mut Outcome, sim: &Sim, sig: String, clause: &str, detail: String, extra: serde_json::Value) {
        if !self.reported.insert(sig.clone()) {
            return;
        }
        let mut r = sim.replay_value(&ctx.prop, &ctx.engine, clause, extra);
        r["mode"] = json!("session");
        out.violation(ctx, &sig, clause, detail, r);
    }

    fn range_checks(&mut self, sim: &Sim, ctx: &Ctx, out: &mut Outcome, conn: usize) {
        for dir in [UP, DOWN] {
            let specs: Vec<ChanSpec> = sim.cfg.chans(dir).clone();
            for spec in specs.iter() {
                out.count("memory_checks");
                // send side (public API)
                if let Some(s) = sim.sender(conn, dir) {
                    match watchdog::catch(|| s.channel_available_memory(spec.id)) {
                        Ok(avail) => {
                            if avail > spec.max_mem {
                                self.report(
                                    ctx,
                                    out,
                                    sim,
                                    format!("C09/send-memory-out-of-range/{}", spec.kind.short()),
                                    "accounted memory stays between zero and the maximum",
                                    format!("conn {} dir {} ch {}: available memory {} exceeds the budget {} (accounting wrapped)", conn, dir, spec.id, avail, spec.max_mem),
                                    json!({"conn": conn, "dir": dir, "ch": spec.id, "available": avail, "max": spec.max_mem}),
                                );
                            }
                        }
                        Err(c) => {
                            self.report(
                                ctx,
                                out,
                                sim,
                                format!("C09/send-memory-out-of-range/{}", spec.kind.short()),
                                "accounted memory stays between zero and the maximum",
                                format!("conn {} dir {} ch {}: channel_available_memory panicked ({}): usage above the maximum", conn, dir, spec.id, c.msg),
                                json!({"conn": conn, "dir": dir, "ch": spec.id, "panic": c.msg}),
                            );
                        }
                    }
                }
                // receive side (hook)
                if let Some(rx) = sim.receiver(conn, dir) {
                    if let Some(m) = rx.verif_receive_memory(spec.id) {
                        out.max(&format!("recv_mem_permille_{}", spec.kind.short()), (m as u64).saturating_mul(1000) / spec.max_mem.max(1) as u64);
                        if m > spec.max_mem {
                            self.report(
                                ctx,
                                out,
                                sim,
                                format!("C09/receive-memory-out-of-range/{}", spec.kind.short()),
                                "accounted memory stays between zero and the maximum",
                                format!("conn {} dir {} ch {}: accounted receive memory {} is outside [0, {}]", conn, dir, spec.id, m, spec.max_mem),
                                json!({"conn": conn, "dir": dir, "ch": spec.id, "accounted": m, "max": spec.max_mem}),
                            );
                        }
                    }
                }
            }
        }
        // spurious memory disconnects
        for side in [Side::Client, Side::Server] {
            if let Some(reason) = sim.reason(conn, side) {
                let (which, ch) = match reason {
                    DisconnectReason::SendChannelError {
                        channel_id,
                        error: ChannelError::ReliableChannelMaxMemoryReached,
                    } => ("send", channel_id),
                    DisconnectReason::ReceiveChannelError {
                        channel_id,
                        error: ChannelError::ReliableChannelMaxMemoryReached,
                    } => ("receive", channel_id),
                    _ => continue,
                };
                let dir = match (which, side) {
                    ("send", Side::Client) | ("receive", Side::Server) => UP,
                    _ => DOWN,
                };
                let kind = sim.cfg.chan(dir, ch).map_or("?", |c| c.kind.short());
                self.report(
                    ctx,
                    out,
                    sim,
                    format!("C09/spurious-memory-disconnect/{}/{}", which, kind),
                    "traffic within budget with a promptly draining application is never disconnected for exhausted channel memory",
                    format!("conn {} {:?}: disconnected with {:?} although every submission was within budget", conn, side, reason),
                    json!({"conn": conn, "side": format!("{:?}", side), "reason": format!("{:?}", reason)}),
                );
            }
        }
    }
}

impl Monitor for MemoryOracle {
    fn name(&self) -> &'static str {
        "memory"
    }
    fn on(&mut self, ev: &Ev, sim: &Sim, ctx: &Ctx, out: &mut Outcome) {
        match ev {
            Ev::Update { conn, side, dt_ms } => {
                *self.clock.entry((*conn, *side as u8)).or_insert(0) += dt_ms;
            }
            Ev::Arrive {
                conn,
                dir,
                decoded,
                receiver_disconnected,
                ..
            } => {
                if *receiver_disconnected {
                    return;
                }
                if let Some(Packet::UnreliableSlice { channel_id, slice, .. }) = decoded {
                    if sim.cfg.chan(*dir, *channel_id).map(|c| c.kind) != Some(Kind::Unreliable) {
                        return;
                    }
                    let now = *self.clock.get(&(*conn, Self::side_of_receiver(*dir) as u8)).unwrap_or(&0);
                    let m = self.frags.entry((*conn, *dir, *channel_id)).or_default();
                    let f = m.entry(slice.message_id).or_default();
                    if f.num_slices == 0 {
                        f.num_slices = slice.num_slices;
                    }
                    // Upper bound only: the entry is kept even when all slices were seen, because the
                    // receiver may have refused some of them for lack of memory and still hold a
                    // partial constructor; it ages out 3 s after the last arrival.
                    f.num_slices = f.num_slices.max(slice.num_slices);
                    f.last_arrival_ms = now;
                    f.have.insert(slice.slice_index);
                }
            }
            Ev::Arrived { conn, .. } => self.range_checks(sim, ctx, out, *conn),
            Ev::SendCall { conn, dir, .. } => {
                // unreliable send memory is back after every flush
                if let Some(s) = sim.sender(*conn, *dir) {
                    if s.is_disconnected() {
                        return;
                    }
                    let specs: Vec<ChanSpec> = sim.cfg.chans(*dir).iter().filter(|c| c.kind == Kind::Unreliable).cloned().collect();
                    for spec in specs {
                        out.count("unreliable_flush_checked");
                        let avail = watchdog::catch(|| s.channel_available_memory(spec.id)).unwrap_or(usize::MAX);
                        if avail != spec.max_mem {
                            self.report(
                                ctx,
                                out,
                                sim,
                                "C09/unreliable-send-memory-not-returned".to_string(),
                                "send-side bytes of an unreliable channel come back when it is flushed",
                                format!("conn {} dir {} ch {}: available {} != budget {} right after get_packets_to_send", conn, dir, spec.id, avail, spec.max_mem),
                                json!({"conn": conn, "dir": dir, "ch": spec.id, "available": avail, "max": spec.max_mem}),
                            );
                        }
                    }
                }
            }
            Ev::DrainEnd { conn, dir, ch } => {
                let Some(spec) = sim.cfg.chan(*dir, *ch) else { return };
                if spec.kind != Kind::Unreliable {
                    return;
                }
                let Some(rx) = sim.receiver(*conn, *dir) else { return };
                if rx.is_disconnected() {
                    return;
                }
                let Some(accounted) = rx.verif_receive_memory(*ch) else { return };
                let last_update = *self.clock.get(&(*conn, Self::side_of_receiver(*dir) as u8)).unwrap_or(&0);
                let mut bound = 0usize;
                let mut expired = 0;
                if let Some(m) = self.frags.get(&(*conn, *dir, *ch)) {
                    for f in m.values() {
                        if last_update.saturating_sub(f.last_arrival_ms) < 3000 {
                            bound += f.num_slices * 1200;
                        } else {
                            expired += 1;
                        }
                    }
                }
                if expired > 0 {
                    out.add("unreliable_fragment_expired_checked", expired);
                }
                if accounted > bound {
                    self.report(
                        ctx,
                        out,
                        sim,
                        "C09/unreliable-stale-fragments-still-counted".to_string(),
                        "incomplete unreliable fragments stop counting after 3 s without progress",
                        format!(
                            "conn {} dir {} ch {}: after a full drain {} bytes are accounted but only {} bytes belong to fragments that saw a slice < 3 s before the receiver's last update ({} fragments are older)",
                            conn, dir, ch, accounted, bound, expired
                        ),
                        json!({"conn": conn, "dir": dir, "ch": ch, "accounted": accounted, "bound": bound, "stale_fragments": expired}),
                    );
                }
                // forget fragments that must be gone (a later duplicate slice recreates the entry)
                if let Some(m) = self.frags.get_mut(&(*conn, *dir, *ch)) {
                    m.retain(|_, f| last_update.saturating_sub(f.last_arrival_ms) < 3000);
                }
            }
            Ev::TickEnd { .. } => {
                for c in 0..sim.cfg.n_clients {
                    self.range_checks(sim, ctx, out, c);
                }
            }
            Ev::Quiescent { .. } => {
                for conn in 0..sim.cfg.n_clients {
                    if sim.any_disconnected(conn) {
                        out.count("quiescent_skipped_disconnected");
                        continue;
                    }
                    out.count("quiescent_checked");
                    for dir in [UP, DOWN] {
                        let specs: Vec<ChanSpec> = sim.cfg.chans(dir).clone();
                        for spec in specs {
                            let avail = sim.sender(conn, dir).map(|s| watchdog::catch(|| s.channel_available_memory(spec.id)).unwrap_or(usize::MAX));
                            if avail != Some(spec.max_mem) {
                                self.report(
                                    ctx,
                                    out,
                                    sim,
                                    format!("C09/send-memory-not-returned/{}", spec.kind.short()),
                                    "when all reliable messages are received and acknowledged every channel offers its whole budget",
                                    format!("conn {} dir {} ch {}: available {:?} != budget {} at the quiescent point", conn, dir, spec.id, avail, spec.max_mem),
                                    json!({"conn": conn, "dir": dir, "ch": spec.id, "available": avail, "max": spec.max_mem}),
                                );
                            }
                            let m = sim.receiver(conn, dir).and_then(|r| r.verif_receive_memory(spec.id));
                            if m != Some(0) {
                                self.report(
                                    ctx,
                                    out,
                                    sim,
                                    format!("C09/receive-memory-not-returned/{}", spec.kind.short()),
                                    "receive-side bytes come back when messages are handed to the application",
                                    format!("conn {} dir {} ch {}: {:?} bytes still accounted on the receive side at the quiescent point", conn, dir, spec.id, m),
                                    json!({"conn": conn, "dir": dir, "ch": spec.id, "accounted": m}),
                                );
                            }
                        }
                    }
                }
                self.quiescent_ok = true;
            }
            _ => {}
        }
    }
}

fn all_acked(sim: &Sim) -> bool {
    for conn in 0..sim.cfg.n_clients {
        for dir in [UP, DOWN] {
            if let Some(s) = sim.sender(conn, dir) {
                if s.is_disconnected() {
                    continue;
                }
                for spec in sim.cfg.chans(dir).iter().filter(|c| c.kind.reliable()) {
                    if s.verif_unacked(spec.id).map_or(false, |v| !v.is_empty()) {
                        return false;
                    }
                }
            }
        }
    }
    true
}

/// After the deadline: wait for all acknowledgements on clean links, then idle > 3 s, drain,
/// and announce the quiescent point. Returns false if it could not be reached.
pub fn settle(sim: &mut Sim, mons: &mut Vec<Box<dyn Monitor>>, ctx: &Ctx, out: &mut Outcome) -> bool {
    let mut ok = false;
    for _ in 0..600 {
        if traffic::all_obtained(sim) && all_acked(sim) && sim.in_flight() == 0 {
            ok = true;
            break;
        }
        sim.tick(mons, ctx, out);
    }
    if !ok {
        out.count("settle_not_reached");
        // Nothing unacknowledged at any sender, nothing in flight, nobody disconnected - and still a receiving
        // application has not obtained everything: whatever the receiver holds for the missing message(s) (a partial
        // reassembly, messages queued behind it) will never be completed and its bytes never come back.
        let nobody_gone = (0..sim.cfg.n_clients).all(|c| !sim.any_disconnected(c));
        if nobody_gone && all_acked(sim) && sim.in_flight() == 0 && !traffic::all_obtained(sim) {
            let stuck: Vec<(usize, u8, u8, usize)> = (0..sim.cfg.n_clients)
                .flat_map(|c| [UP, DOWN].into_iter().map(move |d| (c, d)))
                .flat_map(|(c, d)| sim.cfg.chans(d).iter().map(move |s| (c, d, s.id)).collect::<Vec<_>>())
                .filter_map(|(c, d, ch)| {
                    let n = sim.outstanding_n[c][d as usize][ch as usize];
                    if n > 0 {
                        Some((c, d, ch, n))
                    } else {
                        None
                    }
                })
                .collect();
            let held: Vec<Option<usize>> = stuck.iter().map(|(c, d, ch, _)| sim.receiver(*c, *d).and_then(|r| r.verif_receive_memory(*ch))).collect();
            let r = sim.replay_value(&ctx.prop, &ctx.engine, "receive-side bytes come back", json!({"stuck (conn, dir, ch, messages not obtained)": format!("{:?}", stuck), "receive memory held": format!("{:?}", held)}));
            let mut r = r;
            r["mode"] = json!("session");
            out.violation(
                ctx,
                "C09/receive-memory-never-returns/sender-released-undelivered-message",
                "send-side bytes come back when messages are acknowledged, receive-side bytes when messages are handed to the application; when all is received and acknowledged every channel offers its whole budget",
                format!("600 clean ticks after the deadline no sender holds anything unacknowledged and nothing is in flight, yet {:?} (conn, dir, channel, messages) were never obtained; the receive side still accounts {:?} bytes for them", stuck, held),
                r,
            );
        }
        return false;
    }
    // idle for more than 3 s of virtual time (use a coarse tick for speed)
    let saved = sim.cfg.dt;
    sim.cfg.dt = DtMode::Fixed(250);
    for _ in 0..15 {
        sim.tick(mons, ctx, out);
    }
    sim.cfg.dt = saved;
    for c in 0..sim.cfg.n_clients {
        for d in [UP, DOWN] {
            sim.do_drain(c, d, mons, ctx, out);
        }
    }
    let ev = Ev::Quiescent { tick: sim.tick };
    for m in mons.iter_mut() {
        m.on(&ev, sim, ctx, out);
    }
    true
}

fn session(ctx: &Ctx, out: &mut Outcome, run_seed: u64, r: &mut Rng) {
    let profiles = vec![
        Profile::DupHeavy,
        Profile::DupHeavy,
        Profile::Chaos,
        Profile::Chaos,
        Profile::ReorderHeavy,
        Profile::Heavy,
        Profile::Light,
        Profile::LoseFirst,
        Profile::HoldReverse,
        Profile::Blackout,
        Profile::Clean,
    ];
    let gen = CfgGen {
        max_clients: 2,
        small_budgets: true,
        min_bytes_per_tick: 2500,
        profiles,
    };
    let mut cfg = gen.gen(r);
    if r.chance(1, 2) {
        cfg.drain = crate::rsim::DrainMode::EveryTick;
    }
    let long = ctx.thorough() && r.chance(1, 10);
    let plan = Plan {
        fault_ticks: if long { r.range(2000, 8000) } else { r.range(40, 400) },
        rate_x100: *r.pick(&[100u64, 250, 600]),
        max_msgs: if long { 100_000 } else { r.range(100, 3000) },
        kinds: vec![Kind::ReliableOrdered, Kind::ReliableUnordered, Kind::ReliableUnordered, Kind::Unreliable],
        allow_large: false,
        tail_ticks: r.range(0, 40),
        liveness: false,
        flood: false,
        max_len: 12_000,
        overload: false,
    };
    let mut mons: Vec<Box<dyn Monitor>> = vec![
        Box::new(MemoryOracle::new()),
        // reused only for its coverage counters (late duplicates etc.); it decides nothing here
        Box::new({
            let mut u = UnorderedOracle::new("C02", false, false);
            u.decide = false;
            u
        }),
        Box::new(CoverageMonitor::new()),
        Box::new(SizeMonitor { prop: "C13" }),
    ];
    let late_before = out.get("dup_after_consume");
    let (s, mut sim) = traffic::run(ctx, out, cfg, &plan, run_seed, &mut mons);
    let reached = settle(&mut sim, &mut mons, ctx, out);
    let late = out.get("dup_after_consume") - late_before;
    let faults = s.dropped + s.duplicated + s.reordered > 0;
    let nontrivial = faults && late > 0 && reached && !(0..sim.cfg.n_clients).any(|c| sim.any_disconnected(c));
    out.count("session_runs");
    if reached {
        out.count("session_runs_reaching_quiescence");
    }
    out.eval(s.fingerprint, nontrivial);
    if nontrivial {
        out.sample(traffic::sample_value(&sim, &s));
    }
}

// ------------------------------------------------------------------------------------------
// (B) heap trend
// ------------------------------------------------------------------------------------------

struct Lean {
    server: RenetServer,
    client: RenetClient,
    id: u64,
    flight: Vec<(u64, u8, Vec<u8>)>,
    tick: u64,
    outstanding: [[usize; 4]; 2],
    next_idx: [[u64; 4]; 2],
    late_dups: u64,
}

impl Lean {
    fn pump(&mut self, r: &mut Rng, lossy: bool, dt: u64) {
        self.tick += 1;
        self.server.update(Duration::from_millis(dt));
        self.client.update(Duration::from_millis(dt));
        let up = self.client.get_packets_to_send();
        let down = self.server.get_packets_to_send(self.id).unwrap_or_default();
        for (dir, pkts) in [(UP, up), (DOWN, down)] {
            for p in pkts {
                if lossy {
                    if r.chance(30, 100) {
                        continue;
                    }
                    let copies = if r.chance(45, 100) { r.range(2, 3) } else { 1 };
                    for c in 0..copies {
                        let delay = if c == 0 { r.range(0, 2) } else { r.range(1, 25) };
                        if c > 0 {
                            self.late_dups += 1;
                        }
                        self.flight.push((self.tick + delay, dir, p.clone()));
                    }
                } else {
                    self.flight.push((self.tick, dir, p));
                }
            }
        }
        let mut i = 0;
        while i < self.flight.len() {
            if self.flight[i].0 <= self.tick {
                let (_, dir, b) = self.flight.swap_remove(i);
                if dir == UP {
                    let _ = self.server.process_packet_from(&b, self.id);
                } else {
                    self.client.process_packet(&b);
                }
            } else {
                i += 1;
            }
        }
        for ch in 0..3u8 {
            while let Some(m) = self.server.receive_message(self.id, ch) {
                let o = &mut self.outstanding[UP as usize][ch as usize];
                *o = o.saturating_sub(Sim::rounded(m.len()));
            }
            while let Some(m) = self.client.receive_message(ch) {
                let o = &mut self.outstanding[DOWN as usize][ch as usize];
                *o = o.saturating_sub(Sim::rounded(m.len()));
            }
        }
    }

    fn idle(&self) -> bool {
        let acked = |c: &RenetClient| (1..3u8).all(|ch| c.verif_unacked(ch).map_or(true, |v| v.is_empty()));
        self.outstanding[0][1] == 0
            && self.outstanding[0][2] == 0
            && self.outstanding[1][1] == 0
            && self.outstanding[1][2] == 0
            && acked(&self.client)
            && self.server.verif_connection(self.id).map_or(true, acked)
    }
}

fn trend(ctx: &Ctx, out: &mut Outcome, run_seed: u64, r: &mut Rng) {
    if !crate::alloc::installed() {
        out.note("heap trend skipped: counting allocator not installed in this binary");
        return;
    }
    let mem = 5 * 1024 * 1024;
    let resend = *r.pick(&[0u64, 10, 50]);
    let chans = vec![
        ChanSpec { id: 0, kind: Kind::Unreliable, resend_ms: 0, max_mem: mem },
        ChanSpec { id: 1, kind: Kind::ReliableUnordered, resend_ms: resend, max_mem: mem },
        ChanSpec { id: 2, kind: Kind::ReliableOrdered, resend_ms: resend, max_mem: mem },
    ];
    let cc = ConnectionConfig {
        available_bytes_per_tick: 60_000,
        server_channels_config: chans.iter().map(|c| c.to_config()).collect(),
        client_channels_config: chans.iter().map(|c| c.to_config()).collect(),
    };
    let mut server = RenetServer::new(cc.clone());
    let id = 77;
    server.add_connection(id);
    let mut client = RenetClient::new(cc);
    client.set_connected();
    let mut l = Lean {
        server,
        client,
        id,
        flight: Vec::with_capacity(4096),
        tick: 0,
        outstanding: [[0; 4]; 2],
        next_idx: [[0; 4]; 2],
        late_dups: 0,
    };
    let cycles = if ctx.thorough() { 48 } else { 24 };
    let mut levels: Vec<usize> = Vec::with_capacity(cycles);
    let tag = r.next_u64();
    let mut fp = Fnv::new();
    for _cycle in 0..cycles {
        for _ in 0..30 {
            for dir in [UP, DOWN] {
                for _ in 0..r.range(0, 3) {
                    let ch = r.range(0, 2) as u8;
                    let len = match r.below(3) {
                        0 => r.urange(0, 1200),
                        _ => r.urange(1201, 6000),
                    };
                    let ok = if dir == UP { l.client.can_send_message(ch, len) } else { l.server.can_send_message(id, ch, len) };
                    if !ok || l.outstanding[dir as usize][ch as usize] + Sim::rounded(len) > mem {
                        continue;
                    }
                    let idx = l.next_idx[dir as usize][ch as usize];
                    l.next_idx[dir as usize][ch as usize] += 1;
                    let b = Bytes::from(payload::make(0, dir, ch, 0, idx, len, tag));
                    if ch != 0 {
                        l.outstanding[dir as usize][ch as usize] += Sim::rounded(len);
                    }
                    if dir == UP {
                        l.client.send_message(ch, b);
                    } else {
                        l.server.send_message(id, ch, b);
                    }
                }
            }
            l.pump(r, true, 16);
        }
        // settle on a clean link, then idle > 3 s
        let mut settled = false;
        for _ in 0..2000 {
            l.pump(r, false, 16);
            if l.idle() && l.flight.is_empty() {
                settled = true;
                break;
            }
        }
        if l.client.is_disconnected() || l.server.verif_connection(id).map_or(true, |c| c.is_disconnected()) {
            out.count("trend_runs_void_disconnected");
            out.eval(fp.finish(), false);
            return;
        }
        if !settled {
            out.count("trend_runs_void_not_settled");
            let acked = |c: &RenetClient| (1..3u8).all(|ch| c.verif_unacked(ch).map_or(true, |v| v.is_empty()));
            let senders_done = acked(&l.client) && l.server.verif_connection(id).map_or(true, acked);
            if senders_done && l.flight.is_empty() {
                out.violation(
                    ctx,
                    "C09/receive-memory-never-returns/sender-released-undelivered-message",
                    "send-side bytes come back when messages are acknowledged, receive-side bytes when messages are handed to the application",
                    format!("heap-trend pair: after 2000 clean ticks no sender holds anything unacknowledged and nothing is in flight, yet bytes submitted and never obtained remain: {:?}", l.outstanding),
                    json!({"property": "C09", "engine": ctx.engine, "run_seed": format!("{:#x}", run_seed), "mode": "trend"}),
                );
            }
            out.eval(fp.finish(), false);
            return;
        }
        for _ in 0..8 {
            l.pump(r, false, 500);
        }
        levels.push(crate::alloc::live());
        fp.u64(l.tick);
    }
    out.count("trend_runs_completed");
    out.add("trend_late_duplicates", l.late_dups);
    let n = levels.len();
    let (a, b, c) = (levels[n / 3], levels[2 * n / 3], levels[n - 1]);
    let slack = 32 * 1024;
    out.max("trend_growth_last_third_bytes", c.saturating_sub(b) as u64);
    if c > b + slack && b > a + slack / 2 {
        out.violation(
            ctx,
            "C09/heap-grows-across-quiescent-points",
            "no leak: memory held at successive drained quiescent points of a steady workload does not keep growing",
            format!("live heap at quiescent points keeps growing: {} -> {} -> {} bytes (cycles {}, {}, {})", a, b, c, n / 3, 2 * n / 3, n - 1),
            json!({"property": "C09", "engine": ctx.engine, "run_seed": format!("{:#x}", run_seed), "mode": "trend",
                   "levels": levels, "resend_ms": resend}),
        );
    }
    out.eval(fp.finish(), l.late_dups > 0);
    out.sample(json!({"mode": "trend", "run_seed": format!("{:#x}", run_seed), "cycles": n, "quiescent_heap_levels": levels.iter().step_by(4).collect::<Vec<_>>() }));
}

// ------------------------------------------------------------------------------------------
// (C) exact fill: the budget itself is usable, byte for byte
// ------------------------------------------------------------------------------------------

/// Submits, without consulting `can_send_message`, reliable messages whose lengths add up to exactly
/// the channel budget (judged by a shadow: lengths of the messages whose ids are still unacknowledged)
/// and expects no memory disconnect, `can_send_message` agreeing with the shadow at every step, the
/// public available-memory figure equal to budget - shadow, and the whole budget back after the acks.
fn fill(ctx: &Ctx, out: &mut Outcome, run_seed: u64, r: &mut Rng) {
    let budget = match r.below(4) {
        0 => 1200 * r.urange(1, 40),
        1 => r.urange(1, 1200),
        2 => *r.pick(&[1usize, 2, 1199, 1201, 2400, 3600, 65_536]),
        _ => r.urange(1201, 50_000),
    };
    let resend = *r.pick(&[0u64, 50, 300]);
    let chans = vec![
        ChanSpec { id: 0, kind: Kind::Unreliable, resend_ms: 0, max_mem: budget },
        ChanSpec { id: 1, kind: Kind::ReliableUnordered, resend_ms: resend, max_mem: budget },
        ChanSpec { id: 2, kind: Kind::ReliableOrdered, resend_ms: resend, max_mem: budget },
    ];
    let cc = ConnectionConfig {
        available_bytes_per_tick: 60_000,
        server_channels_config: chans.iter().map(|c| c.to_config()).collect(),
        client_channels_config: chans.iter().map(|c| c.to_config()).collect(),
    };
    let mut server = RenetServer::new(cc.clone());
    let id = 78;
    server.add_connection(id);
    let mut client = RenetClient::new(cc);
    client.set_connected();
    let mut l = Lean { server, client, id, flight: Vec::new(), tick: 0, outstanding: [[0; 4]; 2], next_idx: [[0; 4]; 2], late_dups: 0 };
    let dir = if r.chance(1, 2) { UP } else { DOWN };
    let ch = r.range(1, 2) as u8;
    let kind = chans[ch as usize].kind.short();
    let tag = r.next_u64();
    let lossy = r.chance(1, 2);
    let whole_slices = r.chance(1, 2);
    if !whole_slices {
        out.count("fill_runs_any_length");
    }
    let mut lens: Vec<usize> = Vec::new(); // message id -> length (ids are assigned in submission order)
    let mut hist: Vec<String> = Vec::new();
    let mut fp = Fnv::new();
    fp.u64(budget as u64);
    fp.u64(((dir as u64) << 8) | ch as u64);
    let mut exact_fills = 0u64;
    let report = |out: &mut Outcome, sig: String, clause: &str, detail: String, hist: &Vec<String>| {
        out.violation(
            ctx,
            &sig,
            clause,
            detail,
            json!({"property": "C09", "engine": ctx.engine, "run_seed": format!("{:#x}", run_seed), "mode": "fill", "budget": budget, "dir": dir, "ch": ch, "history": hist}),
        );
    };
    'rounds: for round in 0..3 {
        let mut steps = 0;
        loop {
            let sender: &RenetClient = if dir == UP { &l.client } else { l.server.verif_connection(id).unwrap() };
            let unacked = sender.verif_unacked(ch).unwrap_or_default();
            let used: usize = unacked.iter().map(|i| lens.get(*i as usize).copied().unwrap_or(0)).sum();
            let avail = watchdog::catch(|| sender.channel_available_memory(ch)).unwrap_or(usize::MAX);
            out.count("fill_steps");
            if avail != budget - used.min(budget) {
                report(out, format!("C09/available-memory-differs-from-unacked-bytes/{kind}"), "send-side bytes are accounted while unacknowledged and come back when acknowledged", format!("ch {} dir {}: available {} but budget {} - unacknowledged bytes {} = {}", ch, dir, avail, budget, used, budget - used.min(budget)), &hist);
                break 'rounds;
            }
            // "within budget" (section 4): what was submitted and not yet obtained by the receiving application also has
            // to fit - on a lossy link an ordered receiver holds acknowledged messages behind a missing one
            let held = l.outstanding[dir as usize][ch as usize];
            if held > used && budget - held.min(budget) == 0 {
                out.count("fill_waits_for_receiver");
                l.pump(r, false, 16);
                steps += 1;
                if steps > 400 {
                    break;
                }
                continue;
            }
            let room = budget - used.max(held).min(budget);
            steps += 1;
            // a piece whose slice-rounded size equals its size (receive side accounts whole slices)
            let exact = steps > 6 || r.chance(1, 3);
            let want = if exact { room } else { r.urange(0, room) };
            // in half of the runs the pieces are whole slices (the receiver reserves whole slices for a partial
            // message), in the other half any length: the budget is a number of BYTES on both sides
            let len = if want > 1200 && whole_slices { want / 1200 * 1200 } else { want };
            let fits = if dir == UP { l.client.can_send_message(ch, len) } else { l.server.can_send_message(id, ch, len) };
            hist.push(format!("round {} tick {}: unacked bytes {} of {}, submit {} bytes (can_send_message={})", round, l.tick, used, budget, len, fits));
            if !fits {
                report(out, format!("C09/within-budget-message-refused/{kind}"), "traffic within budget is never refused or disconnected for exhausted channel memory", format!("ch {} dir {}: can_send_message({}) is false with {} of {} bytes unacknowledged", ch, dir, len, used, budget), &hist);
                break 'rounds;
            }
            let b = Bytes::from(payload::make(0, dir, ch, 0, lens.len() as u64, len, tag));
            let len = b.len(); // payload::make may pad up to its header size
            if len > room {
                // header-padded payload does not fit: settle and start the next round
                hist.pop();
            } else {
                lens.push(len);
                fp.u64(len as u64);
                l.outstanding[dir as usize][ch as usize] += len;
                if dir == UP {
                    l.client.send_message(ch, b);
                } else {
                    l.server.send_message(id, ch, b);
                }
                if used + len == budget {
                    exact_fills += 1;
                    out.count("fill_exact");
                    // an empty message still fits a channel that is exactly full
                    if r.chance(1, 2) {
                        let fits0 = if dir == UP { l.client.can_send_message(ch, 0) } else { l.server.can_send_message(id, ch, 0) };
                        hist.push(format!("round {} tick {}: channel exactly full, submit 0 bytes (can_send_message={})", round, l.tick, fits0));
                        if !fits0 {
                            report(out, format!("C09/within-budget-message-refused/{kind}"), "traffic within budget is never refused or disconnected for exhausted channel memory", format!("ch {} dir {}: can_send_message(0) is false on a channel holding exactly its budget {}", ch, dir, budget), &hist);
                            break 'rounds;
                        }
                        lens.push(0);
                        out.count("fill_empty_on_full");
                        if dir == UP {
                            l.client.send_message(ch, Bytes::new());
                        } else {
                            l.server.send_message(id, ch, Bytes::new());
                        }
                    }
                }
            }
            let full = used + len >= budget || len > room;
            if r.chance(1, 3) || full {
                l.pump(r, lossy && !full, 16);
            }
            for (side, reason) in [("client", l.client.disconnect_reason()), ("server", l.server.verif_connection(id).and_then(|c| c.disconnect_reason()))] {
                let Some(reason) = reason else { continue };
                let mem = matches!(
                    reason,
                    DisconnectReason::SendChannelError { error: ChannelError::ReliableChannelMaxMemoryReached, .. }
                        | DisconnectReason::ReceiveChannelError { error: ChannelError::ReliableChannelMaxMemoryReached, .. }
                );
                if mem {
                    let which = if matches!(reason, DisconnectReason::SendChannelError { .. }) { "send" } else { "receive" };
                    report(out, format!("C09/spurious-memory-disconnect/{which}/{kind}"), "traffic within budget with a promptly draining application is never disconnected for exhausted channel memory", format!("{} disconnected with {:?} although the unacknowledged bytes never exceeded the budget {}", side, reason, budget), &hist);
                } else {
                    out.count("fill_runs_void_disconnected");
                }
                break 'rounds;
            }
            if full {
                break;
            }
        }
        // settle on a clean link: everything acknowledged, the whole budget is back
        let mut settled = false;
        for _ in 0..3000 {
            l.pump(r, false, 16);
            let sender: &RenetClient = if dir == UP { &l.client } else { l.server.verif_connection(id).unwrap() };
            if sender.verif_unacked(ch).map_or(true, |v| v.is_empty()) && l.flight.is_empty() {
                settled = true;
                break;
            }
        }
        if !settled {
            out.count("fill_runs_void_not_settled");
            break;
        }
        let sender: &RenetClient = if dir == UP { &l.client } else { l.server.verif_connection(id).unwrap() };
        let avail = watchdog::catch(|| sender.channel_available_memory(ch)).unwrap_or(usize::MAX);
        if avail != budget {
            report(out, format!("C09/send-memory-not-returned/{kind}"), "when all reliable messages are received and acknowledged every channel offers its whole budget", format!("ch {} dir {}: available {} != budget {} after everything was acknowledged", ch, dir, avail, budget), &hist);
            break;
        }
    }
    out.count("fill_runs");
    out.eval(fp.finish(), exact_fills > 0);
    if exact_fills > 0 && r.chance(1, 50) {
        out.sample(json!({"mode": "fill", "run_seed": format!("{:#x}", run_seed), "budget": budget, "dir": dir, "ch": ch, "exact_fills": exact_fills, "messages": lens.len()}));
    }
}

// ------------------------------------------------------------------------------------------
// (D) a fragment that makes no progress stops counting after 3 s - duplicates are not progress
// ------------------------------------------------------------------------------------------

/// One slice of a sliced unreliable message arrives (budget ample, nothing is refused), then the network keeps
/// delivering copies of that very packet, the last one less than 3 s after the first. Copies bring no progress:
/// 3 s (+ one update) after the only slice that did, the fragment must no longer be accounted.
fn stale_fragment(ctx: &Ctx, out: &mut Outcome, run_seed: u64, r: &mut Rng) {
    let budget = *r.pick(&[20_000usize, 100_000, 1 << 20]);
    let chans = vec![
        ChanSpec { id: 0, kind: Kind::Unreliable, resend_ms: 0, max_mem: budget },
        ChanSpec { id: 1, kind: Kind::ReliableOrdered, resend_ms: 100, max_mem: budget },
    ];
    let cc = ConnectionConfig {
        available_bytes_per_tick: 60_000,
        server_channels_config: chans.iter().map(|c| c.to_config()).collect(),
        client_channels_config: chans.iter().map(|c| c.to_config()).collect(),
    };
    let mut server = RenetServer::new(cc.clone());
    let id = 79;
    server.add_connection(id);
    let mut client = RenetClient::new(cc);
    client.set_connected();
    let up = r.chance(1, 2); // direction of the sliced message: client -> server or server -> client
    let n_slices = r.urange(2, 6);
    let len = (n_slices - 1) * 1200 + r.urange(1, 1200);
    let which = r.usize_below(n_slices);
    let msg = Bytes::from(payload::make(0, if up { UP } else { DOWN }, 0, 0, 0, len, 7));
    let pkts = if up {
        client.send_message(0, msg);
        client.get_packets_to_send()
    } else {
        server.send_message(id, 0, msg);
        server.get_packets_to_send(id).unwrap_or_default()
    };
    let slice_pkt = pkts.iter().find(|p| matches!(crate::rsim::decode(p), Some(Packet::UnreliableSlice { slice, .. }) if slice.slice_index == which)).cloned();
    let Some(slice_pkt) = slice_pkt else {
        out.count("stale_fragment_runs_void");
        out.eval(crate::rng::mix(&[0x57A, run_seed]), false);
        return;
    };
    let dt_ms = *r.pick(&[16u64, 100, 250]);
    let dt = Duration::from_millis(dt_ms);
    // copies at these offsets after the first arrival, all before the 3 s horizon
    let mut copies: Vec<u64> = (0..r.range(1, 4)).map(|_| r.range(200, 2900) / dt_ms * dt_ms).collect();
    copies.sort_unstable();
    copies.dedup();
    let mut hist = vec![format!("{} slices ({} bytes), only slice {} arrives at t=0; copies of that packet at {:?} ms; tick {} ms; direction {}", n_slices, len, which, copies, dt_ms, if up { "up" } else { "down" })];
    let deliver = |server: &mut RenetServer, client: &mut RenetClient| {
        if up {
            let _ = server.process_packet_from(&slice_pkt, id);
        } else {
            client.process_packet(&slice_pkt);
        }
    };
    deliver(&mut server, &mut client);
    let accounted = |server: &RenetServer, client: &RenetClient| -> Option<usize> {
        if up {
            server.verif_connection(id).and_then(|c| c.verif_receive_memory(0))
        } else {
            client.verif_receive_memory(0)
        }
    };
    let first = accounted(&server, &client).unwrap_or(0);
    if first == 0 {
        out.count("stale_fragment_runs_void");
        out.eval(crate::rng::mix(&[0x57B, run_seed]), false);
        return;
    }
    let mut t = 0u64;
    let check_at = 3000 + dt_ms; // the first update at which 3 s have passed since the only progress, plus one
    while t < check_at {
        t += dt_ms;
        server.update(dt);
        client.update(dt);
        if copies.contains(&t) {
            deliver(&mut server, &mut client);
            out.count("stale_fragment_copies_delivered");
        }
    }
    let now = accounted(&server, &client);
    hist.push(format!("t={} ms: accounted receive memory {:?} (was {} after the first slice)", t, now, first));
    out.count("stale_fragment_runs");
    out.eval(crate::rng::mix(&[0x57C, run_seed, n_slices as u64, copies.len() as u64]), true);
    if now != Some(0) {
        out.violation(
            ctx,
            "C09/unreliable-stale-fragments-still-counted/copies-counted-as-progress",
            "incomplete unreliable fragments stop counting after 3 s without progress",
            format!("a {}-slice unreliable message got only slice {} at t=0 and copies of it at {:?} ms; at t={} ms the receive channel still accounts {:?} bytes for it", n_slices, which, copies, t, now),
            json!({"property": "C09", "engine": ctx.engine, "run_seed": format!("{:#x}", run_seed), "mode": "stale-fragment", "history": hist}),
        );
    }
}

/// A long history behind one missing message. One sliced reliable message (id 0) keeps losing a slice; behind it a
/// sliced message is received whole (and, on an unordered channel, consumed), then up to some 1300 further messages
/// are received while message 0 is still missing; then late duplicates of recorded packets of those messages arrive
/// (a slice of the consumed sliced message first), and finally the gap closes and everything is drained and
/// acknowledged. Whatever the receiver remembers about ids at or above the missing one has to hold for a history of
/// any length: after the drain the receive side accounts nothing, the send side offers its whole budget, nobody was
/// disconnected.
fn long_gap(ctx: &Ctx, out: &mut Outcome, run_seed: u64, r: &mut Rng) {
    let budget = *r.pick(&[256 * 1024usize, 1 << 20, 5 << 20]);
    let resend = *r.pick(&[50u64, 100, 300]);
    let chans = vec![
        ChanSpec { id: 0, kind: Kind::Unreliable, resend_ms: 0, max_mem: budget },
        ChanSpec { id: 1, kind: Kind::ReliableUnordered, resend_ms: resend, max_mem: budget },
        ChanSpec { id: 2, kind: Kind::ReliableOrdered, resend_ms: resend, max_mem: budget },
    ];
    let cc = ConnectionConfig {
        available_bytes_per_tick: 60_000,
        server_channels_config: chans.iter().map(|c| c.to_config()).collect(),
        client_channels_config: chans.iter().map(|c| c.to_config()).collect(),
    };
    let mut server = RenetServer::new(cc.clone());
    let id = 80;
    server.add_connection(id);
    let mut client = RenetClient::new(cc);
    client.set_connected();
    let up = r.chance(1, 2);
    let dir = if up { UP } else { DOWN };
    let ch: u8 = if r.chance(3, 4) { 1 } else { 2 };
    let kind = chans[ch as usize].kind.short();
    let tag = r.next_u64();
    let long = r.chance(1, 2);
    let n_behind = if long { 1030 + r.urange(0, 300) } else { r.urange(20, 600) };
    let gap_slices = r.urange(2, 3);
    let lost_slice = r.usize_below(gap_slices);
    let mut hist: Vec<String> = Vec::new();
    let mut submitted = 0u64;
    let mut obtained = 0u64;
    let mut gap_open = true;
    let mut recorded: Vec<Vec<u8>> = Vec::new();
    let mut recorded_slice: Option<Vec<u8>> = None;
    let mut tick = 0u64;
    let dt = Duration::from_millis(*r.pick(&[16u64, 50, 100]));

    macro_rules! submit {
        ($len:expr) => {{
            let b = Bytes::from(payload::make(0, dir, ch, 0, submitted, $len, tag));
            let ok = if up { client.can_send_message(ch, b.len()) } else { server.can_send_message(id, ch, b.len()) };
            if ok {
                if up {
                    client.send_message(ch, b);
                } else {
                    server.send_message(id, ch, b);
                }
                submitted += 1;
            }
            ok
        }};
    }
    macro_rules! pump {
        () => {{
            tick += 1;
            server.update(dt);
            client.update(dt);
            let upk = client.get_packets_to_send();
            let dpk = server.get_packets_to_send(id).unwrap_or_default();
            for (d, pkts) in [(UP, upk), (DOWN, dpk)] {
                for p in pkts {
                    if d == dir {
                        match crate::rsim::decode(&p) {
                            Some(Packet::ReliableSlice { channel_id, slice, .. }) if channel_id == ch => {
                                if slice.message_id == 0 && slice.slice_index == lost_slice && gap_open {
                                    continue;
                                }
                                if slice.message_id == 1 && recorded_slice.is_none() {
                                    recorded_slice = Some(p.clone());
                                }
                            }
                            Some(Packet::SmallReliable { channel_id, .. }) if channel_id == ch && recorded.len() < 8 && tick % 7 == 0 => recorded.push(p.clone()),
                            _ => {}
                        }
                    }
                    if d == UP {
                        let _ = server.process_packet_from(&p, id);
                    } else {
                        client.process_packet(&p);
                    }
                }
            }
            if up {
                while server.receive_message(id, ch).is_some() {
                    obtained += 1;
                }
            } else {
                while client.receive_message(ch).is_some() {
                    obtained += 1;
                }
            }
        }};
    }
    // message 0: the one that stays incomplete; message 1: sliced, received whole
    let gap_len = (gap_slices - 1) * 1200 + r.urange(1, 1200);
    submit!(gap_len);
    pump!();
    let m1_slices = r.urange(2, 4);
    submit!((m1_slices - 1) * 1200 + r.urange(1, 1200));
    pump!();
    pump!();
    hist.push(format!("dir {} ch {} ({}): message 0 ({} slices) keeps losing slice {}; message 1 ({} slices) received whole; obtained so far {}", dir, ch, kind, gap_slices, lost_slice, m1_slices, obtained));
    let mut left = n_behind;
    let mut guard = 0;
    while left > 0 && guard < 4000 {
        guard += 1;
        let batch = r.urange(1, 40).min(left);
        for _ in 0..batch {
            let len = r.urange(1, 60);
            if submit!(len) {
                left -= 1;
            }
        }
        pump!();
    }
    for _ in 0..4 {
        pump!();
    }
    hist.push(format!("{} further messages received behind the gap (obtained so far {} of {} submitted)", n_behind - left, obtained, submitted));
    // late duplicates
    let mut dups = 0;
    if let Some(p) = &recorded_slice {
        for _ in 0..r.urange(1, 3) {
            if up {
                let _ = server.process_packet_from(p, id);
            } else {
                client.process_packet(p);
            }
            dups += 1;
        }
        out.count("long_gap_late_slice_duplicates");
    }
    for p in recorded.iter() {
        if r.chance(1, 2) {
            if up {
                let _ = server.process_packet_from(p, id);
            } else {
                client.process_packet(p);
            }
            dups += 1;
        }
    }
    hist.push(format!("{} late duplicates of recorded packets delivered (one of them a slice of message 1: {})", dups, recorded_slice.is_some()));
    pump!();
    gap_open = false;
    let mut settle = 0;
    loop {
        pump!();
        settle += 1;
        let sender: &RenetClient = if up { &client } else { server.verif_connection(id).unwrap() };
        let acked = sender.verif_unacked(ch).map_or(true, |v| v.is_empty());
        if (acked && obtained >= submitted && settle > 3) || settle > 400 {
            break;
        }
    }
    let _ = gap_open;
    let recv_mem = if up { server.verif_connection(id).and_then(|c| c.verif_receive_memory(ch)) } else { client.verif_receive_memory(ch) };
    let avail = if up { client.channel_available_memory(ch) } else { server.channel_available_memory(id, ch) };
    let disc = (client.disconnect_reason(), server.disconnect_reason(id));
    hist.push(format!("gap closed, drained for {} ticks: obtained {} of {}, receive side accounts {:?}, send side offers {} of {}, disconnects {:?}", settle, obtained, submitted, recv_mem, avail, budget, disc));
    out.count("long_gap_runs");
    if long && left == 0 {
        out.count("long_gap_runs_over_1024_messages_behind_the_gap");
    }
    out.count(&format!("long_gap_runs.{}", kind));
    out.add("memory_checks", 2);
    out.eval(crate::rng::mix(&[0x10A6, run_seed, n_behind as u64, ch as u64, dir as u64]), obtained >= submitted);
    let report = |out: &mut Outcome, sig: String, clause: &str, detail: String| {
        out.violation(ctx, &sig, clause, detail, json!({"property": "C09", "engine": ctx.engine, "run_seed": format!("{:#x}", run_seed), "mode": "long-gap", "budget": budget, "history": hist}));
    };
    if disc.0.is_some() || disc.1.is_some() {
        let mem = format!("{:?}", disc).contains("MaxMemory");
        if mem {
            return report(out, format!("C09/spurious-memory-disconnect/long-gap/{kind}"), "a connection whose traffic stays within budget and whose application drains promptly is never disconnected for exhausted channel memory", format!("disconnected: {:?}", disc));
        }
        out.count("long_gap_runs_disconnected_otherwise");
        return;
    }
    if obtained < submitted {
        out.count("long_gap_runs_not_drained");
        return;
    }
    if recv_mem != Some(0) {
        return report(out, format!("C09/receive-memory-never-returns/long-gap/{kind}"), "when all submitted reliable messages have been received and acknowledged, every channel again offers its whole budget", format!("{} messages behind a gap of one message, {} late duplicates; after the drain the receive channel accounts {:?} bytes", n_behind, dups, recv_mem));
    }
    if avail != budget {
        return report(out, format!("C09/send-memory-never-returns/long-gap/{kind}"), "send-side bytes come back when messages are acknowledged", format!("after the drain the send channel offers {} of {}", avail, budget));
    }
}
