//! C08 a reliable message is released by the sender only after the peer really has it; an
//! endpoint never acknowledges a sequence number it did not receive.

use crate::link::ALL_RANDOM_PROFILES;
use crate::oracles::SizeMonitor;
use crate::outcome::{Ctx, Outcome, PropInfo};
use crate::payload;
use crate::rng::{Fnv, Rng};
use crate::rsim::{CfgGen, Ev, Kind, Monitor, Side, Sim, DOWN, UP};
use crate::traffic::{self, CoverageMonitor, Plan};
use crate::watchdog;
use renet::verif::Packet;
use renet::{ConnectionConfig, RenetClient};
use serde_json::json;
use std::collections::{BTreeMap, BTreeSet, HashMap};
use std::ops::Range;

pub static INFO: PropInfo = PropInfo {
    id: "C08",
    level: "fault_enumeration",
    rule: "two kinds of evaluation. (A) enumerated small scope (exhaustive: true refers to this sub-space only): for n <= 6 (quick) / 7 (thorough) EVERY ordered subset of the packet sequence numbers {0..n-1} (1957 / 13700 orders), each in 3 numberings (dense, stride 2, stride 1000 from a large base), is fed packet by packet to a fresh endpoint through process_packet; after every packet the recorded pending-ack list (hook) must be sorted, disjoint, non-adjacent, <= 64 ranges and denote exactly the fed set, and the ack packet emitted next must denote exactly that set. (B) sampled large scope: simulated lossy sessions (all fault profiles, ack-starved and data-starved directions, >64 disjoint ranges, acks of acks); after every arrival / send / tick the monitor computes from the hook the set of messages the sender no longer retransmits and requires each to have been delivered completely (all slices, byte-identical, decoded with the crate's decoder) to the still-connected peer; the public byte accounting (max - available = sum of lengths of unreleased messages) cross-checks the hook; every emitted Ack range must be a subset of the sequence numbers actually delivered to its emitter. Non-trivial (B) = faults occurred AND at least one message was released; distinct = fingerprints of the fed order (A) / event log (B). In the sessions (B) the other half of the clause is judged at the end: the link was healed for the whole liveness bound and nobody is disconnected, so no reliable message may still be missing at the receiving application while the sender holds it unreleased (it stopped retransmitting something the peer never got). Plus one HUGE MESSAGE run per check (per fourth shard in the thorough tier): a reliable message of more than 2^16 slices (about 79 MB, on a channel configured for it); of its first transmission only the packet carrying one slice with an index above 65535 is delivered and acknowledged; the sender must still hold the message, and after loss-free rounds it must be obtained intact and only then released. Plus one LONG ACK RANGE run per check (per shard in the thorough tier): packet 0 arrives, packets 1..k are lost, more than 2^16 later packets arrive while nothing of the reverse direction gets through; after the receiver's acknowledgement ('0 and one very long run') the sender must still hold exactly messages 1..k. One session run in 24 is a FLOOD run (one connection, hundreds to 2400 tiny messages of one or all channel kinds per tick, so that single packets carry far more than 255 messages). CUT-SHORT runs (60 per shard in the quick tier): a raw pair with one reliable channel, a few small messages per tick; from a seeded tick on, data packets with at least two messages arrive cut to a prefix (by one byte, inside the last message, or anywhere); what was handed over is what the crate's decoder makes of those bytes, and after that tick's acknowledgements every message the sender no longer holds must have been handed over.",
    assumptions: &[
        "the sequence number of a delivered packet is read with the crate's own decoder",
        "wire message ids are mapped to submissions by content",
    ],
    gates: &[
        ("long_ack_range_runs", 1),
        ("huge_message_runs", 1),
        ("orders_enumerated", 1957),
        ("release_checked", 2000),
        ("ack_packets_checked", 2000),
        ("pending_invariant_checked", 10_000),
        ("released_messages", 1000),
    ],
    engines_quick: &["e1"],
    engines_thorough: &["e1"],
    run,
};

pub fn run(ctx: &Ctx, out: &mut Outcome) {
    if ctx.replay_seed.is_none() {
        enumerate(ctx, out);
        if ctx.shard == 0 || ctx.thorough() {
            long_ack_range(ctx, out);
        }
        if ctx.shard == 1 || (ctx.thorough() && ctx.shard % 4 == 1) {
            huge_message(ctx, out);
        }
    }
    if ctx.replay_seed.is_none() {
        for k in 0..(if ctx.thorough() { 400 } else { 60 }) {
            cut_short(ctx, out, k);
            if out.should_stop() {
                break;
            }
        }
    }
    super::run_loop(ctx, out, 3000, 300_000, 8, one_run);
}

/// Datagrams that arrive CUT SHORT (a receive buffer that was too small, a path that truncates): a raw pair of
/// endpoints, one reliable channel, a few small messages per tick packed into one packet; now and then the network
/// delivers only a prefix of a data packet (the rest is lost). What was handed to the peer is what the crate's own
/// decoder makes of those bytes: nothing (the datagram is refused) or the messages that are completely there. After the
/// acknowledgements of that tick have been processed, every message the sender no longer holds must have been handed over.
fn cut_short(ctx: &Ctx, out: &mut Outcome, k: u64) {
    use bytes::Bytes;
    use renet::{ChannelConfig, SendType};
    use std::collections::BTreeSet;
    use std::time::Duration;
    let seed = ctx.shard_seed(0xC075_0000 + k);
    let mut r = Rng::new(seed);
    let ordered = r.chance(1, 2);
    let resend = Duration::from_millis(*r.pick(&[50u64, 100, 300]));
    let chan = |_: ()| ChannelConfig {
        channel_id: 1,
        max_memory_usage_bytes: 1 << 20,
        send_type: if ordered { SendType::ReliableOrdered { resend_time: resend } } else { SendType::ReliableUnordered { resend_time: resend } },
    };
    let cc = ConnectionConfig { available_bytes_per_tick: 60_000, server_channels_config: vec![chan(())], client_channels_config: vec![chan(())] };
    let mut s = RenetClient::new(cc.clone());
    s.set_connected();
    let mut rcv = RenetClient::new(cc);
    rcv.set_connected();
    let dt = Duration::from_millis(*r.pick(&[16u64, 50, 120]));
    let mut subs: Vec<Vec<u8>> = Vec::new();
    let mut handed: BTreeSet<u64> = BTreeSet::new();
    let mut cuts = 0u64;
    let mut history: Vec<String> = Vec::new();
    let rounds = r.range(4, 30);
    let cut_from = r.range(0, rounds);
    for round in 0..rounds {
        for _ in 0..r.range(2, 7) {
            let len = r.urange(1, 300);
            let mut m = r.bytes(len);
            m[0] = subs.len() as u8;
            subs.push(m.clone());
            s.send_message(1, Bytes::from(m));
        }
        s.update(dt);
        rcv.update(dt);
        for p in s.get_packets_to_send() {
            let whole = crate::rsim::decode(&p);
            let n_msgs = match &whole {
                Some(Packet::SmallReliable { messages, .. }) => messages.len(),
                _ => 0,
            };
            let bytes = if round >= cut_from && n_msgs >= 2 && p.len() > 8 && r.chance(1, 2) {
                cuts += 1;
                let keep = match r.below(3) {
                    0 => p.len() - 1,
                    1 => p.len() - r.urange(1, subs.last().map_or(1, |m| m.len())),
                    _ => r.urange(6, p.len() - 1),
                };
                history.push(format!("round {}: data packet of {} bytes ({} messages) arrives cut to {} bytes", round, p.len(), n_msgs, keep));
                p[..keep].to_vec()
            } else {
                p.clone()
            };
            if let Some(Packet::SmallReliable { messages, .. }) = crate::rsim::decode(&bytes) {
                for (id, m) in messages.iter() {
                    if subs.get(*id as usize).map(|x| x.as_slice()) == Some(&m[..]) {
                        handed.insert(*id);
                    }
                }
            }
            rcv.process_packet(&bytes);
        }
        while rcv.receive_message(1).is_some() {}
        for p in rcv.get_packets_to_send() {
            s.process_packet(&p);
        }
        let held: BTreeSet<u64> = s.verif_unacked(1).unwrap_or_default().into_iter().collect();
        let early: Vec<u64> = (0..subs.len() as u64).filter(|id| !held.contains(id) && !handed.contains(id)).collect();
        if !early.is_empty() && !s.is_disconnected() {
            out.violation(
                ctx,
                "C08/released-before-delivery/cut-short-datagram",
                "the sender stops retransmitting a reliable message only after every packet needed to rebuild it has been handed to the peer",
                format!("messages {:?} are no longer held by the sender although no datagram containing them completely was handed to the peer; {}", early, history.join("; ")),
                json!({"property": "C08", "engine": ctx.engine, "mode": "cut-short", "seed": seed, "k": k, "history": history}),
            );
            return;
        }
        if rcv.is_disconnected() || s.is_disconnected() {
            out.count("cut_short.receiver_refused_the_cut_datagram_and_disconnected");
            break;
        }
    }
    out.count("cut_short_runs");
    out.add("cut_short.cut_datagrams", cuts);
    out.eval(crate::rng::mix(&[0xC075, seed]), cuts > 0);
}

/// One long one-way run: packet 0 (reliable message 0) arrives, packets 1..=k (reliable messages 1..=k) are lost, then
/// more than 2^16 further packets (tiny unreliable messages) arrive while none of the sender's own packets of the
/// reverse direction get through, so the receiver's acknowledgement is "0, and one very long run above the hole".
/// When that acknowledgement is processed the sender may release message 0 and nothing else.
fn long_ack_range(ctx: &Ctx, out: &mut Outcome) {
    use bytes::Bytes;
    use std::time::Duration;
    let seed = ctx.shard_seed(0xACC8);
    let mut r = Rng::new(seed);
    let cc = ConnectionConfig::default(); // 0 unreliable, 1 reliable unordered, 2 reliable ordered
    let mut s = RenetClient::new(cc.clone());
    s.set_connected();
    let mut rcv = RenetClient::new(cc); // the default lists are the same in both directions
    rcv.set_connected();
    let ch = if r.chance(1, 2) { 1u8 } else { 2u8 };
    let k = r.range(1, 6);
    // packet 0 arrives
    s.send_message(ch, Bytes::from(vec![0u8; 30]));
    for p in s.get_packets_to_send() {
        rcv.process_packet(&p);
    }
    // packets 1..=k are lost
    for i in 1..=k {
        s.send_message(ch, Bytes::from(vec![i as u8; 30]));
        let _ = s.get_packets_to_send();
    }
    // a long run of later packets arrives (time does not advance: nothing is resent meanwhile)
    let run = 65_536 + r.range(3, 5000);
    for i in 0..run {
        s.send_message(0, Bytes::from(vec![(i % 251) as u8; 1]));
        s.update(Duration::ZERO);
        for p in s.get_packets_to_send() {
            rcv.process_packet(&p);
        }
        while rcv.receive_message(0).is_some() {}
    }
    let pending = rcv.verif_pending_acks();
    let before: BTreeSet<u64> = s.verif_unacked(ch).unwrap_or_default().into_iter().collect();
    for p in rcv.get_packets_to_send() {
        s.process_packet(&p);
    }
    let after: BTreeSet<u64> = s.verif_unacked(ch).unwrap_or_default().into_iter().collect();
    out.count("long_ack_range_runs");
    out.eval(crate::rng::mix(&[0xACC8, seed]), true);
    let expected: BTreeSet<u64> = (1..=k).collect();
    if after != expected || s.is_disconnected() || rcv.is_disconnected() {
        out.violation(
            ctx,
            "C08/released-before-delivery/long-ack-range",
            "the sender gives a reliable message up only after every packet needed to rebuild it has been handed to the peer",
            format!("packets 1..={} (reliable messages 1..={}) were never delivered, {} later packets were; the receiver recorded {:?}; after its acknowledgement the sender still holds {:?} (before: {:?}), expected {:?}", k, k, run, pending, after, before, expected),
            json!({"property": "C08", "engine": ctx.engine, "mode": "long-ack-range", "seed": seed, "lost": k, "run": run}),
        );
    }
}

/// One message of more than 2^16 slices (some 79 MB, on a channel configured for it): of its first transmission only
/// the packet carrying one slice with an index above 65535 is delivered and acknowledged. Every other slice - in
/// particular the one whose index is 65536 lower - has never been handed to the peer, so the sender must keep
/// retransmitting all of them: after loss-free rounds the message is obtained, intact, and only then released.
fn huge_message(ctx: &Ctx, out: &mut Outcome) {
    use bytes::Bytes;
    use renet::{ChannelConfig, SendType};
    use std::time::Duration;
    let seed = ctx.shard_seed(0xB16);
    let mut r = Rng::new(seed);
    let budget = 120 * 1024 * 1024;
    let ordered = r.chance(1, 2);
    let chan = |_: ()| ChannelConfig {
        channel_id: 1,
        max_memory_usage_bytes: budget,
        send_type: if ordered { SendType::ReliableOrdered { resend_time: Duration::from_millis(100) } } else { SendType::ReliableUnordered { resend_time: Duration::from_millis(100) } },
    };
    let cc = ConnectionConfig { available_bytes_per_tick: 400 * 1024 * 1024, server_channels_config: vec![chan(())], client_channels_config: vec![chan(())] };
    let mut s = RenetClient::new(cc.clone());
    s.set_connected();
    let mut rcv = RenetClient::new(cc);
    rcv.set_connected();
    let extra = r.urange(1, 200);
    let n_slices = 65_536 + extra;
    let len = (n_slices - 1) * 1200 + r.urange(1, 1200);
    let mut body = vec![0u8; len];
    for (i, b) in body.iter_mut().enumerate() {
        *b = (i as u64).wrapping_mul(0x9E37_79B9).wrapping_add(i as u64 >> 11) as u8;
    }
    let digest = crate::rng::fnv1a(&body);
    s.send_message(1, Bytes::from(body));
    let high = 65_536 + r.usize_below(extra); // the delivered slice; `high - 65536` is the one a 16-bit index would confuse it with
    let first = s.get_packets_to_send();
    let mut delivered = 0;
    for p in first.iter() {
        if matches!(crate::rsim::decode(p), Some(Packet::ReliableSlice { slice, .. }) if slice.slice_index == high) {
            rcv.process_packet(p);
            delivered += 1;
        }
    }
    drop(first);
    for p in rcv.get_packets_to_send() {
        s.process_packet(&p);
    }
    let still_held = s.verif_unacked(1).unwrap_or_default();
    let mut obtained: Option<(usize, u64)> = None;
    let mut rounds = 0;
    let mut per_round: Vec<usize> = Vec::new();
    while rounds < 4 && obtained.is_none() {
        rounds += 1;
        s.update(Duration::from_millis(150));
        rcv.update(Duration::from_millis(150));
        let pk = s.get_packets_to_send();
        per_round.push(pk.len());
        for p in pk.iter() {
            rcv.process_packet(p);
        }
        drop(pk);
        if let Some(m) = rcv.receive_message(1) {
            obtained = Some((m.len(), crate::rng::fnv1a(&m)));
        }
        for p in rcv.get_packets_to_send() {
            s.process_packet(&p);
        }
    }
    out.count("huge_message_runs");
    out.eval(crate::rng::mix(&[0xB16, seed]), delivered == 1);
    let released = s.verif_unacked(1).unwrap_or_default().is_empty();
    let ok = delivered == 1 && still_held == vec![0] && obtained == Some((len, digest)) && released && s.channel_available_memory(1) == budget && !s.is_disconnected() && !rcv.is_disconnected();
    if delivered != 1 {
        return out.inconclusive("C08 huge message: the slice packet to deliver was not found");
    }
    if !ok {
        out.violation(
            ctx,
            "C08/stopped-retransmitting-before-delivery/huge-message",
            "the sender stops retransmitting a reliable message only after every packet needed to rebuild it has been handed to the peer",
            format!(
                "a message of {} slices ({} bytes): only slice {} of the first transmission was delivered and acknowledged; held afterwards {:?}; packets per loss-free round {:?}; obtained {:?} (expected ({}, {:#x})); released {}; disconnects {:?}/{:?}",
                n_slices, len, high, still_held, per_round, obtained, len, digest, released, s.disconnect_reason(), rcv.disconnect_reason()
            ),
            json!({"property": "C08", "engine": ctx.engine, "mode": "huge-message", "seed": seed, "slices": n_slices, "delivered_slice": high}),
        );
    }
}

// ------------------------------------------------------------------------------------------
// (A) enumerated small scope
// ------------------------------------------------------------------------------------------

fn invariant_violation(p: &[Range<u64>]) -> Option<&'static str> {
    if p.len() > 64 {
        return Some("more-than-64-ranges");
    }
    for r in p {
        if r.start >= r.end {
            return Some("empty-range");
        }
    }
    for w in p.windows(2) {
        if w[0].end > w[1].start {
            return Some("unsorted-or-overlapping");
        }
        if w[0].end == w[1].start {
            return Some("adjacent-not-merged");
        }
    }
    None
}

fn set_of(p: &[Range<u64>]) -> BTreeSet<u64> {
    let mut s = BTreeSet::new();
    for r in p {
        if r.end - r.start > 100_000 {
            continue;
        }
        for x in r.clone() {
            s.insert(x);
        }
    }
    s
}

fn empty_packet(seq: u64) -> Vec<u8> {
    let mut buf = [0u8; 32];
    let p = Packet::SmallUnreliable {
        sequence: seq,
        channel_id: 0,
        messages: vec![],
    };
    let mut o = octets::OctetsMut::with_slice(&mut buf);
    let n = p.to_bytes(&mut o).expect("encode");
    buf[..n].to_vec()
}

fn enumerate(ctx: &Ctx, out: &mut Outcome) {
    let n_max = if ctx.thorough() { 7 } else { 6 };
    // split the first-element choice over shards
    let mut orders: Vec<Vec<u64>> = Vec::new();
    fn rec(n: u64, cur: &mut Vec<u64>, used: u64, orders: &mut Vec<Vec<u64>>) {
        orders.push(cur.clone());
        for x in 0..n {
            if used & (1 << x) == 0 {
                cur.push(x);
                rec(n, cur, used | (1 << x), orders);
                cur.pop();
            }
        }
    }
    rec(n_max, &mut Vec::new(), 0, &mut orders);
    let total = orders.len();
    let mut complete = true;
    for (i, order) in orders.iter().enumerate() {
        if i % ctx.nshards != ctx.shard {
            continue;
        }
        if ctx.over_budget() {
            complete = false;
            break;
        }
        for (numbering, (base, stride)) in [(0u64, 1u64), (5, 2), (1u64 << 33, 1000)].iter().enumerate() {
            let mut c = RenetClient::new(ConnectionConfig::default());
            c.set_connected();
            let mut fed: BTreeSet<u64> = BTreeSet::new();
            let mut bad = false;
            for k in order.iter() {
                let seq = base + k * stride;
                c.process_packet(&empty_packet(seq));
                fed.insert(seq);
                out.count("pending_invariant_checked");
                let p = c.verif_pending_acks();
                let problem = invariant_violation(&p).or_else(|| if set_of(&p) != fed { Some("recorded-set-differs-from-fed-set") } else { None });
                if let Some(what) = problem {
                    out.violation(
                        ctx,
                        &format!("C08/pending-acks/{}", what),
                        "the recorded set of received sequence numbers is sorted, disjoint, non-adjacent, <= 64 ranges and equals the set received",
                        format!("after feeding sequences {:?} (x{} + {}) the pending list is {:?}", order, stride, base, p),
                        json!({"property": "C08", "engine": ctx.engine, "mode": "enumerate", "run_seed": "0x0", "order": order, "base": base, "stride": stride}),
                    );
                    bad = true;
                    break;
                }
            }
            if bad || order.is_empty() {
                continue;
            }
            // the ack packet emitted next denotes exactly the fed set
            let pkts = c.get_packets_to_send();
            let mut acked: BTreeSet<u64> = BTreeSet::new();
            let mut n_ack = 0;
            for b in pkts.iter() {
                if let Some(Packet::Ack { ack_ranges, .. }) = crate::rsim::decode(b) {
                    n_ack += 1;
                    acked.extend(set_of(&ack_ranges));
                }
            }
            out.count("ack_packets_checked");
            if n_ack != 1 || acked != fed {
                let class = if acked.difference(&fed).next().is_some() { "acks-unreceived-sequence" } else { "ack-misses-received-sequence" };
                out.violation(
                    ctx,
                    &format!("C08/ack-packet/{}", class),
                    "an endpoint never acknowledges a packet sequence number it did not receive",
                    format!("fed {:?}, ack packet denotes {:?}", fed, acked),
                    json!({"property": "C08", "engine": ctx.engine, "mode": "enumerate", "run_seed": "0x0", "order": order, "base": base, "stride": stride}),
                );
            }
            if numbering == 0 {
                let mut fp = Fnv::new();
                for k in order {
                    fp.u64(*k + 1);
                }
                out.eval(fp.finish(), order.len() >= 2);
            }
        }
        out.count("orders_enumerated");
    }
    if ctx.shard == 0 {
        out.sample(json!({"mode": "enumerate", "n": n_max, "orders_total": total, "example_orders": [[2,0,1],[5,3,4,0],[1]], "numberings": ["dense", "5+2k", "2^33+1000k"]}));
    }
    out.exhaustive = Some(complete);
}

// ------------------------------------------------------------------------------------------
// (B) release oracle on simulated sessions
// ------------------------------------------------------------------------------------------

#[derive(Default)]
struct RelChan {
    subs: Vec<Vec<u8>>,
    short: HashMap<Vec<u8>, Vec<usize>>,
    id_of: HashMap<usize, u64>,
    idx_of: HashMap<u64, usize>,
    have: HashMap<usize, BTreeSet<usize>>,
    complete_at_peer: BTreeSet<usize>,
    released: BTreeSet<usize>,
    bad: bool,
}

pub struct ReleaseOracle {
    chans: BTreeMap<(usize, u8, u8), RelChan>,
    /// (conn, side) -> sequence numbers of packets delivered to that endpoint
    delivered: HashMap<(usize, u8), BTreeSet<u64>>,
    reported: BTreeSet<String>,
}

impl ReleaseOracle {
    pub fn new() -> Self {
        ReleaseOracle {
            chans: BTreeMap::new(),
            delivered: HashMap::new(),
            reported: BTreeSet::new(),
        }
    }

    fn report(&mut self, ctx: &Ctx, out: &mut Outcome, sim: &Sim, sig: String, clause: &str, detail: String, extra: serde_json::Value) {
        if !self.reported.insert(sig.clone()) {
            return;
        }
        let r = sim.replay_value(&ctx.prop, &ctx.engine, clause, extra);
        out.violation(ctx, &sig, clause, detail, r);
    }

    fn learn(c: &mut RelChan, p: &Packet, ch: u8) {
        match p {
            Packet::SmallReliable { channel_id, messages, .. } if *channel_id == ch => {
                for (id, m) in messages {
                    if c.idx_of.contains_key(id) {
                        continue;
                    }
                    let found = if let Some(pid) = payload::parse(m) {
                        let i = pid.idx as usize;
                        if c.subs.get(i).map(|s| s.as_slice()) == Some(&m[..]) {
                            Some(i)
                        } else {
                            None
                        }
                    } else {
                        c.short.get(&m[..]).and_then(|v| v.iter().copied().find(|i| !c.id_of.contains_key(i)))
                    };
                    if let Some(i) = found {
                        c.idx_of.insert(*id, i);
                        c.id_of.insert(i, *id);
                    }
                }
            }
            Packet::ReliableSlice { channel_id, slice, .. } if *channel_id == ch => {
                if c.idx_of.contains_key(&slice.message_id) || slice.slice_index != 0 {
                    return;
                }
                if let Some(pid) = payload::parse(&slice.payload) {
                    let i = pid.idx as usize;
                    if c.subs.get(i).map_or(false, |s| s.len() > 1200 && s[..1200] == slice.payload[..]) {
                        c.idx_of.insert(slice.message_id, i);
                        c.id_of.insert(i, slice.message_id);
                    }
                }
            }
            _ => {}
        }
    }

    fn mark(c: &mut RelChan, p: &Packet, ch: u8) {
        match p {
            Packet::SmallReliable { channel_id, messages, .. } if *channel_id == ch => {
                for (id, m) in messages {
                    if let Some(&i) = c.idx_of.get(id) {
                        if c.subs[i].as_slice() == &m[..] {
                            c.complete_at_peer.insert(i);
                        }
                    }
                }
            }
            Packet::ReliableSlice { channel_id, slice, .. } if *channel_id == ch => {
                if let Some(&i) = c.idx_of.get(&slice.message_id) {
                    let s = &c.subs[i];
                    let n = s.len().div_ceil(1200);
                    let k = slice.slice_index;
                    if slice.num_slices == n && k < n {
                        let start = k * 1200;
                        let end = ((k + 1) * 1200).min(s.len());
                        if s[start..end] == slice.payload[..] {
                            let h = c.have.entry(i).or_default();
                            h.insert(k);
                            if h.len() == n {
                                c.complete_at_peer.insert(i);
                            }
                        }
                    }
                }
            }
            _ => {}
        }
    }

    fn check_release(&mut self, sim: &Sim, ctx: &Ctx, out: &mut Outcome, conn: usize, dir: u8) {
        let Some(sender) = sim.sender(conn, dir) else { return };
        if sender.is_disconnected() {
            return;
        }
        let specs: Vec<(u8, usize)> = sim.cfg.chans(dir).iter().filter(|c| c.kind.reliable()).map(|c| (c.id, c.max_mem)).collect();
        for (ch, max_mem) in specs {
            let Some(unacked) = sender.verif_unacked(ch) else { continue };
            let unacked: BTreeSet<u64> = unacked.into_iter().collect();
            let mut problems: Vec<(String, String, serde_json::Value)> = Vec::new();
            {
                let Some(c) = self.chans.get_mut(&(conn, dir, ch)) else { continue };
                if c.bad {
                    continue;
                }
                out.count("release_checked");
                let mut unreleased_bytes = 0usize;
                for i in 0..c.subs.len() {
                    let is_released = match c.id_of.get(&i) {
                        Some(id) => !unacked.contains(id),
                        None => false, // never seen on the wire: cannot have been released legitimately
                    };
                    if is_released {
                        if c.released.insert(i) {
                            out.count("released_messages");
                            if !c.complete_at_peer.contains(&i) {
                                c.bad = true;
                                problems.push((
                                    "C08/released-before-delivery".to_string(),
                                    format!(
                                        "conn {} dir {} ch {}: submission #{} ({} bytes) is no longer retransmitted but only {:?} of its {} packets reached the peer",
                                        conn,
                                        dir,
                                        ch,
                                        i,
                                        c.subs[i].len(),
                                        c.have.get(&i).map(|h| h.len()).unwrap_or(0),
                                        c.subs[i].len().div_ceil(1200).max(1)
                                    ),
                                    json!({"conn": conn, "dir": dir, "ch": ch, "index": i, "len": c.subs[i].len()}),
                                ));
                            }
                        }
                    } else {
                        unreleased_bytes += c.subs[i].len();
                    }
                }
                // cross-check the hook with the public byte accounting
                if !c.bad {
                    let avail = watchdog::catch(|| sender.channel_available_memory(ch)).unwrap_or(usize::MAX);
                    if avail != max_mem.wrapping_sub(unreleased_bytes) {
                        // bytes given back without the hook showing a release (or the reverse)
                        let class = if avail > max_mem.wrapping_sub(unreleased_bytes) { "bytes-returned-early" } else { "bytes-not-returned" };
                        // only the early direction belongs to C08; the other is C09's business
                        if class == "bytes-returned-early" {
                            c.bad = true;
                            problems.push((
                                format!("C08/{}", class),
                                format!(
                                    "conn {} dir {} ch {}: available memory {} but {} bytes of unreleased messages against a budget of {}",
                                    conn, dir, ch, avail, unreleased_bytes, max_mem
                                ),
                                json!({"conn": conn, "dir": dir, "ch": ch, "available": avail, "unreleased_bytes": unreleased_bytes, "max": max_mem}),
                            ));
                        } else {
                            out.count("byte_sum_lagging");
                        }
                    }
                }
            }
            for (sig, detail, extra) in problems {
                self.report(ctx, out, sim, sig, "released only after every packet needed to rebuild the message was handed to the peer", detail, extra);
            }
        }
    }
}

impl Monitor for ReleaseOracle {
    fn name(&self) -> &'static str {
        "release"
    }
    fn on(&mut self, ev: &Ev, sim: &Sim, ctx: &Ctx, out: &mut Outcome) {
        match ev {
            Ev::Submit {
                conn,
                dir,
                ch,
                bytes,
                accepted,
            } => {
                if !*accepted || !sim.cfg.chan(*dir, *ch).map_or(false, |c| c.kind.reliable()) {
                    return;
                }
                let c = self.chans.entry((*conn, *dir, *ch)).or_default();
                let i = c.subs.len();
                c.subs.push(bytes.to_vec());
                if payload::parse(bytes).is_none() {
                    c.short.entry(bytes.to_vec()).or_default().push(i);
                }
            }
            Ev::SendCall { conn, dir, decoded, .. } => {
                let emitter_side = if *dir == UP { Side::Client } else { Side::Server };
                for p in decoded.iter().flatten() {
                    match p {
                        Packet::SmallReliable { channel_id, .. } | Packet::ReliableSlice { channel_id, .. } => {
                            if let Some(c) = self.chans.get_mut(&(*conn, *dir, *channel_id)) {
                                Self::learn(c, p, *channel_id);
                            }
                        }
                        Packet::Ack { ack_ranges, .. } => {
                            out.count("ack_packets_checked");
                            out.max("ack_ranges_seen", ack_ranges.len() as u64);
                            let delivered = self.delivered.entry((*conn, emitter_side as u8)).or_default();
                            let mut offending: Option<u64> = None;
                            for r in ack_ranges.iter() {
                                let len = r.end.saturating_sub(r.start);
                                let cnt = delivered.range(r.clone()).count() as u64;
                                if cnt != len {
                                    // find one offending sequence for the report
                                    let mut x = r.start;
                                    while x < r.end && x < r.start + 1_000_000 {
                                        if !delivered.contains(&x) {
                                            offending = Some(x);
                                            break;
                                        }
                                        x += 1;
                                    }
                                    if offending.is_none() {
                                        offending = Some(r.start);
                                    }
                                    break;
                                }
                            }
                            if let Some(x) = offending {
                                self.report(
                                    ctx,
                                    out,
                                    sim,
                                    "C08/ack-packet/acks-unreceived-sequence".to_string(),
                                    "an endpoint never acknowledges a packet sequence number it did not receive",
                                    format!("conn {} {:?} emitted an Ack naming sequence {} which was never delivered to it", conn, emitter_side, x),
                                    json!({"conn": conn, "side": format!("{:?}", emitter_side), "sequence": x, "ranges": format!("{:?}", ack_ranges.iter().take(8).collect::<Vec<_>>())}),
                                );
                            }
                        }
                        _ => {}
                    }
                }
                self.check_release(sim, ctx, out, *conn, *dir);
            }
            Ev::Arrive {
                conn,
                dir,
                decoded,
                receiver_disconnected,
                ..
            } => {
                if *receiver_disconnected {
                    return;
                }
                let Some(p) = decoded else { return };
                let rx_side = if *dir == UP { Side::Server } else { Side::Client };
                self.delivered.entry((*conn, rx_side as u8)).or_default().insert(p.sequence());
                match p {
                    Packet::SmallReliable { channel_id, .. } | Packet::ReliableSlice { channel_id, .. } => {
                        if let Some(c) = self.chans.get_mut(&(*conn, *dir, *channel_id)) {
                            Self::mark(c, p, *channel_id);
                        }
                    }
                    _ => {}
                }
            }
            Ev::Arrived { conn, dir, .. } => {
                // the receiver of `dir` may have processed an ack => the sender of the other direction
                // may have released something; and the receiver's recorded set changed
                self.check_release(sim, ctx, out, *conn, 1 - *dir);
                if let Some(rx) = sim.receiver(*conn, *dir) {
                    if !rx.is_disconnected() {
                        out.count("pending_invariant_checked");
                        let p = rx.verif_pending_acks();
                        out.max("pending_ranges", p.len() as u64);
                        if let Some(what) = invariant_violation(&p) {
                            self.report(
                                ctx,
                                out,
                                sim,
                                format!("C08/pending-acks/{}", what),
                                "the recorded set of received sequence numbers is sorted, disjoint, non-adjacent and at most 64 ranges",
                                format!("conn {} receiver of dir {}: pending list {:?}", conn, dir, p.iter().take(10).collect::<Vec<_>>()),
                                json!({"conn": conn, "dir": dir, "ranges": p.len()}),
                            );
                        }
                        let rx_side = if *dir == UP { Side::Server } else { Side::Client };
                        let delivered = self.delivered.entry((*conn, rx_side as u8)).or_default();
                        let mut bad_seq = None;
                        for r in p.iter() {
                            if delivered.range(r.clone()).count() as u64 != r.end.saturating_sub(r.start) {
                                bad_seq = Some(r.clone());
                                break;
                            }
                        }
                        if let Some(r) = bad_seq {
                            self.report(
                                ctx,
                                out,
                                sim,
                                "C08/pending-acks/records-unreceived-sequence".to_string(),
                                "an endpoint never acknowledges a packet sequence number it did not receive",
                                format!("conn {} receiver of dir {}: recorded range {:?} contains sequence numbers never delivered", conn, dir, r),
                                json!({"conn": conn, "dir": dir, "range": format!("{:?}", r)}),
                            );
                        }
                    }
                }
            }
            Ev::TickEnd { .. } => {
                for c in 0..sim.cfg.n_clients {
                    self.check_release(sim, ctx, out, c, UP);
                    self.check_release(sim, ctx, out, c, DOWN);
                }
            }
            _ => {}
        }
    }
}

pub fn one_run(ctx: &Ctx, out: &mut Outcome, run_seed: u64) {
    let mut r = Rng::new(run_seed);
    let gen = CfgGen {
        max_clients: 2,
        small_budgets: r.chance(1, 2),
        min_bytes_per_tick: 1200,
        profiles: ALL_RANDOM_PROFILES.to_vec(),
    };
    let mut cfg = gen.gen(&mut r);
    // flood runs (own random stream): hundreds to thousands of tiny reliable messages per tick, so that one packet
    // carries more messages than fit a one-byte count and thousands of ids are acknowledged by one ack packet
    let mut fr = Rng::new(run_seed ^ 0xF100D);
    let flood = fr.chance(1, if ctx.thorough() { 100 } else { 24 });
    if flood {
        crate::props::c01::flood_cfg(&mut cfg, &mut fr);
        out.count("flood_runs");
    }
    let plan = Plan {
        fault_ticks: if flood { fr.range(8, 20) } else { r.range(10, if ctx.thorough() { 200 } else { 80 }) },
        rate_x100: *r.pick(&[100u64, 250, 600]),
        max_msgs: if flood { fr.range(1500, 5_000) } else { r.range(20, 400) },
        kinds: if flood {
            match fr.below(3) {
                0 => vec![Kind::ReliableOrdered],
                1 => vec![Kind::ReliableUnordered],
                _ => vec![Kind::ReliableOrdered, Kind::ReliableUnordered, Kind::Unreliable],
            }
        } else {
            vec![Kind::ReliableOrdered, Kind::ReliableUnordered, Kind::Unreliable]
        },
        allow_large: r.chance(1, 8),
        tail_ticks: r.range(0, 20),
        liveness: false,
        flood,
        max_len: 100_000,
        overload: false,
    };
    let mut mons: Vec<Box<dyn Monitor>> = vec![Box::new(ReleaseOracle::new()), Box::new(CoverageMonitor::new()), Box::new(SizeMonitor { prop: "C13" })];
    let before = out.get("released_messages");
    let (s, sim) = traffic::run(ctx, out, cfg, &plan, run_seed, &mut mons);
    let released = out.get("released_messages") - before;
    // the other half of the clause: the sender STOPS retransmitting only after the peer has everything. The link was
    // healed for the whole liveness bound, nobody is disconnected, yet a reliable message is still missing at the
    // receiving application while the sender still holds it unreleased: it gave up retransmitting something the peer
    // never got
    if !s.all_obtained && !s.any_disconnected && !out.should_stop() {
        let mut held: Vec<String> = Vec::new();
        for c in 0..sim.cfg.n_clients {
            for d in [UP, DOWN] {
                let sender: Option<&RenetClient> = if d == UP { Some(&sim.clients[c]) } else { sim.server.verif_connection(sim.ids[c]) };
                let Some(sender) = sender else { continue };
                for (i, ch) in sim.cfg.chans(d).iter().enumerate() {
                    if ch.kind == Kind::Unreliable || sim.outstanding_n[c][d as usize].get(i).copied().unwrap_or(0) == 0 {
                        continue;
                    }
                    let un = sender.verif_unacked(ch.id).unwrap_or_default();
                    if !un.is_empty() {
                        held.push(format!("conn {} dir {} ch {}: {} message(s) not obtained, sender still holds ids {:?}", c, d, ch.id, sim.outstanding_n[c][d as usize][i], un.iter().take(6).collect::<Vec<_>>()));
                    }
                }
            }
        }
        if !held.is_empty() {
            let r = sim.replay_value(&ctx.prop, &ctx.engine, "the sender stops retransmitting a reliable message only after every packet needed to rebuild it has been handed to the peer", json!({"held": held}));
            out.violation(
                ctx,
                "C08/stopped-retransmitting-before-delivery",
                "the sender stops retransmitting a reliable message only after every packet needed to rebuild it has been handed to the peer",
                format!("{} ticks after the link healed (bound {}): {}", s.ticks, s.bound, held.join("; ")),
                r,
            );
        } else {
            out.count("runs_not_fully_obtained_with_nothing_held");
        }
    } else if s.all_obtained {
        out.count("runs_fully_delivered_after_heal");
    }
    let faults = s.dropped + s.duplicated + s.reordered > 0;
    let nontrivial = faults && released > 0;
    out.count("session_runs");
    out.eval(s.fingerprint, nontrivial);
    if nontrivial {
        out.sample(traffic::sample_value(&sim, &s));
    }
}
