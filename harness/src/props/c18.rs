//! C18 Netcode liveness: handshakes complete (bounded), silent peers time out, live ones do not,
//! forged / replayed packets do not postpone a timeout, half-open entries vanish on token expiry,
//! client limits raised at run time admit new clients (DESIGN section 4).
//!
//! Signature classes:
//!   C18/handshake-bound-exceeded/<variant>     not connected on both sides within B after faults stopped
//!   C18/handshake-denied-below-limit/<variant> server denied an honest client although connected < max_clients
//!        variant: plain | after-faults | failover | limit-raised | limit-lowered-then-raised
//!   C18/timeout-missed/<server|client>         silent for more than `timeout`, not disconnected at the next update
//!   C18/timeout-postponed/<server|client>/<kind>  same, and datagrams of <kind> were injected since the last
//!        authentic packet (also raised when the twin run without the injections disconnects at another time)
//!        kind: replayed-response | replayed-request | garbage-type0 | replayed-keepalive | forged-keepalive |
//!              wrong-key-keepalive | replayed-challenge
//!   C18/spurious-timeout/<server|client>       timed out although an authentic packet arrived within `timeout`
//!   C18/half-open-survives-expiry              pending entry still present after floor(t) > expire and an update
//!   C18/panic/<class>

use super::netproto_util::{a, challenge_of, report_panic, request_bytes, response_bytes, rkey, sealed, Hist};
use crate::nsim::{addr4, mint, prefix_type, Cli, OPacket, SResult, Srv};
use crate::outcome::{Ctx, Outcome, PropInfo};
use crate::rng::{fnv1a, Fnv, Rng};
use crate::watchdog::guarded;
use renetcode::DisconnectReason;
use serde_json::json;
use std::collections::HashSet;
use std::net::SocketAddr;
use std::time::Duration;

pub static INFO: PropInfo = PropInfo {
    id: "C18",
    level: "exploration",
    rule: "one evaluation = one simulated pair (real NetcodeServer + real NetcodeClient, addressed datagram network with per-datagram drop / duplicate / delay decisions, virtual time, tick lengths {10,100,250,400 ms, irregular}, timeouts {1,5,15 s,-1}) in one of five seeded scenarios: (H) handshake under a fault phase (random loss up to 90 %, duplication, reordering, or scripted 'lose the first n copies of handshake packet k' for each of the four packets), then faults stop and the pair must be connected on both sides within B = 4*(250 ms + 2*dt_max) + 1 s unless the token expiry or the client's own timeout falls inside B or the server is full; in half of the (H) pairs with other clients some of those were disconnected by the server application (NetcodeServer::disconnect) before the honest client starts - their slots are free whatever way they left; in half of the (H) pairs 1-5 OTHER addresses have started a handshake with valid tokens and abandoned it (half-open sessions are not connected clients and take nobody's slot); variants with other clients connected, the limit raised above its construction value, lowered to full and raised again; in half of the (H) and (F) pairs the applications STREAM: the server hands a payload to the session every tick from the moment it reports the client connected, the client likewise once connected; (F) failover: 1-2 silent server addresses listed before the real one; the client's clock does not share an origin with the clock the token was stamped on in half of the pairs (it starts near zero, or an hour to twelve days ahead: only durations matter to a client); (T) timeouts: connect, chatty phase with loss, then one or both directions go silent; at every update / update_client the deadline monitor demands a disconnect iff no authentic packet arrived for more than `timeout`, and forbids it while one arrived within `timeout`; the same history is run twice, once with injected datagrams (replayed Response / Request, random type-0 datagram, replayed / bit-flipped / wrong-key keep-alives, replayed Challenge) and the disconnect times of the twins are compared; (L) long lossy-but-live session in which each direction delivers at least one authentic packet per timeout/2: no disconnect allowed - in half of these the token lives 5-9 s and the session outlives it (a token bounds the handshake, not the session); (R) restart: a client starts a handshake and is gone before completing it; a new client with a fresh token (same or new client id) starts from the same address while the first one's half-open entry is still at the server, and must be connected within B; (R') restart with the SAME token: the client process dies silently in a short session and is started again at the same address 0.5-0.8 timeouts later; the server drops the dead session at its timeout (its Disconnect reaches the still requesting new client) and the client must be connected on both sides within timeout + 4 x 250 ms + 10 ticks of its restart; (P) half-open entry (verif_pending hook) must vanish at the first update with floor(t) > expire, also under replayed requests. Non-trivial = the scenario's obligation was actually evaluated (deadline reached with preconditions true / a timeout verdict was taken / the pending entry was seen and then checked); distinct = distinct fingerprints of the datagram and state history. In half of the (R') pairs the new process comes from ANOTHER port with a fresh token for the same client id: the server stays silent while it holds the dead session and the client must be connected within the same bound.",
    assumptions: &[
        "bounded liveness only: B = 4*(250 ms + 2*dt_max) + 1 s of virtual time after the fault phase; failover adds (timeout + 2*dt_max) per silent address",
        "authentic for the must-disconnect clause = first delivery of any datagram the peer really produced (lenient); for the must-not-disconnect clause only first deliveries of keep-alive / payload datagrams while connected count (strict); datagrams in between (a late Response after the server already connected the client) may or may not refresh",
        "a half-open entry is required to vanish only once floor(t) > expire (at floor(t) == expire the pinned code still keeps it; the statement does not fix that second)",
        "timeout_seconds <= 0 means the timeout is disabled",
    ],
    gates: &[
        ("stream.server_payloads_before_client_connected", 100),
        ("handshake.checked.plain", 40),
        ("handshake.checked.restart", 40),
        ("handshake.checked.after-faults", 150),
        ("handshake.checked.failover", 40),
        ("handshake.checked.limit-raised", 40),
        ("handshake.checked.limit-lowered-then-raised", 20),
        ("live.limit_raised_again", 50),
        ("lost_first.request", 20),
        ("lost_first.challenge", 20),
        ("lost_first.response", 20),
        ("lost_first.keepalive", 20),
        ("timeout.server_fired_on_time", 100),
        ("timeout.client_fired_on_time", 100),
        ("timeout.not_fired_while_live_checks", 5000),
        ("twin_runs_compared", 100),
        ("injected.replayed-response", 20),
        ("injected.replayed-request", 20),
        ("injected.garbage-type0", 20),
        ("injected.replayed-keepalive", 20),
        ("injected.forged-keepalive", 20),
        ("injected.replayed-challenge", 20),
        ("live_sessions_survived", 40),
        ("pending_vanished_after_expiry", 40),
    ],
    engines_quick: &["e1"],
    engines_thorough: &["e1"],
    run,
};

pub fn run(ctx: &Ctx, out: &mut Outcome) {
    super::run_loop(ctx, out, 120_000, 6_000_000, 18, one_run);
}

#[derive(Clone)]
struct Dg {
    at: Duration,
    to_server: bool,
    bytes: Vec<u8>,
    /// produced by the real peer (not injected by the attacker)
    genuine: bool,
    inj: &'static str,
}

#[derive(Clone, Default)]
struct Policy {
    loss_up: u64,
    loss_down: u64,
    dup: u64,
    max_delay_ms: u64,
    block_up: bool,
    block_down: bool,
    /// drop the first n copies of each packet type (index = netcode packet type)
    lose_first: [u32; 7],
    /// never let a direction stay without a delivery for longer than this
    guarantee: Option<Duration>,
}

struct Pair {
    srv: Srv,
    cli: Cli,
    id: u64,
    caddr: SocketAddr,
    /// the address the real server listens on; datagrams to other addresses vanish (silent hosts)
    saddr: SocketAddr,
    cnow: Duration,
    tau: i32,
    dt_max: Duration,
    net: Vec<Dg>,
    pol: Policy,
    // monitor state
    s_conn: bool,
    c_conn: bool,
    ts_strict: Duration,
    ts_lenient: Duration,
    tc_strict: Duration,
    tc_lenient: Duration,
    seen_s: HashSet<u64>,
    seen_c: HashSet<u64>,
    inj_s: Option<&'static str>,
    inj_c: Option<&'static str>,
    s_disc_at: Option<Duration>,
    c_disc_at: Option<Duration>,
    last_del_up: Duration,
    last_del_down: Duration,
    // captured genuine datagrams by netcode type (the attacker listens), both directions
    cap_up: Vec<Vec<u8>>,
    cap_down: Vec<Vec<u8>>,
    dropped_up: Vec<Vec<u8>>,
    hist: Hist,
    fp: Fnv,
    run_seed: u64,
    scen: &'static str,
    stop: bool,
    live_checks: u64,
    replies: u64,
    /// the applications stream: the server hands a payload to the client's session every tick from the moment it
    /// reports the client connected (a game server broadcasting state), the client does the same once connected
    stream: bool,
}

fn ms(v: u64) -> Duration {
    Duration::from_millis(v)
}

impl Pair {
    #[allow(clippy::too_many_arguments)]
    fn new(r: &mut Rng, run_seed: u64, scen: &'static str, maxc: usize, tau: i32, silent_first: usize, expire_s: u64, dt_max: Duration) -> Result<Pair, String> {
        let protocol = r.next_u64();
        let key = rkey(r);
        let saddr = addr4(0, 0, 5000);
        let now = ms(5_000_000 + r.below(1000));
        let srv = Srv::new(now, maxc, protocol, vec![saddr], key, true);
        let mut hosts: Vec<SocketAddr> = (0..silent_first).map(|i| addr4(0, 10 + i as u8, 5000)).collect();
        hosts.push(saddr);
        let id = 7000 + r.below(1000);
        let m = mint(r, now.as_secs(), protocol, expire_s, id, tau, &hosts, None, &key);
        let caddr = addr4(5, 0, 4000);
        // the client's clock is its own: it need not share an origin with the clock the token was stamped on (a backend's
        // unix time against a game client counting from its start). Only durations matter to it
        let client_clock = match r.below(4) {
            0 | 1 => now,
            2 => Duration::from_millis(r.below(5000)),
            _ => now + Duration::from_secs(3600 + r.below(1_000_000)),
        };
        let cli = Cli::new(client_clock, m, caddr)?;
        Ok(Pair {
            srv,
            cli,
            id,
            caddr,
            saddr,
            cnow: now,
            tau,
            dt_max,
            net: Vec::new(),
            pol: Policy::default(),
            s_conn: false,
            c_conn: false,
            ts_strict: now,
            ts_lenient: now,
            tc_strict: now,
            tc_lenient: now,
            seen_s: HashSet::new(),
            seen_c: HashSet::new(),
            inj_s: None,
            inj_c: None,
            s_disc_at: None,
            c_disc_at: None,
            last_del_up: now,
            last_del_down: now,
            cap_up: Vec::new(),
            cap_down: Vec::new(),
            dropped_up: Vec::new(),
            hist: Hist::default(),
            fp: Fnv::new(),
            run_seed,
            scen,
            stop: false,
            live_checks: 0,
            replies: 0,
            stream: false,
        })
    }

    fn bound(&self) -> Duration {
        4 * (ms(250) + 2 * self.dt_max) + ms(1000)
    }

    fn violation(&mut self, ctx: &Ctx, out: &mut Outcome, sig: String, clause: &str, detail: String) {
        out.violation(
            ctx,
            &sig,
            clause,
            detail,
            json!({
                "property": "C18", "engine": ctx.engine, "run_seed": format!("{:#x}", self.run_seed), "scenario": self.scen,
                "timeout_seconds": self.tau, "dt_max_ms": self.dt_max.as_millis() as u64,
                "server_time": self.srv.now.as_secs_f64(), "client_time": self.cnow.as_secs_f64(),
                "history": self.hist.json(),
            }),
        );
        self.stop = true;
    }

    /// The network takes a datagram produced by a real endpoint.
    fn send(&mut self, r: &mut Rng, out: &mut Outcome, to_server: bool, dst: SocketAddr, bytes: Vec<u8>) {
        let ty = prefix_type(bytes[0]) as usize;
        if to_server {
            if self.cap_up.len() < 200 {
                self.cap_up.push(bytes.clone());
            }
            if dst != self.saddr {
                out.count("sent_to_silent_address");
                return;
            }
        } else if self.cap_down.len() < 200 {
            self.cap_down.push(bytes.clone());
        }
        let now = if to_server { self.cnow } else { self.srv.now };
        let (block, loss, last) = if to_server { (self.pol.block_up, self.pol.loss_up, self.last_del_up) } else { (self.pol.block_down, self.pol.loss_down, self.last_del_down) };
        let mut drop = block;
        if !drop && ty < 7 && self.pol.lose_first[ty] > 0 {
            self.pol.lose_first[ty] -= 1;
            drop = true;
            out.count(match ty {
                0 => "lost_first.request",
                2 => "lost_first.challenge",
                3 => "lost_first.response",
                4 => "lost_first.keepalive",
                _ => "lost_first.other",
            });
        }
        if !drop && r.below(100) < loss {
            drop = true;
            if let Some(g) = self.pol.guarantee {
                if now.saturating_sub(last) >= g {
                    drop = false;
                }
            }
        }
        if drop {
            out.count("net.dropped");
            if to_server && self.dropped_up.len() < 50 {
                self.dropped_up.push(bytes);
            }
            return;
        }
        let copies = if r.below(100) < self.pol.dup { r.range(2, 3) } else { 1 };
        for c in 0..copies {
            let delay = if self.pol.max_delay_ms > 0 && (c > 0 || r.chance(1, 2)) { r.below(self.pol.max_delay_ms + 1) } else { 0 };
            if c > 0 {
                out.count("net.duplicated");
            }
            self.net.push(Dg { at: now + ms(delay), to_server, bytes: bytes.clone(), genuine: true, inj: "" });
        }
        if to_server {
            self.last_del_up = now;
        } else {
            self.last_del_down = now;
        }
    }

    fn inject(&mut self, out: &mut Outcome, to_server: bool, bytes: Vec<u8>, kind: &'static str) {
        out.count(&format!("injected.{kind}"));
        let at = if to_server { self.srv.now } else { self.cnow };
        self.net.push(Dg { at, to_server, bytes, genuine: false, inj: kind });
    }

    fn deliver_to_server(&mut self, ctx: &Ctx, out: &mut Outcome, d: &Dg) {
        let now = self.srv.now;
        let h = fnv1a(&d.bytes);
        let ty = prefix_type(d.bytes[0]);
        let first = d.genuine && self.seen_s.insert(h);
        if !first && self.s_conn {
            self.inj_s = Some(if d.genuine { dup_kind(ty) } else { d.inj });
        }
        let res = match guarded("NetcodeServer::process_packet", &d.bytes, || self.srv.process(self.caddr, &d.bytes)) {
            Ok(x) => x,
            Err(c) => {
                report_panic(ctx, out, "C18", "NetcodeServer::process_packet", &d.bytes, &c, self.run_seed, self.scen, &self.hist);
                self.stop = true;
                return;
            }
        };
        self.fp.u64(1 + ty as u64 * 4 + first as u64 * 2);
        self.fp.bytes(res.kind().as_bytes());
        self.hist.push(format!("t={:.3} ->server type {} {} : {}", now.as_secs_f64(), ty, if d.genuine { if first { "genuine" } else { "duplicate" } } else { d.inj }, res.kind()));
        match &res {
            SResult::Connected { client_id, .. } if *client_id == self.id => {
                self.s_conn = true;
                self.ts_strict = now;
                self.ts_lenient = now;
                self.inj_s = None;
            }
            SResult::Disconnected { client_id, .. } if *client_id == self.id => {
                // a genuine disconnect packet; not used by the scenarios, handled for completeness
                self.s_conn = false;
                self.s_disc_at.get_or_insert(now);
            }
            _ => {}
        }
        if first && self.s_conn {
            self.ts_lenient = now;
            if ty == 4 || ty == 5 {
                self.ts_strict = now;
                self.inj_s = None;
            }
        }
        if let Some((dst, bytes)) = res.outgoing() {
            if dst == self.caddr {
                let b = bytes.clone();
                self.reply_from_server(out, b);
            }
        }
    }

    fn reply_from_server(&mut self, out: &mut Outcome, bytes: Vec<u8>) {
        // fate stream of replies: independent of the reply bytes (challenges contain OS randomness)
        self.replies += 1;
        let mut r = Rng::new(crate::rng::mix(&[self.run_seed, 0x5EB1, self.replies]));
        self.send(&mut r, out, false, self.caddr, bytes);
    }

    fn deliver_to_client(&mut self, ctx: &Ctx, out: &mut Outcome, d: &Dg) {
        let now = self.cnow;
        let h = fnv1a(&d.bytes);
        let ty = prefix_type(d.bytes[0]);
        let first = d.genuine && self.seen_c.insert(h);
        if !first && self.c_conn {
            self.inj_c = Some(if d.genuine { dup_kind(ty) } else { d.inj });
        }
        let was = self.cli.c.is_connected();
        if let Err(c) = guarded("NetcodeClient::process_packet", &d.bytes, || self.cli.process(&d.bytes)) {
            report_panic(ctx, out, "C18", "NetcodeClient::process_packet", &d.bytes, &c, self.run_seed, self.scen, &self.hist);
            self.stop = true;
            return;
        }
        let is = self.cli.c.is_connected();
        self.fp.u64(2 + ty as u64 * 4 + first as u64 * 2);
        self.fp.u64(is as u64);
        self.hist.push(format!("t={:.3} ->client type {} {} : connected={}", now.as_secs_f64(), ty, if d.genuine { if first { "genuine" } else { "duplicate" } } else { d.inj }, is));
        if !was && is {
            self.c_conn = true;
            self.tc_strict = now;
            self.tc_lenient = now;
            self.inj_c = None;
        }
        if was && !is {
            // disconnect packet from the server
            self.c_conn = false;
            self.c_disc_at.get_or_insert(now);
        }
        if first && self.c_conn && is {
            self.tc_lenient = now;
            if ty == 4 || ty == 5 {
                self.tc_strict = now;
                self.inj_c = None;
            }
        }
    }

    /// One tick of virtual time: server update, arrivals, client update, per-client server update.
    fn tick(&mut self, ctx: &Ctx, out: &mut Outcome, r: &mut Rng, dt: Duration) {
        if self.stop {
            return;
        }
        self.srv.update(dt);
        let snow = self.srv.now;
        // arrivals (stable order of sending; delayed copies overtake nothing they were sent before unless delayed)
        let mut due: Vec<Dg> = Vec::new();
        let mut rest: Vec<Dg> = Vec::new();
        for d in self.net.drain(..) {
            let t = if d.to_server { snow } else { self.cnow };
            if d.at <= t {
                due.push(d);
            } else {
                rest.push(d);
            }
        }
        self.net = rest;
        if self.pol.max_delay_ms > 0 {
            r.shuffle(&mut due);
        }
        for d in due.iter() {
            if self.stop {
                return;
            }
            if d.to_server {
                self.deliver_to_server(ctx, out, d);
            } else {
                self.deliver_to_client(ctx, out, d);
            }
        }
        // client update
        let was = self.cli.c.is_connected();
        self.cnow += dt;
        let sent = self.cli.update(dt);
        let is = self.cli.c.is_connected();
        if self.c_conn && was {
            let silent = self.tau > 0 && self.cnow.saturating_sub(self.tc_lenient) > Duration::from_secs(self.tau as u64);
            if silent && is {
                let (sig, d) = match self.inj_c {
                    Some(k) => (format!("C18/timeout-postponed/client/{k}"), format!("client still connected {:.3} s after the last authentic packet (timeout {} s); datagrams of kind {} were presented in between", (self.cnow - self.tc_lenient).as_secs_f64(), self.tau, k)),
                    None => ("C18/timeout-missed/client".to_string(), format!("client still connected {:.3} s after the last authentic packet (timeout {} s)", (self.cnow - self.tc_lenient).as_secs_f64(), self.tau)),
                };
                return self.violation(ctx, out, sig, "a connected peer from which no authentic packet arrived for more than the timeout is disconnected at the next update; forged or replayed packets do not postpone it", d);
            }
            if !is {
                self.c_conn = false;
                self.c_disc_at.get_or_insert(self.cnow);
                self.hist.push(format!("t={:.3} client disconnected: {:?}", self.cnow.as_secs_f64(), self.cli.c.disconnect_reason()));
                let timed_out = self.cli.c.disconnect_reason() == Some(DisconnectReason::ConnectionTimedOut);
                if timed_out && (self.tau <= 0 || self.cnow.saturating_sub(self.tc_strict) <= Duration::from_secs(self.tau as u64)) {
                    let d = format!("client timed out {:.3} s after an authentic keep-alive / payload arrived (timeout {} s)", (self.cnow - self.tc_strict).as_secs_f64(), self.tau);
                    return self.violation(ctx, out, "C18/spurious-timeout/client".into(), "a peer from which authentic packets keep arriving within every timeout period is never timed out", d);
                }
                if timed_out {
                    out.count("timeout.client_fired_on_time");
                }
            } else {
                self.live_checks += 1;
            }
        }
        if let Some((b, to)) = sent {
            self.send(r, out, true, to, b);
        }
        // server per-client update
        let ids = self.srv.s.clients_id();
        for cid in ids {
            let res = self.srv.update_client(cid);
            if cid != self.id {
                continue;
            }
            let gone = matches!(res, SResult::Disconnected { .. });
            if self.s_conn {
                let silent = self.tau > 0 && snow.saturating_sub(self.ts_lenient) > Duration::from_secs(self.tau as u64);
                if silent && !gone {
                    let (sig, d) = match self.inj_s {
                        Some(k) => (format!("C18/timeout-postponed/server/{k}"), format!("server keeps client {} connected {:.3} s after its last authentic packet (timeout {} s); datagrams of kind {} were presented in between", self.id, (snow - self.ts_lenient).as_secs_f64(), self.tau, k)),
                        None => ("C18/timeout-missed/server".to_string(), format!("server keeps client {} connected {:.3} s after its last authentic packet (timeout {} s)", self.id, (snow - self.ts_lenient).as_secs_f64(), self.tau)),
                    };
                    return self.violation(ctx, out, sig, "a connected peer from which no authentic packet arrived for more than the timeout is disconnected at the next update; forged or replayed packets do not postpone it", d);
                }
                if gone {
                    self.s_conn = false;
                    self.s_disc_at.get_or_insert(snow);
                    self.hist.push(format!("t={:.3} server disconnected client {}", snow.as_secs_f64(), self.id));
                    if self.tau <= 0 || snow.saturating_sub(self.ts_strict) <= Duration::from_secs(self.tau as u64) {
                        let d = format!("server timed client {} out {:.3} s after an authentic keep-alive / payload arrived (timeout {} s)", self.id, (snow - self.ts_strict).as_secs_f64(), self.tau);
                        return self.violation(ctx, out, "C18/spurious-timeout/server".into(), "a peer from which authentic packets keep arriving within every timeout period is never timed out", d);
                    }
                    out.count("timeout.server_fired_on_time");
                } else {
                    self.live_checks += 1;
                }
            }
            if let Some((dst, bytes)) = res.outgoing() {
                if dst == self.caddr {
                    let b = bytes.clone();
                    self.send(r, out, false, self.caddr, b);
                }
            }
        }
        if self.stream && !self.stop {
            if self.srv.s.is_client_connected(self.id) {
                if let Ok((_, b)) = self.srv.payload_for(self.id, b"state of the world") {
                    out.count("stream.server_payloads");
                    if !self.cli.c.is_connected() {
                        out.count("stream.server_payloads_before_client_connected");
                    }
                    self.send(r, out, false, self.caddr, b);
                }
            }
            if self.cli.c.is_connected() {
                if let Ok((to, b)) = self.cli.payload(b"input") {
                    self.send(r, out, true, to, b);
                }
            }
        }
        if self.s_conn && !self.srv.s.is_client_connected(self.id) {
            // no ClientDisconnected was reported, yet the server no longer knows the client
            let d = format!(
                "client {} vanished from the server's table without a disconnect result, {:.3} s after its last authentic keep-alive / payload (timeout {} s)",
                self.id,
                (snow.saturating_sub(self.ts_strict)).as_secs_f64(),
                self.tau
            );
            return self.violation(ctx, out, "C18/session-vanished/server".into(), "a peer from which authentic packets keep arriving within every timeout period is never timed out", d);
        }
        self.fp.u64(self.s_conn as u64 * 2 + self.c_conn as u64);
    }

    fn both_connected(&self) -> bool {
        self.cli.c.is_connected() && self.srv.s.is_client_connected(self.id)
    }
}

fn dup_kind(ty: u8) -> &'static str {
    match ty {
        0 => "replayed-request",
        2 => "replayed-challenge",
        3 => "replayed-response",
        4 => "replayed-keepalive",
        5 => "replayed-payload",
        _ => "replayed-other",
    }
}

fn pick_dt(r: &mut Rng) -> (Option<Duration>, Duration) {
    // (fixed tick or None = irregular, dt_max)
    match r.below(5) {
        0 => (Some(ms(10)), ms(10)),
        1 => (Some(ms(100)), ms(100)),
        2 => (Some(ms(250)), ms(250)),
        3 => (Some(ms(400)), ms(400)),
        _ => (None, ms(400)),
    }
}

fn next_dt(r: &mut Rng, fixed: Option<Duration>) -> Duration {
    fixed.unwrap_or_else(|| ms(r.range(5, 400)))
}

/// Connects `n` extra clients by hand (timeout disabled) so that the table is partly filled.
fn fill(p: &mut Pair, r: &mut Rng, n: usize) -> usize {
    let mut ok = 0;
    for i in 0..n {
        let id = 100 + i as u64;
        let m = mint(r, p.srv.now.as_secs(), p.srv.protocol_id, 600, id, -1, &[p.saddr], None, &p.srv.key.clone());
        let x = addr4(6, i as u8, 4100 + i as u16);
        let res = p.srv.process(x, &request_bytes(&m.token));
        if let Some(b) = res.outgoing().and_then(|(_, rep)| challenge_of(rep, p.srv.protocol_id, &m.private.server_to_client_key)) {
            let d = response_bytes(p.srv.protocol_id, 1, &m.private.client_to_server_key, &b);
            if matches!(p.srv.process(x, &d), SResult::Connected { .. }) {
                ok += 1;
            }
        }
    }
    ok
}

// ------------------------------------------------------------------------------------------

pub fn one_run(ctx: &Ctx, out: &mut Outcome, run_seed: u64) {
    let mut r = Rng::new(run_seed);
    match r.below(16) {
        0..=5 => scen_handshake(ctx, out, &mut r, run_seed),
        6 | 7 => scen_failover(ctx, out, &mut r, run_seed),
        8..=11 => scen_timeout_twins(ctx, out, run_seed),
        12 | 13 => scen_live(ctx, out, &mut r, run_seed),
        14 => {
            if r.chance(1, 3) {
                scen_restart_same_token(ctx, out, &mut r, run_seed)
            } else {
                scen_restart(ctx, out, &mut r, run_seed)
            }
        }
        _ => scen_pending(ctx, out, &mut r, run_seed),
    }
}

fn finish(out: &mut Outcome, p: &Pair, nontrivial: bool, extra: serde_json::Value) {
    out.add("timeout.not_fired_while_live_checks", p.live_checks);
    out.eval(p.fp.finish() ^ fnv1a(p.scen.as_bytes()), nontrivial);
    if nontrivial && out.samples.len() < out.max_samples {
        out.sample(json!({
            "run_seed": format!("{:#x}", p.run_seed), "scenario": p.scen, "timeout_seconds": p.tau, "dt_max_ms": p.dt_max.as_millis() as u64,
            "details": extra, "first_events": p.hist.head.iter().take(10).collect::<Vec<_>>(),
        }));
    }
}

/// After faults stopped: is the obligation "connected within B" applicable, and was it met?
fn check_bounded_connect(ctx: &Ctx, out: &mut Outcome, r: &mut Rng, p: &mut Pair, fixed: Option<Duration>, variant: &'static str, extra: Duration, expire_at_s: u64, client_expire_window: Duration, connect_start: Duration) -> bool {
    if p.stop {
        return false;
    }
    let b = p.bound() + extra;
    // preconditions of the bounded obligation
    if p.both_connected() {
        out.count(&format!("handshake.already_connected.{variant}"));
        out.count(&format!("handshake.checked.{variant}"));
        return true;
    }
    if !p.cli.c.is_connecting() {
        out.count("handshake.skipped.client_gave_up_during_faults");
        return false;
    }
    let server_has = p.srv.s.is_client_connected(p.id);
    if !server_has && p.srv.s.connected_clients() >= p.srv.s.max_clients() {
        out.count("handshake.skipped.server_full");
        return false;
    }
    if (p.srv.now + b).as_secs() >= expire_at_s || (p.cnow + b).saturating_sub(connect_start) >= client_expire_window {
        out.count("handshake.skipped.expiry_inside_bound");
        return false;
    }
    if p.tau > 0 && extra.is_zero() {
        let remaining = Duration::from_secs(p.tau as u64).saturating_sub(p.cli.c.time_since_last_received_packet());
        let s_remaining = if server_has { Duration::from_secs(p.tau as u64).saturating_sub(p.srv.s.time_since_last_received_packet(p.id).unwrap_or_default()) } else { b + b };
        if remaining <= b || s_remaining <= b {
            out.count("handshake.skipped.timeout_inside_bound");
            return false;
        }
    }
    let deadline = p.cnow + b;
    while p.cnow < deadline && !p.stop {
        let dt = next_dt(r, fixed);
        p.tick(ctx, out, r, dt);
        if p.both_connected() {
            out.count(&format!("handshake.checked.{variant}"));
            out.max(&format!("{}.dtmax{}", if extra.is_zero() { "connect_ms_after_faults" } else { "connect_ms_failover" }, p.dt_max.as_millis()), (p.cnow + b - deadline).as_millis() as u64);
            return true;
        }
    }
    if p.stop {
        return false;
    }
    out.count(&format!("handshake.checked.{variant}"));
    let denied = p.cli.c.disconnect_reason() == Some(DisconnectReason::ConnectionDenied);
    let below = p.srv.s.connected_clients() < p.srv.s.max_clients();
    let detail = format!(
        "{} ms after the network delivers again: client state connected={} connecting={} reason={:?}; server has client={}, connected_clients={} max_clients={}",
        b.as_millis(),
        p.cli.c.is_connected(),
        p.cli.c.is_connecting(),
        p.cli.c.disconnect_reason(),
        p.srv.s.is_client_connected(p.id),
        p.srv.s.connected_clients(),
        p.srv.s.max_clients()
    );
    if denied && below {
        p.violation(ctx, out, format!("C18/handshake-denied-below-limit/{variant}"), "an honest client with a valid token becomes connected whenever fewer clients are connected than the server's current client limit", detail);
    } else if denied {
        out.count("handshake.denied_at_full_server");
    } else {
        p.violation(ctx, out, format!("C18/handshake-bound-exceeded/{variant}"), "an honest client holding a valid token becomes connected on both sides within a bounded time once the network delivers", detail);
    }
    false
}

fn scen_handshake(ctx: &Ctx, out: &mut Outcome, r: &mut Rng, run_seed: u64) {
    let (fixed, dt_max) = pick_dt(r);
    let tau = *r.pick(&[1, 5, 5, 15, 15, -1, -1]);
    let variant: &'static str = match r.below(8) {
        0 => "plain",
        1 | 2 => "limit-raised",
        3 => "limit-lowered-then-raised",
        _ => "after-faults",
    };
    let others = r.urange(0, 3);
    let construct_max = match variant {
        "limit-raised" => others.max(1),
        "limit-lowered-then-raised" => others + r.urange(2, 3),
        _ => others + r.urange(1, 2),
    };
    let expire_s = 120;
    let mut p = match Pair::new(r, run_seed, "handshake", construct_max, tau, 0, expire_s, dt_max) {
        Ok(p) => p,
        Err(e) => return out.inconclusive(&format!("C18 setup: {e}")),
    };
    p.stream = r.chance(1, 2);
    let connect_start = p.cnow;
    let expire_at = p.cli.minted.expire;
    let filled = fill(&mut p, r, others);
    if filled != others.min(construct_max) {
        return out.inconclusive("C18 setup: could not pre-fill the server");
    }
    // some of the others are removed by the server application before the honest client starts (NetcodeServer::disconnect):
    // their slots are free again, whatever way they left
    if filled > 0 && r.chance(1, 2) {
        let k = r.urange(1, filled);
        for i in 0..k {
            let _ = p.srv.disconnect(100 + i as u64);
        }
        out.count("handshake.others_kicked_before_the_handshake");
        p.hist.push(format!("{} of the {} other clients were disconnected by the server application", k, filled));
    }
    p.hist.push(format!("variant {} others {} max_clients(construction) {} tau {} dt {:?} stream {}", variant, others, construct_max, tau, fixed, p.stream));
    match variant {
        "limit-raised" => {
            if others == 0 {
                // a table of one slot, filled by hand, then raised
                fill_one_more(&mut p, r);
            }
            let m = p.srv.s.connected_clients() + r.urange(1, 3);
            p.srv.s.set_max_clients(m);
            p.hist.push(format!("set_max_clients({})", m));
        }
        "limit-lowered-then-raised" => {
            // lowered to 'full': a hand-driven handshake is refused (nothing is owed); then raised again
            let low = p.srv.s.connected_clients();
            p.srv.s.set_max_clients(low);
            p.hist.push(format!("set_max_clients({}) (full)", low));
            let before = p.srv.s.connected_clients();
            fill_one_more(&mut p, r);
            if p.srv.s.connected_clients() == before {
                out.count("handshake.refused_while_lowered");
            }
            let m = p.srv.s.connected_clients() + r.urange(1, 2);
            p.srv.s.set_max_clients(m);
            p.hist.push(format!("set_max_clients({})", m));
        }
        _ => {}
    }
    // abandoned handshakes of other addresses (a request with a valid token, the challenge never answered): half-open
    // sessions are not connected clients - the honest client is owed a session whenever fewer clients are CONNECTED
    // than the limit, however many handshakes others left half-way
    if r.chance(1, 2) {
        let n = r.urange(1, 5);
        let mut challenged = 0;
        for i in 0..n {
            let m = mint(r, p.srv.now.as_secs(), p.srv.protocol_id, 600, 200 + i as u64, -1, &[p.saddr], None, &p.srv.key.clone());
            let x = addr4(7, i as u8, 4200 + i as u16);
            if p.srv.process(x, &request_bytes(&m.token)).outgoing().is_some() {
                challenged += 1;
            }
        }
        p.hist.push(format!("{} other addresses started a handshake and abandoned it ({} were challenged)", n, challenged));
        out.count("handshake.with_abandoned_half_open_sessions_of_others");
        out.max("handshake.abandoned_half_open_sessions", challenged);
    }
    // fault phase
    let faulty = variant == "after-faults" || r.chance(1, 3);
    if faulty {
        if r.chance(1, 2) {
            // scripted: lose the first n copies of one or more of the four handshake packets
            for ty in [0usize, 2, 3, 4] {
                if r.chance(1, 2) {
                    p.pol.lose_first[ty] = r.range(1, 4) as u32;
                }
            }
            if p.pol.lose_first.iter().all(|x| *x == 0) {
                p.pol.lose_first[*r.pick(&[0usize, 2, 3, 4])] = r.range(1, 4) as u32;
            }
        } else {
            p.pol.loss_up = *r.pick(&[0, 30, 60, 90]);
            p.pol.loss_down = *r.pick(&[0, 30, 60, 90]);
            p.pol.dup = *r.pick(&[0, 30, 80]);
            p.pol.max_delay_ms = *r.pick(&[0, 300, 1500]);
        }
        let fault_time = ms(r.range(100, 4000));
        let end = p.cnow + fault_time;
        while p.cnow < end && !p.stop {
            let dt = next_dt(r, fixed);
            p.tick(ctx, out, r, dt);
        }
        // faults stop: whatever is still in flight is lost, from now on everything is delivered next tick
        p.net.clear();
        p.pol = Policy::default();
        p.hist.push(format!("t={:.3} faults stop", p.cnow.as_secs_f64()));
    }
    let window = Duration::from_secs(expire_s);
    let ok = check_bounded_connect(ctx, out, r, &mut p, fixed, if faulty && variant == "plain" { "after-faults" } else { variant }, Duration::ZERO, expire_at, window, connect_start);
    finish(out, &p, ok, json!({"variant": variant, "others": others, "faulty": faulty}));
}

fn fill_one_more(p: &mut Pair, r: &mut Rng) {
    let m = mint(r, p.srv.now.as_secs(), p.srv.protocol_id, 600, 99, -1, &[p.saddr], None, &p.srv.key.clone());
    let x = addr4(6, 99, 4099);
    let res = p.srv.process(x, &request_bytes(&m.token));
    if let Some(b) = res.outgoing().and_then(|(_, rep)| challenge_of(rep, p.srv.protocol_id, &m.private.server_to_client_key)) {
        let d = response_bytes(p.srv.protocol_id, 1, &m.private.client_to_server_key, &b);
        p.srv.process(x, &d);
    }
}

fn scen_failover(ctx: &Ctx, out: &mut Outcome, r: &mut Rng, run_seed: u64) {
    let (fixed, dt_max) = pick_dt(r);
    let tau = *r.pick(&[1, 1, 5]);
    let silent = r.urange(1, 2);
    let mut p = match Pair::new(r, run_seed, "failover", 2, tau, silent, 120, dt_max) {
        Ok(p) => p,
        Err(e) => return out.inconclusive(&format!("C18 setup: {e}")),
    };
    p.stream = r.chance(1, 2);
    p.hist.push(format!("{} silent addresses listed before the real one, tau {} dt {:?} stream {}", silent, tau, fixed, p.stream));
    let expire_at = p.cli.minted.expire;
    let extra = (Duration::from_secs(tau as u64) + 2 * dt_max) * silent as u32;
    let start = p.cnow;
    let ok = check_bounded_connect(ctx, out, r, &mut p, fixed, "failover", extra, expire_at, Duration::from_secs(10_000), start);
    if ok {
        out.count("failover_connected");
    }
    finish(out, &p, ok, json!({"silent_addresses": silent}));
}

/// Outcome of a timeout history: when each side concluded.
#[derive(PartialEq, Debug, Clone, Copy)]
struct Ends {
    server: Option<Duration>,
    client: Option<Duration>,
}

const KINDS_UP: [&str; 6] = ["replayed-response", "replayed-request", "garbage-type0", "replayed-keepalive", "forged-keepalive", "wrong-key-keepalive"];
const KINDS_DOWN: [&str; 3] = ["replayed-keepalive", "replayed-challenge", "forged-keepalive"];

/// Runs connect / chatty / silent with the base stream `seed`; `inject` = Some((to_server, kind)).
fn timeout_history(ctx: &Ctx, out: &mut Outcome, seed: u64, inject: Option<(bool, &'static str)>) -> Option<(Pair, Ends)> {
    let mut r = Rng::new(seed);
    let mut ri = Rng::new(seed ^ 0x1A7EC7);
    let (fixed, dt_max) = pick_dt(&mut r);
    let tau = *r.pick(&[1, 1, 5, 5, 15]);
    let mut p = match Pair::new(&mut r, seed, if inject.is_some() { "timeout-with-injections" } else { "timeout" }, 2, tau, 0, 600, dt_max) {
        Ok(p) => p,
        Err(e) => {
            out.inconclusive(&format!("C18 setup: {e}"));
            return None;
        }
    };
    p.hist.push(format!("tau {} dt {:?} inject {:?}", tau, fixed, inject));
    // connect over a clean link
    let mut guard = 0;
    while !p.both_connected() && guard < 400 && !p.stop {
        guard += 1;
        let dt = next_dt(&mut r, fixed);
        p.tick(ctx, out, &mut r, dt);
    }
    if p.stop {
        return None;
    }
    if !p.both_connected() {
        out.inconclusive("C18 timeout scenario: clean handshake did not complete");
        return None;
    }
    // chatty phase with loss
    p.pol.loss_up = *r.pick(&[0, 20, 50]);
    p.pol.loss_down = *r.pick(&[0, 20, 50]);
    p.pol.dup = *r.pick(&[0, 20]);
    p.pol.max_delay_ms = *r.pick(&[0, 0, 200]);
    let chat_end = p.cnow + ms(r.range(200, 3000));
    while p.cnow < chat_end && !p.stop {
        let dt = next_dt(&mut r, fixed);
        p.tick(ctx, out, &mut r, dt);
    }
    // silence: the attacker blocks one or both directions
    let which = r.below(3);
    p.pol = Policy::default();
    p.pol.block_up = which != 1;
    p.pol.block_down = which != 0;
    p.net.clear();
    p.hist.push(format!("t={:.3} silence: block_up={} block_down={}", p.cnow.as_secs_f64(), p.pol.block_up, p.pol.block_down));
    let end = p.cnow + Duration::from_secs(tau as u64) * 3 + ms(2000);
    let inj_period = ms(ri.range(100, (tau as u64 * 1000 * 2 / 3).max(150)));
    let mut next_inj = p.cnow + ms(ri.range(0, 400));
    while p.cnow < end && !p.stop {
        if let Some((to_server, kind)) = inject {
            let still = if to_server { p.s_conn } else { p.c_conn };
            if p.cnow >= next_inj && still {
                next_inj = p.cnow + inj_period;
                let of_type = |v: &Vec<Vec<u8>>, ty: u8| v.iter().filter(|b| prefix_type(b[0]) == ty).cloned().collect::<Vec<_>>();
                let key_other = rkey(&mut ri);
                let bytes: Option<Vec<u8>> = match (to_server, kind) {
                    (true, "replayed-response") => of_type(&p.cap_up, 3).last().cloned(),
                    (true, "replayed-request") => of_type(&p.cap_up, 0).last().cloned(),
                    (true, "garbage-type0") => {
                        let mut g = ri.bytes(1078);
                        g[0] = 0;
                        Some(g)
                    }
                    (true, "replayed-keepalive") => {
                        let v: Vec<Vec<u8>> = of_type(&p.cap_up, 4).into_iter().filter(|b| p.seen_s.contains(&fnv1a(b))).collect();
                        if v.is_empty() { None } else { Some(ri.pick(&v).clone()) }
                    }
                    (true, "forged-keepalive") => {
                        // a genuine keep-alive the attacker intercepted (never delivered), one bit changed
                        let v: Vec<Vec<u8>> = p.dropped_up.iter().filter(|b| prefix_type(b[0]) == 4).cloned().collect();
                        v.last().cloned().or_else(|| of_type(&p.cap_up, 4).last().cloned()).map(|mut b| {
                            let bit = ri.usize_below(8 * b.len());
                            b[bit / 8] ^= 1 << (bit % 8);
                            b
                        })
                    }
                    (true, _) => Some(sealed(&OPacket::KeepAlive { client_index: 0, max_clients: 0 }, p.srv.protocol_id, 5000 + ri.below(1000), &key_other)),
                    (false, "replayed-keepalive") => {
                        let v: Vec<Vec<u8>> = of_type(&p.cap_down, 4).into_iter().filter(|b| p.seen_c.contains(&fnv1a(b))).collect();
                        if v.is_empty() { None } else { Some(ri.pick(&v).clone()) }
                    }
                    (false, "replayed-challenge") => of_type(&p.cap_down, 2).last().cloned(),
                    (false, _) => of_type(&p.cap_down, 4).last().cloned().map(|mut b| {
                        let bit = ri.usize_below(8 * b.len());
                        b[bit / 8] ^= 1 << (bit % 8);
                        b
                    }),
                };
                if let Some(b) = bytes {
                    p.inject(out, to_server, b, kind);
                }
            }
        }
        let dt = next_dt(&mut r, fixed);
        p.tick(ctx, out, &mut r, dt);
        if !p.s_conn && !p.c_conn {
            break;
        }
    }
    if p.stop {
        return None;
    }
    let ends = Ends { server: p.s_disc_at, client: p.c_disc_at };
    Some((p, ends))
}

fn scen_timeout_twins(ctx: &Ctx, out: &mut Outcome, run_seed: u64) {
    let mut rk = Rng::new(run_seed ^ 0x7717);
    let to_server = rk.chance(2, 3);
    let kind: &'static str = if to_server { *rk.pick(&KINDS_UP) } else { *rk.pick(&KINDS_DOWN) };
    let Some((base, e0)) = timeout_history(ctx, out, run_seed, None) else { return };
    let Some((mut twin, e1)) = timeout_history(ctx, out, run_seed, Some((to_server, kind))) else {
        finish(out, &base, true, json!({"ends": format!("{:?}", e0)}));
        return;
    };
    out.count("twin_runs_compared");
    if e0 != e1 {
        let side = if e0.server != e1.server { "server" } else { "client" };
        let d = format!("same history, disconnect times without injections {:?}, with injected {} datagrams {:?}", e0, kind, e1);
        twin.violation(ctx, out, format!("C18/timeout-postponed/{side}/{kind}"), "forged or replayed packets do not postpone a timeout", d);
    }
    finish(out, &base, true, json!({"ends": format!("{:?}", e0)}));
    finish(out, &twin, true, json!({"ends": format!("{:?}", e1), "injected": kind, "to_server": to_server}));
}

fn scen_live(ctx: &Ctx, out: &mut Outcome, r: &mut Rng, run_seed: u64) {
    let (fixed, dt_max) = pick_dt(r);
    let tau = *r.pick(&[1, 1, 5]);
    // a one second timeout cannot be kept alive with ticks that may exceed the guarantee period
    let (fixed, dt_max) = if tau == 1 && dt_max > ms(100) { (Some(ms(100)), ms(100)) } else { (fixed, dt_max) };
    // variant: the client limit is lowered and raised again while the session is live, with the honest
    // client sitting in a high slot (lower slots were occupied when it connected and are freed later)
    let limits = r.chance(1, 2);
    let others = if limits { r.urange(1, 4) } else { 0 };
    // half of the live sessions are established with a short-lived token and outlive it: the token's life time bounds
    // the handshake, an established session ends through disconnects and timeouts only
    let life = if r.chance(1, 2) { 600 } else { r.range(5, 9) };
    let mut p = match Pair::new(r, run_seed, "live", if limits { others + 1 } else { 2 }, tau, 0, life, dt_max) {
        Ok(p) => p,
        Err(e) => return out.inconclusive(&format!("C18 setup: {e}")),
    };
    if limits && fill(&mut p, r, others) != others {
        return out.inconclusive("C18 live scenario: could not pre-fill the server");
    }
    let mut guard = 0;
    while !p.both_connected() && guard < 400 && !p.stop {
        guard += 1;
        let dt = next_dt(r, fixed);
        p.tick(ctx, out, r, dt);
    }
    if p.stop {
        return;
    }
    if !p.both_connected() {
        return out.inconclusive("C18 live scenario: clean handshake did not complete");
    }
    p.pol.loss_up = *r.pick(&[50, 80, 95]);
    p.pol.loss_down = *r.pick(&[50, 80, 95]);
    p.pol.dup = *r.pick(&[0, 30]);
    p.pol.guarantee = Some(Duration::from_millis(tau as u64 * 1000 / 2).saturating_sub(ms(250) + dt_max).max(ms(50)));
    p.hist.push(format!("tau {} dt {:?} lossy but live: {:?}", tau, fixed, p.pol.guarantee));
    let end = p.cnow + Duration::from_secs(tau as u64) * 4 + ms(r.range(0, 3000));
    let end = if life < 600 { end.max(Duration::from_secs(p.cli.minted.expire + 2)) } else { end };
    // limit changes at seeded moments: free some lower slots, lower the limit, raise it again (never above
    // nor necessarily up to the construction value); none of this may end the live session
    let span = (end - p.cnow).as_millis() as u64;
    let t_free = p.cnow + ms(r.range(0, span / 4));
    let t_lower = p.cnow + ms(r.range(span / 4, span / 2));
    let t_raise = p.cnow + ms(r.range(span / 2, span * 3 / 4));
    let (mut freed, mut lowered, mut raised) = (!limits, !limits, !limits);
    while p.cnow < end && !p.stop {
        let dt = next_dt(r, fixed);
        if !freed && p.cnow >= t_free {
            freed = true;
            let k = r.urange(1, others);
            for i in 0..k {
                let _ = p.srv.disconnect(100 + i as u64);
            }
            p.hist.push(format!("t={:.3} disconnected {} of the {} other clients (lower slots free)", p.cnow.as_secs_f64(), k, others));
        }
        if !lowered && p.cnow >= t_lower {
            lowered = true;
            let low = r.urange(1, p.srv.s.connected_clients().max(1));
            p.srv.s.set_max_clients(low);
            p.hist.push(format!("t={:.3} set_max_clients({}) with {} connected", p.cnow.as_secs_f64(), low, p.srv.s.connected_clients()));
            out.count("live.limit_lowered");
        }
        if !raised && p.cnow >= t_raise {
            raised = true;
            let cur = p.srv.s.max_clients();
            let m = r.urange(cur + 1, (others + 1).max(cur + 1));
            p.srv.s.set_max_clients(m);
            p.hist.push(format!("t={:.3} set_max_clients({}) (raised from {})", p.cnow.as_secs_f64(), m, cur));
            out.count("live.limit_raised_again");
        }
        p.tick(ctx, out, r, dt);
        if !p.s_conn || !p.c_conn {
            break;
        }
    }
    if p.stop {
        return;
    }
    let ok = p.s_conn && p.c_conn;
    if ok && life < 600 && p.srv.now.as_secs() > p.cli.minted.expire {
        out.count("live_sessions_outlived_their_token");
    }
    if ok {
        out.count("live_sessions_survived");
    } else {
        // a disconnect here was judged by the deadline monitor (legit only if a full timeout of silence)
        out.count("live_session_ended_legitimately");
    }
    finish(out, &p, ok, json!({"loss_up": p.pol.loss_up, "loss_down": p.pol.loss_down}));
}

/// A client starts a handshake and is gone before it completes (crash, cancel, restart of the application); a new
/// client - fresh token, fresh keys, the same or another client id - starts from the SAME address while the server
/// still holds the half-open entry of the first one. It is an honest client with a valid token and the server has
/// room, so it must be connected on both sides within the bound.
fn scen_restart(ctx: &Ctx, out: &mut Outcome, r: &mut Rng, run_seed: u64) {
    let (fixed, dt_max) = pick_dt(r);
    let tau = *r.pick(&[5, 15, -1]);
    let expire_s = 120;
    let maxc = r.urange(1, 3);
    let mut p = match Pair::new(r, run_seed, "restart", maxc, tau, 0, expire_s, dt_max) {
        Ok(p) => p,
        Err(e) => return out.inconclusive(&format!("C18 setup: {e}")),
    };
    // the first client gets as far as its request (and perhaps its response) ...
    let steps = r.range(1, 3);
    let drop_challenges = r.chance(1, 2);
    if drop_challenges {
        p.pol.block_down = true;
    }
    for _ in 0..steps {
        let dt = next_dt(r, fixed);
        p.tick(ctx, out, r, dt);
    }
    let half_open = p.srv.snapshot().pending.iter().any(|x| x.0 == p.caddr);
    if !half_open || p.stop || p.srv.s.is_client_connected(p.id) {
        out.count("restart.void_no_half_open_entry");
        return finish(out, &p, false, json!({"steps": steps}));
    }
    // ... and is replaced by a fresh client at the same address
    let same_id = r.chance(1, 2);
    let new_id = if same_id { p.id } else { p.id + 1 };
    let key = p.srv.key;
    let m = mint(r, p.srv.now.as_secs(), p.srv.protocol_id, expire_s, new_id, tau, &[p.saddr], None, &key);
    let cli = match Cli::new(p.cnow, m, p.caddr) {
        Ok(c) => c,
        Err(e) => return out.inconclusive(&format!("C18 restart: client setup: {e}")),
    };
    p.hist.push(format!("t={:.3} the first client is gone (half-open entry left at the server); a new client with a fresh token (client id {}) starts at the same address", p.cnow.as_secs_f64(), if same_id { "unchanged" } else { "new" }));
    p.cli = cli;
    p.id = new_id;
    p.net.clear();
    p.pol = Policy::default();
    p.seen_c.clear();
    p.seen_s.clear();
    out.count("restart.fresh_token_same_address");
    let connect_start = p.cnow;
    let expire_at = p.cli.minted.expire;
    let ok = check_bounded_connect(ctx, out, r, &mut p, fixed, "restart", Duration::ZERO, expire_at, Duration::from_secs(expire_s), connect_start);
    finish(out, &p, ok, json!({"same_client_id": same_id, "first_client_steps": steps, "challenges_lost": drop_challenges}));
}

/// The client process dies silently in the middle of a short session and is started again, at the same address, with the
/// same (still valid) connect token, before the server has timed the dead session out. The new client keeps asking;
/// the server drops the dead session when its timeout is over (its Disconnect datagram reaches the new client, which is
/// still requesting: it is not that client's session) and the next request gets the client in. Connected on both
/// sides within timeout + 4 x 250 ms + a few ticks of the restart.
fn scen_restart_same_token(ctx: &Ctx, out: &mut Outcome, r: &mut Rng, run_seed: u64) {
    let protocol = r.next_u64();
    let key = rkey(r);
    let saddr = addr4(0, 0, 5000);
    let now = ms(5_000_000 + r.below(1000));
    let mut srv = Srv::new(now, r.urange(1, 3), protocol, vec![saddr], key, true);
    let tau = *r.pick(&[1i32, 2, 5]);
    let id = 7000 + r.below(1000);
    let m = mint(r, now.as_secs(), protocol, 120, id, tau, &[saddr], None, &key);
    let caddr = addr4(5, 0, 4000);
    let mut hist: Vec<String> = Vec::new();
    let mut a_cli = match Cli::new(now, m.clone(), caddr) {
        Ok(c) => c,
        Err(e) => return out.inconclusive(&format!("C18 restart: client setup: {e}")),
    };
    if let Err(e) = crate::nsim::handshake(&mut srv, &mut a_cli, ms(20), 100) {
        return out.inconclusive(&format!("C18 restart: first handshake: {e}"));
    }
    let dt = ms(*r.pick(&[50u64, 100]));
    // a short live session
    let live = r.range(2, 10);
    for _ in 0..live {
        srv.update(dt);
        if let Some((b, _)) = a_cli.update(dt) {
            let _ = srv.process(caddr, &b);
        }
        if let Some((_, b)) = srv.update_client(id).outgoing() {
            a_cli.process(b);
        }
    }
    if !srv.s.is_client_connected(id) {
        return out.inconclusive("C18 restart: the first session did not stay up");
    }
    hist.push(format!("tau {} s, tick {} ms: session of {} ticks, then the client process dies silently", tau, dt.as_millis(), live));
    drop(a_cli);
    // the dead time before the restart: between half and 0.8 of the timeout (the new client's own request timeout
    // must outlast the server's timeout of the dead session)
    let dead_ms = (tau as u64 * 1000) * r.range(50, 80) / 100;
    let mut waited = 0;
    let mut to_new_client: Vec<Vec<u8>> = Vec::new();
    while waited < dead_ms {
        srv.update(dt);
        waited += dt.as_millis() as u64;
        let _ = srv.update_client(id); // keep-alives to a dead process
    }
    let client_clock = if r.chance(1, 2) { srv.now } else { ms(r.below(5000)) };
    // variant (own random stream): the new process got another UDP port and a fresh token for the same client id (the
    // usual restart of a game client behind a matchmaker). While the dead session is still held the server stays silent
    // towards the newcomer; once it is timed out the next request is challenged and the client gets in
    let mut vr = Rng::new(run_seed ^ 0x4E57_ADD2);
    let new_addr = vr.chance(1, 2);
    let (m, caddr_b) = if new_addr {
        (mint(&mut vr, srv.now.as_secs(), protocol, 120, id, tau, &[saddr], None, &key), addr4(5, 0, 4001 + vr.below(20) as u16))
    } else {
        (m, caddr)
    };
    let mut b_cli = match Cli::new(client_clock, m, caddr_b) {
        Ok(c) => c,
        Err(e) => return out.inconclusive(&format!("C18 restart: client setup: {e}")),
    };
    let caddr = caddr_b;
    hist.push(format!(
        "restart {} ms later with {} (server still holds the dead session: {})",
        waited,
        if new_addr { "a fresh token for the same client id from another port" } else { "the same token at the same address" },
        srv.s.is_client_connected(id)
    ));
    let budget_ms = tau as u64 * 1000 + 4 * 250 + 10 * dt.as_millis() as u64;
    let mut t = 0u64;
    let mut freed_at: Option<u64> = None;
    let mut connected_at: Option<u64> = None;
    while t < budget_ms {
        t += dt.as_millis() as u64;
        srv.update(dt);
        for x in std::mem::take(&mut to_new_client) {
            b_cli.process(&x);
        }
        if let Some((b, to)) = b_cli.update(dt) {
            if to == saddr {
                if let Some((dst, rep)) = srv.process(caddr, &b).outgoing() {
                    if dst == caddr {
                        b_cli.process(rep);
                    }
                }
            }
        }
        match srv.update_client(id) {
            SResult::Send { addr, bytes } if addr == caddr => to_new_client.push(bytes),
            SResult::Disconnected { addr, bytes, .. } => {
                freed_at.get_or_insert(t);
                hist.push(format!("+{} ms: the server times the dead session out", t));
                if let (true, Some(b)) = (addr == caddr, bytes) {
                    to_new_client.push(b);
                }
            }
            _ => {}
        }
        if b_cli.c.is_connected() && srv.s.is_client_connected(id) && freed_at.is_some() {
            connected_at = Some(t);
            break;
        }
        if b_cli.c.is_disconnected() {
            break;
        }
    }
    out.count(if new_addr { "restart.fresh_token_same_id_new_address" } else { "restart.same_token_same_address" });
    out.eval(crate::rng::mix(&[0x5A3E, run_seed, tau as u64, live]), freed_at.is_some());
    hist.push(format!("+{} ms: client connected={} connecting={} reason={:?}; server has client={}", t, b_cli.c.is_connected(), b_cli.c.is_connecting(), b_cli.c.disconnect_reason(), srv.s.is_client_connected(id)));
    match connected_at {
        Some(t) => out.max("restart_same_token_connect_ms", t),
        None => {
            out.violation(
                ctx,
                if new_addr { "C18/handshake-bound-exceeded/restart-new-address" } else { "C18/handshake-bound-exceeded/restart-same-token" },
                "an honest client holding a valid token becomes connected on both sides within a bounded time whenever fewer clients are connected than the limit",
                format!("restarted client (see history) after {} ms: connected={} reason={:?}; the server freed the dead session at {:?} ms and has the client={}", t, b_cli.c.is_connected(), b_cli.c.disconnect_reason(), freed_at, srv.s.is_client_connected(id)),
                json!({"property": "C18", "engine": ctx.engine, "run_seed": format!("{:#x}", run_seed), "scenario": if new_addr { "restart-new-address" } else { "restart-same-token" }, "timeout_seconds": tau, "history": hist}),
            );
        }
    }
}

fn scen_pending(ctx: &Ctx, out: &mut Outcome, r: &mut Rng, run_seed: u64) {
    let (fixed, dt_max) = pick_dt(r);
    let life = r.range(1, 3);
    let mut p = match Pair::new(r, run_seed, "pending-expiry", 2, 5, 0, life, dt_max) {
        Ok(p) => p,
        Err(e) => return out.inconclusive(&format!("C18 setup: {e}")),
    };
    let expire = p.cli.minted.expire;
    let req = request_bytes(&p.cli.minted.token);
    let replay = r.chance(1, 2);
    p.hist.push(format!("token expires at second {} (server now {:.3}), replayed requests: {}", expire, p.srv.now.as_secs_f64(), replay));
    let res = p.srv.process(p.caddr, &req);
    let mut seen = p.srv.snapshot().pending.iter().any(|x| x.0 == p.caddr);
    if !seen || res.outgoing().is_none() {
        // the token may already be in its last second; nothing to observe then
        out.count("pending_not_created");
    }
    let mut checked = false;
    for _ in 0..2000 {
        let dt = next_dt(r, fixed);
        p.srv.update(dt);
        let present = p.srv.snapshot().pending.iter().any(|x| x.0 == p.caddr);
        let fl = p.srv.now.as_secs();
        p.hist.push(format!("t={:.3} update: pending present={}", p.srv.now.as_secs_f64(), present));
        if present {
            seen = true;
            if fl + 1 == expire {
                out.count("pending_present_in_last_valid_second");
            }
        }
        // the token is expired from second `expire` on (a request presented then is refused as expired)
        if fl >= expire {
            if seen {
                checked = true;
                if present {
                    let d = format!("half-open entry of {} (token expire {}) still present after update at server time {:.3}", a(p.caddr), expire, p.srv.now.as_secs_f64());
                    p.violation(ctx, out, "C18/half-open-survives-expiry".into(), "half-open sessions vanish when their token expires", d);
                } else {
                    out.count("pending_vanished_after_expiry");
                }
            }
            if fl > expire {
                break;
            }
        }
        if replay && r.chance(1, 3) && !p.stop {
            let _ = p.srv.process(p.caddr, &req);
            out.count("pending_request_replayed");
        }
        if p.stop {
            break;
        }
    }
    finish(out, &p, checked, json!({"token_life_s": life, "replayed_requests": replay}));
}
