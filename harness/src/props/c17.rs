//! C17 AEAD discipline: sealed data is tamper-evident, no nonce reused under a key.
//!
//! Signature classes:
//!   C17/tamper-accepted/<kind>/<bitflip|truncation>/<observable>   a modified genuine datagram of <kind> was opened by the codec (observable `opened-by-codec`), changed
//!                                                                  <observable> / produced a result in the state where
//!                                                                  the genuine one is accepted
//!   C17/opens-under-other/<kind>/<key|protocol>                   a sealed datagram opened under another key / protocol id
//!   C17/token-tamper-accepted/<field>                             a token with one flipped bit in its sealed part /
//!                                                                  protocol id / expiry produced a decoded token or a reply
//!   C17/nonce-reuse/<server|client>/<a>-vs-<b>                    two different datagrams under one (key, sequence);
//!                                                                  a, b in {handshake (challenge or denied: the server's
//!                                                                  replies before the session counter starts), response,
//!                                                                  session (keep-alive, payload, disconnect)}
//!   C17/nonce-reuse/server/challenge-token                        two different challenge blobs with one token_sequence

use super::netcode_util::*;
use crate::nsim::{self, Cli, Minted, OPacket, SResult, Srv};
use crate::outcome::{Ctx, Outcome, PropInfo};
use crate::rng::{fnv1a, mix, Rng};
use crate::watchdog;
use renetcode::{ClientAuthentication, ConnectToken, NetcodeClient};
use serde_json::{json, Value};
use std::collections::HashMap;
use std::net::SocketAddr;
use std::time::Duration;

pub static INFO: PropInfo = PropInfo {
    id: "C17",
    level: "fault_enumeration",
    rule: "two kinds of executions. (a) TAMPER (enumerated; exhaustive=true refers to this: for every sample datagram ALL single-bit positions and ALL truncation lengths 0..len-1 are presented): per run one genuine sample of every datagram kind (request, challenge, response, keep-alive both directions, payload both directions with a seeded length 0..1300, denied, disconnect both directions) is captured from a live handshake/session and every modification is presented to the endpoint in exactly the state in which the genuine datagram is accepted (proved afterwards by presenting the genuine one and seeing its effect); each must produce no result and leave the observable snapshot identical (server: client ids, addresses, user data, time since last packet, half-open set; client: state, reason, time since last packet); for the unsealed request the prefix byte's unused high nibble is excluded. Every sealed sample must also fail to open under another key and under another protocol id (crate codec) and a request must be ignored by servers with another private key / protocol id. Token: every single-bit flip of the 1024 sealed bytes, the protocol id and the expiry of a serialized ConnectToken goes through ConnectToken::read -> NetcodeClient::new -> update -> server.process_packet and through the private-token decoder and must yield neither a decoded token nor a reply nor a half-open entry. (b) NONCE TABLE: honest multi-client histories against one server (1-3 slots, 3-7 clients, seeded loss and duplication so that requests are retried and re-challenged, denials on a full server, keep-alives, payloads both ways, disconnects by either side, reconnects with fresh tokens, fail-over to a second server address, tokens listing two addresses of the same server so that a client denied or unanswered at the first is admitted at the second with the same token - the server side of a token stops being recorded once the server opens a second session for it): every datagram returned by any NetcodeServer / NetcodeClient call is attributed to a key by opening it with the token keys the harness minted, and entered as (key, sequence from the prefix) -> bytes; two different byte strings under one (key, sequence) refute the property, as do two different challenge blobs with one token_sequence; every recorded datagram is also opened with an independent ChaCha20-Poly1305 (netcode 1.02 framing: nonce = 4 zero bytes || LE sequence) to establish the nonce it was REALLY sealed with (normally that of its announced sequence, otherwise searched among truncations of it and the other sequences of that key) and entered in a second ledger keyed by (key bytes, real nonce) - both directions and all sessions share it, so equal keys in two roles are a reuse; a third of the parties hold a token of the library's own generator; a party may give up while it is still requesting or responding (NetcodeClient::disconnect during the handshake seals a Disconnect under the key of the responses already sent). In (a) the server's challenge token is treated as sealed data of its own: echoed in a response that is correctly sealed under the session key, with one of its 2400 bits flipped (all bits of its first 8 and last 40 bytes, 120 sampled others) or under a neighbouring token sequence, it must not be accepted. One evaluation = one presented modification (a) or one recorded datagram (b); non-trivial = oracle evaluated on it; distinct = (sample hash, modification) resp. (history seed, datagram hash). One execution in 24 is a LONG SESSION: one honest pair over a perfect link exchanging 270-3000 (one in eight: 66 000) sealed datagrams per direction, payloads of 0-40 bytes interleaved with the endpoints' own keep-alives, every one entered in both ledgers - the counters cross 2^8 and 2^16.",
    assumptions: &[
        "ChaCha20-Poly1305 / XChaCha20-Poly1305 themselves are not under test; the nonce is assumed to be the sequence number announced in the prefix (that it really is bound is what the bit flips of the sequence bytes test)",
        "one connect token = one connection attempt and the session that follows; reconnects use fresh tokens (reuse of a token for a second session is outside the statement)",
        "sealed datagrams of 17 bytes (sequence 0, empty body) cannot be opened by the crate's decoder (defect F15 of C16); they are counted and skipped",
    ],
    gates: &[
        ("tamper.request", 8000),
        ("tamper.challenge", 2000),
        ("tamper.response", 2000),
        ("tamper.keepalive-down", 100),
        ("tamper.keepalive-up", 100),
        ("tamper.payload-down", 500),
        ("tamper.payload-up", 500),
        ("tamper.denied", 100),
        ("tamper.disconnect-up", 100),
        ("tamper.disconnect-down", 100),
        ("tamper.genuine_accepted_after", 40),
        ("tamper.other_key_or_protocol_checks", 40),
        ("token.bitflips", 8000),
        ("token.genuine_accepted_after", 4),
        ("nonce.entries", 5000),
        ("nonce.keys", 100),
        ("hist.request_retries", 20),
        ("hist.rechallenges", 20),
        ("hist.denied", 10),
        ("nonce.reference_open_ok", 1000),
        ("hist.admitted_after_denial_same_token", 5),
        ("hist.keepalive_srv", 200),
        ("hist.keepalive_cli", 200),
        ("hist.payload_srv", 200),
        ("long.sessions_crossing_2^8_both_directions", 4),
        ("hist.payload_cli", 200),
        ("hist.disconnect_srv", 10),
        ("hist.disconnect_cli", 10),
        ("hist.reconnects", 10),
        ("hist.failover", 3),
        ("hist.failover_after_response_step", 5),
        ("hist.failover_connected_at_second_server", 5),
        ("hist.connected_sessions", 100),
        ("hist.challenge_blobs", 100),
    ],
    engines_quick: &["e1"],
    engines_thorough: &["e1"],
    run,
};

pub fn run(ctx: &Ctx, out: &mut Outcome) {
    super::run_loop(ctx, out, 1200, 6_000, 17, one_run);
}

pub fn one_run(ctx: &Ctx, out: &mut Outcome, run_seed: u64) {
    let mut r = Rng::new(run_seed);
    // (b'') a long session now and then (own random stream): the counters cross 2^8 and, more rarely, 2^16
    if mix(&[0x10A6, run_seed]) % 24 == 0 {
        let mut lr = Rng::new(run_seed ^ 0x10A6_5E55);
        return long_session_run(ctx, out, run_seed, &mut lr);
    }
    // one tamper execution for every 5 histories (a tamper execution is ~25k presentations)
    match r.below(10) {
        0 | 1 => tamper_run(ctx, out, run_seed, &mut r),
        2 => failover_run(ctx, out, run_seed, &mut r),
        _ => history_run(ctx, out, run_seed, &mut r),
    }
}

/// (b'') One honest client and one server over a perfect link, a session of hundreds to 2^16+ sealed datagrams per
/// direction (payloads of 0..40 bytes interleaved with the keep-alives the endpoints send themselves), so that each
/// endpoint's counter crosses the points where the sequence number needs another byte on the wire (2^8, 2^16).
/// Every datagram goes into the nonce ledgers as in the multi-client histories.
fn long_session_run(ctx: &Ctx, out: &mut Outcome, run_seed: u64, r: &mut Rng) {
    let mut srv = new_srv(r, 2, 1, false);
    let protocol = srv.protocol_id;
    let id = 7000 + r.below(1000);
    let addr_n = 900 + r.below(50);
    let addr = client_addr(r, addr_n);
    let addrs = vec![srv.addrs[0]];
    let lib = if r.chance(1, 3) { nsim::mint_lib(srv.now.as_secs(), protocol, 600, id, 15, &addrs, None, &srv.key) } else { None };
    let m = lib.unwrap_or_else(|| nsim::mint(r, srv.now.as_secs(), protocol, 600, id, 15, &addrs, None, &srv.key));
    let ck = m.token.client_to_server_key;
    let sk = m.token.server_to_client_key;
    let mut cli = match Cli::new(srv.now, m, addr) {
        Ok(c) => c,
        Err(e) => return out.inconclusive(&format!("C17 long session: client setup: {e}")),
    };
    let dt = Duration::from_millis(*r.pick(&[16u64, 50, 100]));
    let mut table = Table {
        seen: HashMap::new(),
        blobs: HashMap::new(),
        log: Vec::new(),
        real: HashMap::new(),
        unverifiable: 0,
    };
    let per_dir: u64 = match r.below(8) {
        0 => 66_000,
        1 | 2 => r.range(1_000, 3_000),
        _ => r.range(270, 700),
    };
    let burst = if per_dir > 10_000 { r.range(200, 400) } else { r.range(3, 12) };
    let mut sent = [0u64; 2];
    let mut fp = crate::rng::Fnv::new();
    let mut tick = 0u64;

    macro_rules! record {
        ($server:expr, $b:expr) => {{
            let b: &Vec<u8> = $b;
            let server: bool = $server;
            if b[0] & 0xF != 0 {
                let key = if server { &sk } else { &ck };
                match nsim::open(b, protocol, Some(key)) {
                    Some((seq, pk)) => {
                        if nsim::wire_sequence(b) != Some(seq) {
                            return out.inconclusive("C17 long session: prefix sequence differs from the decoder's");
                        }
                        for v in [table.enter(out, 0, server, seq, &pk, b, tick), table.enter_real(out, 0, server, seq, protocol, key, b, tick)].into_iter().flatten() {
                            let (sig, detail, w) = v;
                            let unlisted = out.violation(
                                ctx,
                                &sig,
                                "an endpoint never seals two different datagrams under the same key with the same sequence number",
                                detail,
                                json!({"property": "C17", "engine": ctx.engine, "mode": "long-session", "run_seed": format!("{:#x}", run_seed), "witness": w,
                                    "params": {"per_direction": per_dir, "dt_ms": dt.as_millis() as u64, "datagrams_so_far": sent}}),
                            );
                            if unlisted {
                                return;
                            }
                        }
                        fp.bytes(&b[..b.len().min(12)]);
                    }
                    None if b.len() < 18 => out.count("nonce.unopenable_17_byte_datagram_F15"),
                    None => {
                        // a datagram the library sealed itself and cannot open again: the ledger has nothing to key it by except
                        // what the wire announces; if that collides with an earlier datagram it is a reuse, otherwise unverifiable
                        table.unverifiable += 1;
                    }
                }
            }
        }};
    }

    // handshake over a perfect link, every datagram recorded
    let mut connected = false;
    for _ in 0..200 {
        tick += 1;
        srv.update(dt);
        if let Some((b, to)) = cli.update(dt) {
            record!(false, &b);
            if srv.addrs.contains(&to) {
                let res = srv.process(addr, &b);
                if let Some((_, o)) = res.outgoing() {
                    let o = o.clone();
                    record!(true, &o);
                    cli.process(&o);
                }
            }
        }
        if let SResult::Send { bytes, .. } = srv.update_client(id) {
            record!(true, &bytes);
            cli.process(&bytes);
        }
        if cli.c.is_connected() && srv.s.is_client_connected(id) {
            connected = true;
            break;
        }
    }
    if !connected {
        return out.inconclusive("C17 long session: the honest handshake did not complete over a perfect link");
    }
    let mut delivered = [0u64; 2];
    while sent[0] < per_dir || sent[1] < per_dir {
        tick += 1;
        srv.update(dt);
        if let Some((b, _)) = cli.update(dt) {
            record!(false, &b);
            sent[0] += 1;
            let _ = srv.process(addr, &b);
        }
        if let SResult::Send { bytes, .. } = srv.update_client(id) {
            record!(true, &bytes);
            sent[1] += 1;
            cli.process(&bytes);
        }
        for _ in 0..burst {
            if sent[0] < per_dir {
                let n = r.usize_below(41);
                match cli.payload(&r.bytes(n)) {
                    Ok((_, b)) => {
                        record!(false, &b);
                        sent[0] += 1;
                        if matches!(srv.process(addr, &b), SResult::Payload { .. }) {
                            delivered[0] += 1;
                        }
                    }
                    Err(e) => return out.inconclusive(&format!("C17 long session: client payload: {e}")),
                }
            }
            if sent[1] < per_dir {
                let n = r.usize_below(41);
                match srv.payload_for(id, &r.bytes(n)) {
                    Ok((_, b)) => {
                        record!(true, &b);
                        sent[1] += 1;
                        if cli.process(&b).is_some() {
                            delivered[1] += 1;
                        }
                    }
                    Err(e) => return out.inconclusive(&format!("C17 long session: server payload: {e}")),
                }
            }
        }
        if !cli.c.is_connected() || !srv.s.is_client_connected(id) {
            out.count("long.session_ended_early");
            break;
        }
    }
    if table.unverifiable > 0 {
        return out.inconclusive(&format!("C17 long session: {} datagrams the endpoints sealed do not open under the session keys: the nonce ledger cannot vouch for them", table.unverifiable));
    }
    out.count("long.sessions");
    out.add("long.datagrams", sent[0] + sent[1]);
    out.add("long.payloads_delivered", delivered[0] + delivered[1]);
    if sent[0] > 256 && sent[1] > 256 {
        out.count("long.sessions_crossing_2^8_both_directions");
    }
    if sent[0] > 65_536 && sent[1] > 65_536 {
        out.count("long.sessions_crossing_2^16_both_directions");
    }
    out.add("nonce.keys", table.seen.len() as u64);
    out.eval(mix(&[0x1e, fp.finish()]), true);
    if out.samples.len() < out.max_samples {
        out.sample(json!({"mode": "long-session", "run_seed": format!("{:#x}", run_seed), "datagrams_client": sent[0], "datagrams_server": sent[1], "dt_ms": dt.as_millis() as u64,
            "entries": table.seen.values().map(|m| m.len()).sum::<usize>()}));
    }
}

/// (b') One client, one token naming two *different* server instances (same private key and
/// protocol id, as a fleet behind one matchmaker). The first server answers requests with challenges
/// but every response to it is lost, so the client gives up in the response step and moves to the
/// second address, where the handshake completes. Every sealed datagram each endpoint emits goes into
/// a per-endpoint nonce table: the client is ONE endpoint with ONE client-to-server key across the
/// whole connection attempt, each server instance is its own endpoint.
fn failover_run(ctx: &Ctx, out: &mut Outcome, run_seed: u64, r: &mut Rng) {
    let mut key = [0u8; 32];
    r.fill(&mut key);
    let protocol = r.next_u64();
    let now = Duration::from_secs(1_000 + r.below(100_000));
    let a1 = nsim::addr4(0, 1, 5001);
    let a2 = nsim::addr4(0, 2, 5002);
    let mut s1 = Srv::new(now, 2, protocol, vec![a1], key, true);
    let mut s2 = Srv::new(now, 2, protocol, vec![a2], key, true);
    let timeout = *r.pick(&[1i32, 2, 3]);
    let cid = r.next_u64();
    let m = nsim::mint(r, now.as_secs(), protocol, 120, cid, timeout, &[a1, a2], None, &key);
    let caddr = nsim::addr4(7, 7, 40_000);
    let mut cli = match Cli::new(now, m.clone(), caddr) {
        Ok(c) => c,
        Err(e) => {
            out.inconclusive(&format!("C17 failover: client creation failed: {e}"));
            return;
        }
    };
    let dt = Duration::from_millis(*r.pick(&[50u64, 100, 250]));
    let mut tables = [
        Table { seen: HashMap::new(), blobs: HashMap::new(), log: Vec::new(), real: HashMap::new(), unverifiable: 0 },
        Table { seen: HashMap::new(), blobs: HashMap::new(), log: Vec::new(), real: HashMap::new(), unverifiable: 0 },
        Table { seen: HashMap::new(), blobs: HashMap::new(), log: Vec::new(), real: HashMap::new(), unverifiable: 0 },
    ];
    let lose_responses_to_s1 = true;
    let mut reached_second = false;
    let mut connected = false;
    let mut responses_to_first = 0u64;
    let mut violation: Option<(String, String, Value)> = None;
    let record = |tables: &mut [Table; 3], out: &mut Outcome, which: usize, server: bool, bytes: &[u8], tick: u64| -> Option<(String, String, Value)> {
        let k = if server { &m.token.server_to_client_key } else { &m.token.client_to_server_key };
        let (seq, p) = nsim::open(bytes, protocol, Some(k))?;
        if matches!(p, OPacket::Request { .. }) {
            return None; // not sealed
        }
        out.eval(mix(&[run_seed, which as u64, crate::rng::fnv1a(bytes)]), true);
        if let Some(v) = tables[which].enter(out, 0, server, seq, &p, bytes, tick) {
            return Some(v);
        }
        tables[which].enter_real(out, 0, server, seq, protocol, k, bytes, tick)
    };
    for tick in 0..400u64 {
        s1.update(dt);
        s2.update(dt);
        if let Some((b, to)) = cli.update(dt) {
            if let Some(v) = record(&mut tables, out, 0, false, &b, tick) {
                violation = Some(v);
                break;
            }
            let is_response = b.first().map(|x| x & 0xF) == Some(3);
            let (srv, which) = if to == a1 { (&mut s1, 1usize) } else { (&mut s2, 2usize) };
            if to == a2 {
                reached_second = true;
            }
            if to == a1 && is_response && lose_responses_to_s1 {
                responses_to_first += 1;
            } else {
                let res = srv.process(caddr, &b);
                if let Some((dst, reply)) = res.outgoing() {
                    if let Some(v) = record(&mut tables, out, which, true, reply, tick) {
                        violation = Some(v);
                        break;
                    }
                    if dst == caddr {
                        cli.process(reply);
                    }
                }
            }
        }
        for (srv, which) in [(&mut s1, 1usize), (&mut s2, 2usize)] {
            if let SResult::Send { addr, bytes } = srv.update_client(cid) {
                if let Some(v) = record(&mut tables, out, which, true, &bytes, tick) {
                    violation = Some(v);
                    break;
                }
                if addr == caddr && cli.c.server_addr() == srv.addrs[0] {
                    cli.process(&bytes);
                }
            }
        }
        if violation.is_some() {
            break;
        }
        if cli.c.is_connected() && s2.s.is_client_connected(cid) {
            connected = true;
            // a few session datagrams from the client, then stop
            for _ in 0..3 {
                if let Ok((_, d)) = cli.payload(&r.bytes(10)) {
                    if let Some(v) = record(&mut tables, out, 0, false, &d, tick) {
                        violation = Some(v);
                    }
                }
            }
            break;
        }
        if cli.c.is_disconnected() {
            break;
        }
    }
    if let Some((sig, detail, w)) = violation {
        out.violation(
            ctx,
            &sig,
            "within one connection attempt and the session that follows an endpoint never seals two different datagrams under the same key with the same sequence number",
            format!("fail-over history: {}", detail),
            json!({"property": "C17", "engine": ctx.engine, "run_seed": format!("{:#x}", run_seed), "mode": "failover", "witness": w}),
        );
        return;
    }
    out.count("hist.failover_two_servers");
    if reached_second && responses_to_first > 0 {
        out.count("hist.failover_after_response_step");
    }
    if connected {
        out.count("hist.failover_connected_at_second_server");
    }
}

// ------------------------------------------------------------------------------------------
// (a) tamper evidence

enum End<'a> {
    Srv(&'a mut Srv, SocketAddr),
    Cli(&'a mut Cli),
}

/// Presents every single-bit flip and every truncation of `g`; returns false when a violation was reported.
#[allow(clippy::too_many_arguments)]
fn tamper_all(ctx: &Ctx, out: &mut Outcome, run_seed: u64, kind: &'static str, g: &[u8], end: &mut End, seal: Option<(u64, &[u8; 32])>) -> bool {
    // the request is the only unsealed kind: its prefix byte's unused high nibble is neither sealed nor bound
    let skip_prefix_high_nibble = seal.is_none();
    let sample_hash = fnv1a(g);
    let mut d = g.to_vec();
    let nbits = 8 * g.len();
    for m in 0..(nbits + g.len()) {
        let (what, idx) = if m < nbits { ("bitflip", m) } else { ("truncation", m - nbits) };
        if what == "bitflip" {
            if skip_prefix_high_nibble && idx / 8 == 0 && idx % 8 >= 4 {
                continue;
            }
            d.clear();
            d.extend_from_slice(g);
            flip_bit(&mut d, idx);
        } else {
            d.clear();
            d.extend_from_slice(&g[..idx]);
        }
        out.count(&format!("tamper.{kind}"));
        out.eval(mix(&[0x17, sample_hash, m as u64]), true);
        // codec level: "yields an error, never content" (the decoder may panic on the pinned tree: C07's finding)
        let opened = match seal {
            Some((protocol, key)) => watchdog::catch(|| nsim::open(&d, protocol, Some(key))).ok().flatten(),
            None => None,
        };
        let changed: Option<(String, String)> = if let Some((seq, p)) = opened {
            Some(("opened-by-codec".to_string(), format!("decoded as {} with sequence {}", p.name(), seq)))
        } else {
            match end {
            End::Srv(srv, addr) => {
                let before = srv.snapshot();
                let a = *addr;
                match watchdog::guarded("NetcodeServer::process_packet", &d, || srv.process(a, &d)) {
                    Err(c) => {
                        // "yields an error, never content": a panic is not an error return
                        out.count("tamper.calls_that_panicked");
                        Some(("panicked-instead-of-error".to_string(), format!("NetcodeServer::process_packet panicked: {} ({})", c.msg, c.class)))
                    }
                    Ok(res) => {
                        if res != SResult::None {
                            Some((format!("result-{}", res.kind()), format!("{:?}", res.outgoing().map(|(a, b)| (a, b.len())))))
                        } else {
                            let after = srv.snapshot();
                            before.diff(&after).map(|w| (w.to_string(), format!("before {:?} after {:?}", before, after)))
                        }
                    }
                }
            }
            End::Cli(cli) => {
                let before = cli.snapshot();
                match watchdog::guarded("NetcodeClient::process_packet", &d, || cli.process(&d)) {
                    Err(c) => {
                        out.count("tamper.calls_that_panicked");
                        Some(("panicked-instead-of-error".to_string(), format!("NetcodeClient::process_packet panicked: {} ({})", c.msg, c.class)))
                    }
                    Ok(Some(p)) => Some(("payload-surfaced".to_string(), format!("{} bytes", p.len()))),
                    Ok(None) => {
                        let after = cli.snapshot();
                        before.diff(&after).map(|w| (w.to_string(), format!("before {:?} after {:?}", before, after)))
                    }
                }
            }
            }
        };
        if let Some((obs, detail)) = changed {
            out.violation(
                ctx,
                &format!("C17/tamper-accepted/{kind}/{what}/{obs}"),
                "a modified sealed datagram yields an error, never content",
                format!("{} {} of a genuine {} ({} bytes) was not ignored: {} ({})", what, idx, kind, g.len(), obs, detail),
                json!({"property": "C17", "engine": ctx.engine, "mode": "tamper", "run_seed": format!("{:#x}", run_seed),
                    "kind": kind, "modification": what, "index": idx, "genuine": dg_json(g), "presented": dg_json(&d), "observed": obs}),
            );
            return false;
        }
    }
    true
}

/// Codec-level: a sealed sample opens under its own key and protocol id and under nothing else.
fn other_key_protocol(ctx: &Ctx, out: &mut Outcome, run_seed: u64, kind: &'static str, g: &[u8], protocol: u64, key: &[u8; 32], r: &mut Rng) -> bool {
    out.count("tamper.other_key_or_protocol_checks");
    if g.len() >= 18 && nsim::open(g, protocol, Some(key)).is_none() {
        out.inconclusive(&format!("C17: genuine {kind} does not open under its own key"));
        return false;
    }
    let mut k2 = *key;
    k2[r.usize_below(32)] ^= 1 << r.below(8);
    let p2 = protocol ^ (1 << r.below(64));
    for (what, opened) in [("key", nsim::open(g, protocol, Some(&k2))), ("protocol", nsim::open(g, p2, Some(key)))] {
        if let Some((seq, p)) = opened {
            out.violation(
                ctx,
                &format!("C17/opens-under-other/{kind}/{what}"),
                "opening under another key or protocol id yields an error",
                format!("genuine {} (sequence {}) opened as {} under another {}", kind, seq, p.name(), what),
                json!({"property": "C17", "engine": ctx.engine, "mode": "tamper", "run_seed": format!("{:#x}", run_seed), "kind": kind, "other": what, "genuine": dg_json(g)}),
            );
            return false;
        }
    }
    true
}

fn age(srv: &mut Srv, clis: &mut [&mut Cli]) {
    let dt = Duration::from_millis(5);
    srv.update(dt);
    for c in clis.iter_mut() {
        let _ = c.update(dt);
    }
}

fn tamper_run(ctx: &Ctx, out: &mut Outcome, run_seed: u64, r: &mut Rng) {
    macro_rules! setup {
        ($e:expr, $what:expr) => {
            match $e {
                Ok(v) => v,
                Err(e) => {
                    out.inconclusive(&format!("C17 tamper: {}: {}", $what, e));
                    return;
                }
            }
        };
    }
    macro_rules! accepted {
        ($cond:expr, $what:expr) => {
            if $cond {
                out.count("tamper.genuine_accepted_after");
            } else {
                out.inconclusive(&format!("C17 tamper: the genuine {} was not accepted after its modified copies (state not accepting; see C07 for window poisoning)", $what));
                return;
            }
        };
    }
    // until this execution has presented every modification of every sample, the enumeration is incomplete
    let complete_so_far = out.exhaustive != Some(false);
    out.exhaustive = Some(false);
    let v6 = r.chance(1, 4);
    let mut srv = new_srv(r, 2, 1, v6);
    let protocol = srv.protocol_id;
    let timeout = *r.pick(&[5i32, 15, -1]);

    // 1. request from an address the server has never seen
    let u_addr = client_addr(r, 900);
    let tok_u = mint_for(r, &srv, 4242, timeout, 300);
    let req_u = request_of(&tok_u);
    {
        // servers with another private key / protocol id ignore it
        let mut k2 = srv.key;
        k2[0] ^= 2;
        let mut s_key = Srv::new(srv.now, 2, protocol, srv.addrs.clone(), k2, true);
        let mut s_proto = Srv::new(srv.now, 2, protocol ^ 1, srv.addrs.clone(), srv.key, true);
        for (what, s) in [("key", &mut s_key), ("protocol", &mut s_proto)] {
            let res = s.process(u_addr, &req_u);
            if res != SResult::None || !s.s.verif_pending().is_empty() {
                out.violation(
                    ctx,
                    &format!("C17/opens-under-other/request/{what}"),
                    "opening under another key or protocol id yields an error",
                    format!("request accepted by a server with another {}: {}", what, res.kind()),
                    json!({"property": "C17", "engine": ctx.engine, "mode": "tamper", "run_seed": format!("{:#x}", run_seed), "kind": "request", "other": what, "genuine": dg_json(&req_u)}),
                );
                return;
            }
        }
        out.count("tamper.other_key_or_protocol_checks");
    }
    if !tamper_all(ctx, out, run_seed, "request", &req_u, &mut End::Srv(&mut srv, u_addr), None) {
        return;
    }
    accepted!(matches!(srv.process(u_addr, &req_u), SResult::Send { .. }), "request");
    // 1b. the same request as a RETRY: the address is now half-open with this very token; a modified
    // copy of the request must still be rejected (nothing may be taken on trust from the first one)
    if !tamper_all(ctx, out, run_seed, "request-retry", &req_u, &mut End::Srv(&mut srv, u_addr), None) {
        return;
    }
    accepted!(matches!(srv.process(u_addr, &req_u), SResult::Send { .. }), "request (retry)");

    // 2. challenge -> requesting client A
    let a_addr = client_addr(r, 901);
    let mut a = setup!(new_cli(r, &srv, 1001, a_addr, timeout, 300), "client A");
    let (_req_a, chal_a) = setup!(to_pending(&mut srv, &mut a), "A request");
    let (a_c2s, a_s2c) = (a.minted.token.client_to_server_key, a.minted.token.server_to_client_key);
    age(&mut srv, &mut [&mut a]);
    if !other_key_protocol(ctx, out, run_seed, "challenge", &chal_a, protocol, &a_s2c, r) || !tamper_all(ctx, out, run_seed, "challenge", &chal_a, &mut End::Cli(&mut a), Some((protocol, &a_s2c))) {
        return;
    }
    a.process(&chal_a);
    let resp_a = setup!(cli_emit(&mut a), "A response");
    accepted!(resp_a.first().map(|b| b & 0xF) == Some(3), "challenge");

    // 2a. the challenge token itself is sealed data (by the server, under its challenge key): echoed in a response that is
    //     correctly sealed under the session key, with one bit of the 300-byte token (or its sequence) changed, it
    //     must not be accepted - every one of its 2400 bit positions is authenticated, padding included
    if let Some((rseq, OPacket::Response { token_sequence, token_data })) = nsim::open(&resp_a, protocol, Some(&a_c2s)) {
        let mut positions: Vec<usize> = (0..2400).filter(|b| *b >= 2400 - 8 * 40 || *b < 64).collect();
        for _ in 0..120 {
            positions.push(r.usize_below(2400));
        }
        for bit in positions {
            let mut td = token_data.clone();
            td[bit / 8] ^= 1 << (bit % 8);
            let d = super::netproto_util::sealed(&OPacket::Response { token_sequence, token_data: td }, protocol, rseq, &a_c2s);
            let res = srv.process(a_addr, &d);
            out.count("tamper.challenge_token_bit_flips_in_resealed_response");
            out.eval(mix(&[0x1c, run_seed, bit as u64]), true);
            if matches!(res, SResult::Connected { .. }) || res.outgoing().is_some() || srv.s.is_client_connected(1001) {
                out.violation(
                    ctx,
                    "C17/tamper-accepted/challenge-token/bitflip/connected",
                    "sealed data is tamper-evident: a modified sealed item is never accepted",
                    format!("a response echoing the server's challenge token with bit {} of 2400 flipped (correctly sealed under the session key) was accepted: {}", bit, res.kind()),
                    json!({"property": "C17", "engine": ctx.engine, "run_seed": format!("{:#x}", run_seed), "mode": "tamper", "kind": "challenge-token", "bit": bit}),
                );
                return;
            }
        }
        for ts in [token_sequence.wrapping_add(1), token_sequence.wrapping_sub(1), token_sequence ^ (1 << 40)] {
            let d = super::netproto_util::sealed(&OPacket::Response { token_sequence: ts, token_data: token_data.clone() }, protocol, rseq, &a_c2s);
            let res = srv.process(a_addr, &d);
            out.count("tamper.challenge_token_sequence_changed_in_resealed_response");
            if matches!(res, SResult::Connected { .. }) || srv.s.is_client_connected(1001) {
                out.violation(
                    ctx,
                    "C17/tamper-accepted/challenge-token/sequence/connected",
                    "sealed data is tamper-evident: a modified sealed item is never accepted",
                    format!("a response echoing the challenge token under token sequence {:#x} instead of {:#x} was accepted", ts, token_sequence),
                    json!({"property": "C17", "engine": ctx.engine, "run_seed": format!("{:#x}", run_seed), "mode": "tamper", "kind": "challenge-token-sequence"}),
                );
                return;
            }
        }
    }

    // 3. response -> server, from A's half-open address
    age(&mut srv, &mut []);
    if !other_key_protocol(ctx, out, run_seed, "response", &resp_a, protocol, &a_c2s, r) || !tamper_all(ctx, out, run_seed, "response", &resp_a, &mut End::Srv(&mut srv, a_addr), Some((protocol, &a_c2s))) {
        return;
    }
    let ka0 = match srv.process(a_addr, &resp_a) {
        SResult::Connected { bytes, .. } => bytes,
        other => {
            out.inconclusive(&format!("C17 tamper: the genuine response was not accepted after its modified copies ({})", other.kind()));
            return;
        }
    };
    out.count("tamper.genuine_accepted_after");

    // 4. keep-alive server -> client (the connect keep-alive: moves the client to connected)
    age(&mut srv, &mut [&mut a]);
    if !other_key_protocol(ctx, out, run_seed, "keepalive-down", &ka0, protocol, &a_s2c, r) || !tamper_all(ctx, out, run_seed, "keepalive-down", &ka0, &mut End::Cli(&mut a), Some((protocol, &a_s2c))) {
        return;
    }
    a.process(&ka0);
    accepted!(a.c.is_connected(), "connect keep-alive");
    //    ... and a later one in the connected state
    srv.update(Duration::from_millis(300));
    let _ = a.update(Duration::from_millis(20));
    if let SResult::Send { bytes: ka1, .. } = srv.update_client(1001) {
        if !tamper_all(ctx, out, run_seed, "keepalive-down", &ka1, &mut End::Cli(&mut a), Some((protocol, &a_s2c))) {
            return;
        }
        a.process(&ka1);
        accepted!(a.c.time_since_last_received_packet() == Duration::ZERO, "keep-alive");
    }

    // 5. keep-alive client -> server
    let ka_up = match a.update(Duration::from_millis(300)) {
        Some((b, _)) => b,
        None => {
            out.inconclusive("C17 tamper: connected client emitted no keep-alive after 300 ms");
            return;
        }
    };
    age(&mut srv, &mut []);
    if !other_key_protocol(ctx, out, run_seed, "keepalive-up", &ka_up, protocol, &a_c2s, r) || !tamper_all(ctx, out, run_seed, "keepalive-up", &ka_up, &mut End::Srv(&mut srv, a_addr), Some((protocol, &a_c2s))) {
        return;
    }
    let _ = srv.process(a_addr, &ka_up);
    accepted!(srv.s.time_since_last_received_packet(1001) == Some(Duration::ZERO), "client keep-alive");

    // 6. payloads both ways
    let n_up = *r.pick(&[0usize, 1, 16, 17, 100, 600, 1300]);
    let pay_up = r.bytes(n_up);
    let (_, p_up) = setup!(a.payload(&pay_up), "A payload");
    age(&mut srv, &mut []);
    if !other_key_protocol(ctx, out, run_seed, "payload-up", &p_up, protocol, &a_c2s, r) || !tamper_all(ctx, out, run_seed, "payload-up", &p_up, &mut End::Srv(&mut srv, a_addr), Some((protocol, &a_c2s))) {
        return;
    }
    accepted!(matches!(srv.process(a_addr, &p_up), SResult::Payload { client_id: 1001, ref bytes } if *bytes == pay_up), "client payload");
    let n_down = *r.pick(&[0usize, 1, 16, 17, 100, 600, 1300]);
    let pay_down = r.bytes(n_down);
    let (_, p_down) = setup!(srv.payload_for(1001, &pay_down), "server payload");
    age(&mut srv, &mut [&mut a]);
    if !other_key_protocol(ctx, out, run_seed, "payload-down", &p_down, protocol, &a_s2c, r) || !tamper_all(ctx, out, run_seed, "payload-down", &p_down, &mut End::Cli(&mut a), Some((protocol, &a_s2c))) {
        return;
    }
    accepted!(a.process(&p_down).as_deref() == Some(&pay_down[..]), "server payload");

    // 7. second client B connects: the server (2 slots) is full, X is denied
    let b_addr = client_addr(r, 902);
    let mut b = setup!(new_cli(r, &srv, 1002, b_addr, timeout, 300), "client B");
    setup!(connect(&mut srv, &mut b), "B handshake");
    let x_addr = client_addr(r, 903);
    let mut x = setup!(new_cli(r, &srv, 1003, x_addr, timeout, 300), "client X");
    let req_x = setup!(cli_emit(&mut x), "X request");
    let denied = match srv.process(x_addr, &req_x) {
        SResult::Send { bytes, .. } => bytes,
        other => {
            out.inconclusive(&format!("C17 tamper: full server did not answer the request with a denial ({})", other.kind()));
            return;
        }
    };
    let x_s2c = x.minted.token.server_to_client_key;
    if denied.len() >= 18 {
        age(&mut srv, &mut [&mut x]);
        if !other_key_protocol(ctx, out, run_seed, "denied", &denied, protocol, &x_s2c, r) || !tamper_all(ctx, out, run_seed, "denied", &denied, &mut End::Cli(&mut x), Some((protocol, &x_s2c))) {
            return;
        }
        x.process(&denied);
        accepted!(x.c.disconnect_reason() == Some(renetcode::DisconnectReason::ConnectionDenied), "denial");
    } else {
        out.count("tamper.sample_17_bytes_unacceptable_F15");
    }

    // 8. disconnect client -> server (A), server -> client (B)
    let (_, disc_up) = setup!(a.disconnect(), "A disconnect");
    if disc_up.len() >= 18 {
        age(&mut srv, &mut []);
        if !other_key_protocol(ctx, out, run_seed, "disconnect-up", &disc_up, protocol, &a_c2s, r) || !tamper_all(ctx, out, run_seed, "disconnect-up", &disc_up, &mut End::Srv(&mut srv, a_addr), Some((protocol, &a_c2s))) {
            return;
        }
        accepted!(matches!(srv.process(a_addr, &disc_up), SResult::Disconnected { client_id: 1001, .. }), "client disconnect");
    } else {
        out.count("tamper.sample_17_bytes_unacceptable_F15");
    }
    let b_s2c = b.minted.token.server_to_client_key;
    match srv.disconnect(1002) {
        SResult::Disconnected { bytes: Some(disc_down), .. } if disc_down.len() >= 18 => {
            age(&mut srv, &mut [&mut b]);
            if !other_key_protocol(ctx, out, run_seed, "disconnect-down", &disc_down, protocol, &b_s2c, r) || !tamper_all(ctx, out, run_seed, "disconnect-down", &disc_down, &mut End::Cli(&mut b), Some((protocol, &b_s2c))) {
                return;
            }
            b.process(&disc_down);
            accepted!(b.c.disconnect_reason() == Some(renetcode::DisconnectReason::DisconnectedByServer), "server disconnect");
        }
        SResult::Disconnected { .. } => out.count("tamper.sample_17_bytes_unacceptable_F15"),
        other => {
            out.inconclusive(&format!("C17 tamper: server.disconnect returned {}", other.kind()));
            return;
        }
    }

    // 9. token: sealed part, protocol id, expiry
    if !token_tamper(ctx, out, run_seed, r) {
        return;
    }
    out.exhaustive = Some(complete_so_far);
    if out.samples.len() < out.max_samples {
        out.sample(json!({"mode": "tamper", "run_seed": format!("{:#x}", run_seed),
            "samples": {"request": req_u.len(), "challenge": chal_a.len(), "response": resp_a.len(), "keepalive_down": ka0.len(), "keepalive_up": ka_up.len(),
                "payload_up": p_up.len(), "payload_down": p_down.len(), "denied": denied.len(), "disconnect_up": disc_up.len()},
            "modifications": "every single bit, every truncation length"}));
    }
}

fn token_tamper(ctx: &Ctx, out: &mut Outcome, run_seed: u64, r: &mut Rng) -> bool {
    let mut srv = new_srv(r, 2, 1, false);
    let addr = client_addr(r, 950);
    let m: Minted = mint_for(r, &srv, 77, 15, 300);
    let good = nsim::token_bytes(&m.token);
    let fields: [(&'static str, usize, usize); 3] = [("protocol-id", tok_off::PROTOCOL, 8), ("expiry", tok_off::EXPIRE, 8), ("sealed-part", tok_off::PRIVATE, 1024)];
    let mut bytes = good.clone();
    for (field, off, len) in fields {
        for bit in 0..8 * len {
            bytes.copy_from_slice(&good);
            flip_bit(&mut bytes[off..off + len], bit);
            out.count("token.bitflips");
            out.eval(mix(&[0x18, fnv1a(&good), off as u64, bit as u64]), true);
            let fail = |out: &mut Outcome, what: &str, detail: String| {
                out.violation(
                    ctx,
                    &format!("C17/token-tamper-accepted/{field}"),
                    "a token with a flipped bit in its sealed part or bound public fields yields an error, never content",
                    format!("bit {} of the token's {} flipped: {} ({})", bit, field, what, detail),
                    json!({"property": "C17", "engine": ctx.engine, "mode": "tamper", "run_seed": format!("{:#x}", run_seed), "field": field, "bit": bit, "token": dg_json(&bytes), "observed": what}),
                );
            };
            // the crate's private-token decoder with the public fields as they now read
            let parsed = match ConnectToken::read(&mut &bytes[..]) {
                Ok(t) => t,
                Err(_) => continue, // refusing to parse is fine
            };
            if renetcode::verif::private_token_decode(&parsed.private_data, parsed.protocol_id, parsed.expire_timestamp, &parsed.xnonce, &srv.key).is_ok() {
                fail(out, "private token decoded", "PrivateConnectToken::decode returned Ok".into());
                return false;
            }
            // full path: client built from it, its request handed to the server
            let now = srv.now;
            let req = match watchdog::guarded("token->client->request", &bytes, || {
                NetcodeClient::new(now, ClientAuthentication::Secure { connect_token: parsed }).ok().and_then(|mut c| c.update(Duration::from_millis(1)).map(|(b, _)| b.to_vec()))
            }) {
                Ok(Some(b)) => b,
                Ok(None) => continue,
                Err(c) => {
                    // C07's finding (e.g. expire < create); a panic is not content
                    out.count("token.calls_that_panicked_C07");
                    out.note(&format!("C17: NetcodeClient::new/update panicked on a modified token ({}): C07's finding", c.class));
                    continue;
                }
            };
            let res = srv.process(addr, &req);
            if res != SResult::None {
                fail(out, "request answered", format!("result {}", res.kind()));
                return false;
            }
            if !srv.s.verif_pending().is_empty() || srv.s.connected_clients() != 0 {
                fail(out, "half-open session created", format!("{:?}", srv.s.verif_pending()));
                return false;
            }
        }
    }
    match srv.process(addr, &request_of(&m)) {
        SResult::Send { .. } => {
            out.count("token.genuine_accepted_after");
            true
        }
        other => {
            out.inconclusive(&format!("C17 token tamper: the genuine token was not accepted afterwards ({})", other.kind()));
            false
        }
    }
}

// ------------------------------------------------------------------------------------------
// (b) nonce table over honest histories

struct Party {
    cli: Cli,
    alive: bool,
    requests: u32,
    was_connected: bool,
    reconnect_of: bool,
    /// sessions the server opened for this token; a second one restarts the counter under the same keys
    /// (token reuse, outside the statement): the server side of this party is no longer recorded then
    server_sessions: u32,
    denied_seen: bool,
}

fn domain(server: bool, p: &OPacket) -> &'static str {
    match p {
        // replies the server sends before the session's own counter starts
        OPacket::Challenge { .. } | OPacket::Denied => "handshake",
        OPacket::Response { .. } => "response",
        OPacket::Request { .. } => "request",
        _ => {
            let _ = server;
            "session"
        }
    }
}

struct Table {
    /// (party index = token index, emitted by server?) -> sequence -> (bytes, domain, tick)
    seen: HashMap<(usize, bool), HashMap<u64, (Vec<u8>, &'static str, u64)>>,
    blobs: HashMap<u64, Vec<u8>>,
    log: Vec<Value>,
    /// (party, emitted by server?) -> sequence whose standard nonce really opens the datagram -> (bytes, announced sequence)
    /// keyed by the key itself: if both directions of a session (or two sessions) were given the same key, their
    /// datagrams share one nonce space
    real: HashMap<[u8; 32], HashMap<u64, (Vec<u8>, u64)>>,
    /// datagrams that open under no candidate nonce: the ledger cannot vouch for them
    unverifiable: u64,
}

impl Table {
    /// Returns Some(violation) when (key, sequence) was already used for other bytes.
    #[allow(clippy::too_many_arguments)]
    fn enter(&mut self, out: &mut Outcome, party: usize, server: bool, seq: u64, p: &OPacket, bytes: &[u8], tick: u64) -> Option<(String, String, Value)> {
        let dom = domain(server, p);
        if self.log.len() >= 14 {
            self.log.remove(0);
        }
        self.log.push(json!({"tick": tick, "from": if server { "server" } else { "client" }, "token": party, "kind": p.name(), "sequence": format!("{:#x}", seq), "len": bytes.len()}));
        let m = self.seen.entry((party, server)).or_default();
        match m.get(&seq) {
            None => {
                m.insert(seq, (bytes.to_vec(), dom, tick));
                out.count("nonce.entries");
                None
            }
            Some((old, _, _)) if old == bytes => {
                out.count("nonce.identical_datagram_again");
                None
            }
            Some((old, old_dom, old_tick)) => {
                let mut pair = [*old_dom, dom];
                pair.sort_unstable();
                let who = if server { "server" } else { "client" };
                let sig = format!("C17/nonce-reuse/{}/{}-vs-{}", who, pair[0], pair[1]);
                let detail = format!(
                    "the {} sealed two different datagrams under the {} key of token #{} with sequence {}: a {} at tick {} ({} bytes) and a {} at tick {} ({} bytes)",
                    who, if server { "server-to-client" } else { "client-to-server" }, party, seq, old_dom, old_tick, old.len(), p.name(), tick, bytes.len()
                );
                let w = json!({"first": dg_json(old), "second": dg_json(bytes), "sequence": seq, "token": party, "emitter": who, "log_tail": self.log});
                Some((sig, detail, w))
            }
        }
    }
}

impl Table {
    /// Establishes, with an independent ChaCha20-Poly1305 (nsim::ref_open*), which nonce the datagram was really
    /// sealed with - normally the standard nonce of its announced sequence - and enters it in the real-nonce
    /// ledger. Two different datagrams under one (key, real nonce) refute the property even when their announced
    /// sequence numbers differ.
    #[allow(clippy::too_many_arguments)]
    fn enter_real(&mut self, out: &mut Outcome, party: usize, server: bool, seq: u64, protocol: u64, key: &[u8; 32], bytes: &[u8], tick: u64) -> Option<(String, String, Value)> {
        let nonce_seq = if nsim::ref_open(bytes, protocol, key).is_some() {
            out.count("nonce.reference_open_ok");
            seq
        } else {
            let mut cands: Vec<u64> = vec![seq & 0xFFFF_FFFF, seq & 0xFFFF_FFFF_FFFF, seq & 0x7FFF_FFFF_FFFF_FFFF, seq >> 32, seq.swap_bytes(), seq.wrapping_add(1), seq.wrapping_sub(1), 0];
            if let Some(m) = self.seen.get(&(party, server)) {
                cands.extend(m.keys().copied());
            }
            match cands.into_iter().find(|c| *c != seq && nsim::ref_open_with_nonce(bytes, protocol, key, *c).is_some()) {
                Some(c) => {
                    out.count("nonce.real_differs_from_sequence");
                    c
                }
                None => {
                    self.unverifiable += 1;
                    return None;
                }
            }
        };
        let m = self.real.entry(*key).or_default();
        match m.get(&nonce_seq) {
            None => {
                m.insert(nonce_seq, (bytes.to_vec(), seq));
                None
            }
            Some((old, _)) if old == bytes => None,
            Some((old, old_seq)) => {
                let who = if server { "server" } else { "client" };
                let sig = format!("C17/nonce-reuse/{}/real-nonce", who);
                let detail = format!(
                    "the {} sealed two different datagrams of token #{} with the same AEAD nonce (the standard nonce of sequence {:#x}): one announces sequence {:#x} ({} bytes), the other {:#x} ({} bytes, tick {}); established by opening both with an independent ChaCha20-Poly1305",
                    who, party, nonce_seq, old_seq, old.len(), seq, bytes.len(), tick
                );
                let w = json!({"first": dg_json(old), "second": dg_json(bytes), "real_nonce_sequence": format!("{:#x}", nonce_seq), "token": party, "emitter": who, "log_tail": self.log});
                Some((sig, detail, w))
            }
        }
    }
}

fn history_run(ctx: &Ctx, out: &mut Outcome, run_seed: u64, r: &mut Rng) {
    // "race": a one-slot server with two addresses and clients that arrive together holding tokens for both addresses:
    // both are challenged while a slot is free, one response is admitted, the other is denied at the response step,
    // the slot frees soon and the denied client is admitted at the second address with the same token
    let race = r.chance(1, 4);
    let max_clients = if race { 1 } else { r.urange(1, 3) };
    let two_addrs = race || r.chance(1, 2);
    let mut srv = new_srv(r, max_clients, if two_addrs { 2 } else { 1 }, false);
    let protocol = srv.protocol_id;
    let dead_addr = nsim::addr4(222, 1, 4000);
    let n_parties_max = r.urange(3, 7);
    let drop_pct = *r.pick(&[0u64, 10, 30]);
    let dup_pct = *r.pick(&[0u64, 10, 25]);
    let dt = Duration::from_millis(*r.pick(&[50u64, 100, 250, 400]));
    let ticks = r.range(60, 160);
    let mut parties: Vec<Party> = Vec::new();
    let mut table = Table {
        seen: HashMap::new(),
        blobs: HashMap::new(),
        log: Vec::new(),
        real: HashMap::new(),
        unverifiable: 0,
    };
    let mut c2s: Vec<(usize, Vec<u8>)> = Vec::new();
    let mut s2c: Vec<(SocketAddr, Vec<u8>)> = Vec::new();
    let mut fp = crate::rng::Fnv::new();
    let mut dead_ids: Vec<(u64, SocketAddr)> = Vec::new();
    let mut challenges_per_party: HashMap<usize, u32> = HashMap::new();

    macro_rules! violation {
        ($v:expr) => {{
            let (sig, detail, w) = $v;
            let unlisted = out.violation(
                ctx,
                &sig,
                "an endpoint never seals two different datagrams under the same key with the same sequence number",
                detail,
                json!({"property": "C17", "engine": ctx.engine, "mode": "history", "run_seed": format!("{:#x}", run_seed), "witness": w,
                    "params": {"max_clients": max_clients, "drop_pct": drop_pct, "dup_pct": dup_pct, "dt_ms": dt.as_millis() as u64}}),
            );
            // an unlisted violation ends the execution (witness stored); a known finding is counted and the history goes on
            if unlisted {
                return;
            }
        }};
    }

    for tick in 0..ticks {
        // new parties (fresh token each; sometimes the id / address of a finished one: a reconnect)
        while parties.len() < n_parties_max && (tick == 0 || r.chance(1, 6)) {
            let n = parties.len();
            let (id, addr, recon) = if !dead_ids.is_empty() && r.chance(1, 2) {
                let (id, a) = dead_ids.remove(0);
                (id, if r.chance(1, 2) { a } else { client_addr(r, 300 + n as u64) }, true)
            } else {
                (2000 + n as u64, client_addr(r, 300 + n as u64), false)
            };
            let failover = two_addrs && !race && r.chance(1, 3);
            // a second *session* under the same token keys restarts the counter (token reuse, outside the statement)
            // some tokens list both addresses of this server: a client whose attempt at the first one ended without a
            // session (denied, lost replies) tries the second one with the same token; only one session may follow
            let both = two_addrs && !failover && (race || r.chance(1, 2));
            let addrs: Vec<SocketAddr> = if failover {
                vec![dead_addr, srv.addrs[1]]
            } else if both {
                vec![srv.addrs[0], srv.addrs[1], srv.addrs[0], srv.addrs[1]]
            } else {
                vec![srv.addrs[r.usize_below(srv.addrs.len())]]
            };
            let timeout = if failover { 1 } else if both { *r.pick(&[1i32, 2]) } else { *r.pick(&[2i32, 5, 15]) };
            // a third of the parties hold a token of the library's own generator (its keys are the library's choice)
            let lib = if r.chance(1, 3) { nsim::mint_lib(srv.now.as_secs(), protocol, 600, id, timeout, &addrs, None, &srv.key) } else { None };
            if lib.is_some() {
                out.count("hist.parties_with_library_generated_token");
            }
            let m = lib.unwrap_or_else(|| nsim::mint(r, srv.now.as_secs(), protocol, 600, id, timeout, &addrs, None, &srv.key));
            match Cli::new(srv.now, m, addr) {
                Ok(cli) => {
                    if recon {
                        out.count("hist.reconnects");
                    }
                    parties.push(Party { cli, alive: true, requests: 0, was_connected: false, reconnect_of: recon, server_sessions: 0, denied_seen: false })
                }
                Err(e) => return out.inconclusive(&format!("C17 history: client setup: {e}")),
            }
            if !(race && tick == 0 && parties.len() < 3) {
                break;
            }
        }
        srv.update(dt);
        // clients act
        for (i, p) in parties.iter_mut().enumerate() {
            if !p.alive {
                continue;
            }
            let before_addr = p.cli.c.server_addr();
            let emitted = p.cli.update(dt);
            if p.cli.c.server_addr() != before_addr {
                out.count("hist.failover");
            }
            let mut outgoing: Vec<(Vec<u8>, SocketAddr)> = Vec::new();
            if let Some((b, to)) = emitted {
                outgoing.push((b, to));
            }
            if p.cli.c.is_connected() {
                if !p.was_connected {
                    p.was_connected = true;
                    out.count("hist.connected_sessions");
                }
                if r.chance(1, 3) {
                    let n = *r.pick(&[0usize, 1, 40, 300]);
                    if let Ok((to, b)) = p.cli.payload(&r.bytes(n)) {
                        out.count("hist.payload_cli");
                        outgoing.push((b, to));
                    }
                }
                if r.chance(1, 40) {
                    if let Ok((to, b)) = p.cli.disconnect() {
                        out.count("hist.disconnect_cli");
                        outgoing.push((b.clone(), to));
                        if r.chance(1, 3) {
                            // applications often send the disconnect packet more than once
                            if let Ok((to2, b2)) = p.cli.disconnect() {
                                outgoing.push((b2, to2));
                            }
                        }
                    }
                }
            }
            if !p.cli.c.is_connected() && !p.cli.c.is_disconnected() && p.requests > 0 && r.chance(1, 50) {
                // the application gives up while the handshake is still running (requesting or responding): the client
                // seals a Disconnect under the same key as the responses it has sent
                if let Ok((to, b)) = p.cli.disconnect() {
                    out.count("hist.disconnect_cli_while_connecting");
                    outgoing.push((b, to));
                    if r.chance(1, 3) {
                        if let Ok((to2, b2)) = p.cli.disconnect() {
                            outgoing.push((b2, to2));
                        }
                    }
                }
            }
            if p.cli.c.is_disconnected() && p.alive {
                p.alive = false;
                dead_ids.push((p.cli.minted.token.client_id, p.cli.addr));
            }
            for (b, to) in outgoing {
                fp.bytes(&b[..b.len().min(24)]);
                let ty = b[0] & 0xF;
                if ty == 0 {
                    p.requests += 1;
                    if p.requests == 2 {
                        out.count("hist.request_retries");
                    }
                } else {
                    // sealed by this client under its token's client-to-server key
                    match nsim::open(&b, protocol, Some(&p.cli.minted.token.client_to_server_key)) {
                        Some((seq, pk)) => {
                            if nsim::wire_sequence(&b) != Some(seq) {
                                return out.inconclusive("C17 history: prefix sequence differs from the decoder's");
                            }
                            if matches!(pk, OPacket::KeepAlive { .. }) {
                                out.count("hist.keepalive_cli");
                            }
                            if let Some(v) = table.enter(out, i, false, seq, &pk, &b, tick) {
                                violation!(v);
                            }
                            let ck = p.cli.minted.token.client_to_server_key;
                            if let Some(v) = table.enter_real(out, i, false, seq, protocol, &ck, &b, tick) {
                                violation!(v);
                            }
                            out.eval(mix(&[0x1b, run_seed, fnv1a(&b)]), true);
                        }
                        None if b.len() < 18 => out.count("nonce.unopenable_17_byte_datagram_F15"),
                        None => return out.inconclusive("C17 history: a client datagram does not open under its token's key"),
                    }
                }
                if srv.addrs.contains(&to) && !r.chance(drop_pct, 100) {
                    c2s.push((i, b.clone()));
                    if r.chance(dup_pct, 100) {
                        c2s.push((i, b));
                    }
                }
            }
        }
        // server acts: per-client update, payloads, occasional disconnect
        let mut server_out: Vec<(SocketAddr, Vec<u8>)> = Vec::new();
        let mut ids = srv.s.clients_id();
        ids.sort_unstable();
        for id in ids {
            match srv.update_client(id) {
                SResult::Send { addr, bytes } => server_out.push((addr, bytes)),
                SResult::Disconnected { addr, bytes: Some(b), .. } => server_out.push((addr, b)),
                _ => {}
            }
            if srv.s.is_client_connected(id) && r.chance(1, 3) {
                let n = *r.pick(&[0usize, 1, 40, 300]);
                if let Ok((addr, b)) = srv.payload_for(id, &r.bytes(n)) {
                    out.count("hist.payload_srv");
                    server_out.push((addr, b));
                }
            }
            if srv.s.is_client_connected(id) && r.chance(1, if race { 5 } else { 40 }) {
                if let SResult::Disconnected { addr, bytes: Some(b), .. } = srv.disconnect(id) {
                    out.count("hist.disconnect_srv");
                    server_out.push((addr, b));
                }
            }
        }
        // deliveries client -> server (shuffled); replies are server output, too
        r.shuffle(&mut c2s);
        for (i, b) in c2s.drain(..) {
            let from = parties[i].cli.addr;
            let res = srv.process(from, &b);
            if matches!(res, SResult::Connected { .. }) {
                parties[i].server_sessions += 1;
                if parties[i].server_sessions == 2 {
                    out.count("hist.second_session_same_token_not_recorded");
                }
                if parties[i].denied_seen && parties[i].server_sessions == 1 {
                    out.count("hist.admitted_after_denial_same_token");
                }
            }
            if let Some((addr, bytes)) = res.outgoing() {
                server_out.push((addr, bytes.clone()));
            }
        }
        // record everything the server emitted, then put it on the (lossy) link
        for (addr, b) in server_out {
            fp.bytes(&b[..b.len().min(24)]);
            let mut cands: Vec<usize> = (0..parties.len()).filter(|i| parties[*i].cli.addr == addr).collect();
            cands.extend((0..parties.len()).filter(|i| parties[*i].cli.addr != addr));
            let mut found = false;
            for i in cands {
                if let Some((seq, pk)) = nsim::open(&b, protocol, Some(&parties[i].cli.minted.token.server_to_client_key)) {
                    found = true;
                    if nsim::wire_sequence(&b) != Some(seq) {
                        return out.inconclusive("C17 history: prefix sequence differs from the decoder's");
                    }
                    match &pk {
                        OPacket::KeepAlive { .. } => out.count("hist.keepalive_srv"),
                        OPacket::Denied => {
                            out.count("hist.denied");
                            parties[i].denied_seen = true;
                        }
                        OPacket::Challenge { token_sequence, token_data } => {
                            out.count("hist.challenge_blobs");
                            let n = challenges_per_party.entry(i).or_insert(0u32);
                            *n += 1;
                            if *n == 2 {
                                out.count("hist.rechallenges");
                            }
                            match table.blobs.get(token_sequence) {
                                Some(old) if old[..] != token_data[..] => {
                                    let w = json!({"token_sequence": token_sequence, "first_blob": crate::rng::hex(old), "second_blob": crate::rng::hex(&token_data[..]), "log_tail": table.log});
                                    violation!((
                                        "C17/nonce-reuse/server/challenge-token".to_string(),
                                        format!("two different challenge tokens sealed under the challenge key with token_sequence {}", token_sequence),
                                        w
                                    ));
                                }
                                Some(_) => {}
                                None => {
                                    table.blobs.insert(*token_sequence, token_data.to_vec());
                                }
                            }
                        }
                        _ => {}
                    }
                    if parties[i].server_sessions >= 2 {
                        break;
                    }
                    if let Some(v) = table.enter(out, i, true, seq, &pk, &b, tick) {
                        violation!(v);
                    }
                    let sk = parties[i].cli.minted.token.server_to_client_key;
                    if let Some(v) = table.enter_real(out, i, true, seq, protocol, &sk, &b, tick) {
                        violation!(v);
                    }
                    out.eval(mix(&[0x1c, run_seed, fnv1a(&b)]), true);
                    break;
                }
            }
            if !found {
                if b.len() < 18 {
                    out.count("nonce.unopenable_17_byte_datagram_F15");
                } else {
                    return out.inconclusive("C17 history: a server datagram opens under no token key the harness minted");
                }
            }
            if !r.chance(drop_pct, 100) {
                s2c.push((addr, b.clone()));
                if r.chance(dup_pct, 100) {
                    s2c.push((addr, b));
                }
            }
        }
        r.shuffle(&mut s2c);
        for (addr, b) in s2c.drain(..) {
            // the newest live party at that address receives it
            if let Some(p) = parties.iter_mut().rev().find(|p| p.cli.addr == addr && p.alive) {
                let _ = p.cli.process(&b);
            }
        }
    }
    if table.unverifiable > 0 {
        return out.inconclusive(&format!("C17 history: {} sealed datagrams open under the library's decoder but under no candidate nonce of the independent reference: the nonce ledger cannot vouch for them", table.unverifiable));
    }
    out.add("nonce.keys", table.seen.len() as u64);
    let _ = parties.iter().filter(|p| p.reconnect_of).count();
    out.eval(mix(&[0x1d, fp.finish()]), true);
    if out.samples.len() < out.max_samples {
        out.sample(json!({"mode": "history", "run_seed": format!("{:#x}", run_seed), "max_clients": max_clients, "parties": parties.len(), "ticks": ticks,
            "dt_ms": dt.as_millis() as u64, "drop_pct": drop_pct, "dup_pct": dup_pct, "keys": table.seen.len(),
            "entries": table.seen.values().map(|m| m.len()).sum::<usize>(), "log_tail": table.log}));
    }
}
